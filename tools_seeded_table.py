#!/venv/bin/python
"""Print the table of seeded changes (seeded/*/meta.json) for DESIGN.md."""
import glob, json, os
rows = []
for p in sorted(glob.glob(os.path.join(os.path.dirname(os.path.abspath(__file__)), "seeded", "*", "meta.json"))):
    m = json.load(open(p))
    if m["id"].startswith("test-"):
        continue
    c = m.get("check", {})
    kind = "concrete input" if m.get("detected_with_concrete_input") else ("no-failing-input-found" if m.get("detected") else "MISSED")
    hist = "; ".join("%s at %s" % (h["result"], h.get("verif_commit")) for h in m.get("history", []) if h["result"] != kind) or "-"
    if m.get("no_longer_applies"):
        hist += " (patch no longer applies after a later fix)"
    rows.append((m["id"], m["property"], "yes" if m.get("confirmed") else "NO", kind, c.get("verif_commit", ""), c.get("wall_s", ""), hist))
print("| seeded change | check run | confirmed (demo+600 tests) | result | /verif commit | wall s | earlier results (before the check was strengthened) |")
print("|---|---|---|---|---|---|---|")
for r in rows:
    print("| %s | %s | %s | %s | %s | %s | %s |" % r)
print()
print("%d seeded, %d detected, %d with a concrete failing input" % (len(rows), sum(r[3] != "MISSED" for r in rows), sum(r[3] == "concrete input" for r in rows)))
