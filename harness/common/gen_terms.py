"""Type-directed generator of kernel types and de Bruijn terms (real `kernel.term` objects).

Mostly well-typed, with deliberate traps: the same name at different types, schematic and ordinary
variables sharing names, bound names clashing with free names, polymorphic (schematic) types,
function types up to order 2, loose bound variables and ill-typed applications on request.
All logical constants are used at instances of their declared types (`sigOK` in the model).
"""
from kernel.type import TVar, STVar, TConst, TFun, BoolType
from kernel.term import Var, SVar, Const, Comb, Abs, Bound

A, B = TVar("a"), TVar("b")
SA, SB = STVar("a"), STVar("b")
NAT = TConst("nat")
BASE = [BoolType, A, SA, BoolType, A, B, SB, NAT]
NAMES = ["x", "y", "z", "p", "q", "f", "g", "u"]


def eq_const(T):
    return Const("equals", TFun(T, T, BoolType))


def all_const(T):
    return Const("all", TFun(TFun(T, BoolType), BoolType))


IMPLIES = Const("implies", TFun(BoolType, BoolType, BoolType))


class Gen:
    def __init__(self, rng, share=0.0):
        self.rng = rng
        self.share = share      # probability of re-using a Python object (DAG sharing across binder depths)
        self.pool = {}          # (type, type of Bound 0 or None) -> terms that mention at most Bound 0

    # ---- types
    def base(self):
        return self.rng.choice(BASE)

    def ty(self, order=2):
        r = self.rng.random()
        if order == 0 or r < 0.55:
            return self.base()
        if r < 0.9:
            return TFun(self.ty(order - 1) if self.rng.random() < 0.25 else self.base(), self.ty(order - 1) if self.rng.random() < 0.3 else self.base())
        return TConst("list", self.base()) if self.rng.random() < 0.5 else self.base()

    def tyinst(self):
        d = {}
        for n in ("a", "b"):
            if self.rng.random() < 0.7:
                d[n] = self.ty(1)
        return d

    # ---- atoms
    def atom(self, T):
        r = self.rng.random()
        n = self.rng.choice(NAMES)
        if r < 0.45:
            return Var(n, T)
        if r < 0.75:
            return SVar(n, T)
        return Const(self.rng.choice(["c", "d", "false", "k"]), T)

    # ---- terms of a given type under a binder context (list of types, innermost first)
    def term(self, T, depth=3, ctx=()):
        """Possibly re-use an earlier OBJECT: terms generated under a context of length <= 1 only mention
        Bound 0, so the same object can sit directly under binders at different depths."""
        rng = self.rng
        if self.share and depth >= 1 and rng.random() < self.share:
            key = (repr(T), repr(ctx[0]) if ctx else None)
            bucket = self.pool.setdefault(key, [])
            if bucket and rng.random() < 0.6:
                return rng.choice(bucket)
            t = self.term_fresh(T, min(depth, 2), tuple(ctx[:1]))
            bucket.append(t)
            return t
        return self.term_fresh(T, depth, ctx)

    def term_fresh(self, T, depth=3, ctx=()):
        rng = self.rng
        cands = [i for i, S in enumerate(ctx) if S == T]
        r = rng.random()
        if cands and r < 0.3:
            return Bound(rng.choice(cands))
        if depth <= 0 or r < 0.4:
            return self.atom(T)
        if T == BoolType and r < 0.75:
            k = rng.random()
            if k < 0.4:
                S = self.ty(1)
                return Comb(Comb(eq_const(S), self.term(S, depth - 1, ctx)), self.term(S, depth - 1, ctx))
            if k < 0.7:
                return Comb(Comb(IMPLIES, self.term(BoolType, depth - 1, ctx)), self.term(BoolType, depth - 1, ctx))
            S = self.ty(1)
            return Comb(all_const(S), Abs(rng.choice(NAMES), S, self.term(BoolType, depth - 1, (S,) + tuple(ctx))))
        if T.is_fun() and len(T.args) == 2 and r < 0.8:
            return Abs(rng.choice(NAMES), T.args[0], self.term(T.args[1], depth - 1, (T.args[0],) + tuple(ctx)))
        S = self.ty(1)
        return Comb(self.term(TFun(S, T), depth - 1, ctx), self.term(S, depth - 1, ctx))

    def closed(self, T, depth=3):
        return self.term(T, depth, ())

    def prop(self, depth=3):
        return self.closed(BoolType, depth)

    # ---- malformed
    def bad_term(self, depth=2):
        """ill-typed or open term"""
        rng = self.rng
        k = rng.random()
        if k < 0.3:
            return Bound(rng.randint(0, 1))
        if k < 0.6:
            S, T = self.ty(1), self.ty(1)
            return Comb(self.closed(TFun(S, BoolType), depth), self.closed(T, depth))  # maybe wrong argument type
        if k < 0.8:
            return Comb(self.atom(self.base()), Bound(0))
        return Comb(self.atom(TFun(self.base(), BoolType)), Comb(self.atom(TFun(A, A)), Bound(0)))
