"""S-expression wire format shared with lean/Holpy/Common/Sexp.lean.

Atoms never contain whitespace or parentheses: `enc` percent-encodes everything outside a safe
alphabet, so the Lean reader needs no quoting rules.
"""

_SAFE = set("abcdefghijklmnopqrstuvwxyzABCDEFGHIJKLMNOPQRSTUVWXYZ0123456789_-+.'?:=<>!*/&|~^@#$,;[]{}")


def enc(s: str) -> str:
    """Encode an arbitrary string as an atom (never empty)."""
    if s == "":
        return "%e"
    out = []
    for ch in s:
        if ch in _SAFE:
            out.append(ch)
        else:
            out.append("%%%x%%" % ord(ch))
    return "".join(out)


def dec(a: str) -> str:
    if a == "%e":
        return ""
    out = []
    i = 0
    while i < len(a):
        if a[i] == "%":
            j = a.index("%", i + 1)
            out.append(chr(int(a[i + 1:j], 16)))
            i = j + 1
        else:
            out.append(a[i])
            i += 1
    return "".join(out)


def dumps(x) -> str:
    """x is a str atom (already encoded), int, bool, or list/tuple of such."""
    if isinstance(x, bool):
        return "T" if x else "F"
    if isinstance(x, int):
        return str(x)
    if isinstance(x, str):
        assert x != "" and not any(c in x for c in " ()\t\n"), repr(x)
        return x
    return "(" + " ".join(dumps(y) for y in x) + ")"


def loads(s: str):
    toks = s.replace("(", " ( ").replace(")", " ) ").split()
    stack = [[]]
    for t in toks:
        if t == "(":
            stack.append([])
        elif t == ")":
            top = stack.pop()
            stack[-1].append(top)
        else:
            stack[-1].append(t)
    assert len(stack) == 1 and len(stack[0]) == 1, s
    return stack[0][0]
