"""Kernel objects <-> s-expressions (lean/Holpy/Kernel/Wire.lean).

Reads the fields of real `Type`/`Term`/`Thm`/`Inst` objects directly (never through the printer).
"""
from harness.common.sexp import enc, dec, dumps, loads  # noqa


def ty_to(T):
    if T.is_stvar():
        return ["S", enc(T.name)]
    if T.is_tvar():
        return ["V", enc(T.name)]
    return ["C", enc(T.name)] + [ty_to(a) for a in T.args]


def term_to(t):
    # iterative on the spine would be faster, but terms here are small
    if t.is_svar():
        return ["sv", enc(t.name), ty_to(t.T)]
    if t.is_var():
        return ["v", enc(t.name), ty_to(t.T)]
    if t.is_const():
        return ["c", enc(t.name), ty_to(t.T)]
    if t.is_comb():
        return ["ap", term_to(t.fun), term_to(t.arg)]
    if t.is_abs():
        return ["ab", enc(t.var_name), ty_to(t.var_T), term_to(t.body)]
    if t.is_bound():
        return ["b", t.n]
    raise TypeError(t)


def thm_to(th):
    return ["thm", [term_to(h) for h in th.hyps], term_to(th.prop)]


def tyinst_to(tyinst):
    return [[enc(k), ty_to(v)] for k, v in tyinst.items()]


def inst_to(inst):
    return ["inst", tyinst_to(inst.tyinst), [[enc(k), term_to(v)] for k, v in inst.items()],
            [[enc(k), term_to(v)] for k, v in inst.var_inst.items()]]


def ty_of(x):
    from kernel.type import STVar, TVar, TConst
    if x[0] == "S":
        return STVar(dec(x[1]))
    if x[0] == "V":
        return TVar(dec(x[1]))
    return TConst(dec(x[1]), *[ty_of(a) for a in x[2:]])


def term_of(x):
    from kernel import term as T
    k = x[0]
    if k == "sv":
        return T.SVar(dec(x[1]), ty_of(x[2]))
    if k == "v":
        return T.Var(dec(x[1]), ty_of(x[2]))
    if k == "c":
        return T.Const(dec(x[1]), ty_of(x[2]))
    if k == "ap":
        return T.Comb(term_of(x[1]), term_of(x[2]))
    if k == "ab":
        return T.Abs(dec(x[1]), ty_of(x[2]), term_of(x[3]))
    if k == "b":
        return T.Bound(int(x[1]))
    raise ValueError(x)


def canon_term(x):
    """Canonical form of a term s-expression for comparison: bound names erased."""
    if x[0] == "ap":
        return ["ap", canon_term(x[1]), canon_term(x[2])]
    if x[0] == "ab":
        return ["ab", "_", x[2], canon_term(x[3])]
    return x


def canon_thm(x):
    """hyps as a sorted set of name-erased terms"""
    hyps = sorted({dumps(canon_term(h)) for h in x[1]})
    return ("thm", tuple(hyps), dumps(canon_term(x[2])))


def arg_to(args):
    """Argument of a proof item as the model's `Arg`: (none) | (term T) | (tyinst ..) | (inst ..) for
    the kinds `primitive_deriv` knows (decided with isinstance, as the checker does), and
    (other KIND) for anything else — a Thm, a string, a number, a tuple, a malformed Inst …"""
    from kernel.term import Term, Inst
    from kernel.type import TyInst
    if args is None:
        return ["none"]
    try:
        if isinstance(args, Inst):
            return inst_to(args)
        if isinstance(args, TyInst):
            return ["tyinst", tyinst_to(args)]
        if isinstance(args, Term):
            return ["term", term_to(args)]
    except Exception:  # noqa  (an Inst/TyInst whose contents are not terms/types)
        return ["other", enc("malformed-" + type(args).__name__)]
    return ["other", enc(type(args).__name__)]
