"""Run context shared by every property check: tier/seed, Lean build + audit + driver,
violation / known-finding reporting, evidence writing.

Exit codes: 0 property held on everything explored; 1 VIOLATION printed; 2 infrastructure trouble
(timeouts of the machinery itself, missing tools) -- never used to signal a property failure.
"""
import fcntl
import hashlib
import json
import os
import random
import re
import shutil
import signal
import subprocess
import sys
import time
import traceback

VERIF = os.path.dirname(os.path.dirname(os.path.dirname(os.path.abspath(__file__))))
LEAN_DIR = os.path.join(VERIF, "lean")
ALLOWED_AXIOMS = {"propext", "Classical.choice", "Quot.sound"}
FORBIDDEN = re.compile(r"\b(sorry|admit|native_decide|bv_decide|implemented_by|unsafe)\b|^\s*axiom\s|maxHeartbeats\s+0\b")


class Timeout(Exception):
    pass


class time_limit:
    """SIGALRM based limit for calls into the implementation (main thread only).
    Blocks nest: leaving an inner block re-arms the outer block's alarm with its remaining time."""

    def __init__(self, seconds):
        self.seconds = seconds

    def _handler(self, signum, frame):
        raise Timeout()

    def __enter__(self):
        self.t0 = time.time()
        self.old = signal.signal(signal.SIGALRM, self._handler)
        self.outer_left = signal.getitimer(signal.ITIMER_REAL)[0]
        limit = self.seconds if self.outer_left <= 0 else min(self.seconds, self.outer_left)
        signal.setitimer(signal.ITIMER_REAL, limit)

    def __exit__(self, *exc):
        signal.setitimer(signal.ITIMER_REAL, 0)
        signal.signal(signal.SIGALRM, self.old)
        if self.outer_left > 0:
            left = self.outer_left - (time.time() - self.t0)
            signal.setitimer(signal.ITIMER_REAL, max(left, 0.001))
        return False


def strip_lean_comments(src: str) -> str:
    """Remove /- ... -/ (nested) and -- comments; keeps line structure."""
    out = []
    i, depth, n = 0, 0, len(src)
    while i < n:
        if src.startswith("/-", i):
            depth += 1
            i += 2
        elif depth and src.startswith("-/", i):
            depth -= 1
            i += 2
        elif depth:
            if src[i] == "\n":
                out.append("\n")
            i += 1
        elif src.startswith("--", i):
            while i < n and src[i] != "\n":
                i += 1
        else:
            out.append(src[i])
            i += 1
    return "".join(out)


def theorem_statements(src):
    """{theorem name: sha256 of its statement} — the text from `theorem` up to the first `:=`,
    whitespace-normalised, comments stripped."""
    src = strip_lean_comments(src)
    out = {}
    for m in re.finditer(r"^\s*theorem\s+([A-Za-z0-9_.']+)", src, flags=re.M):
        rest = src[m.end():]
        k = rest.find(":=")
        stmt = rest if k < 0 else rest[:k]
        stmt = " ".join(stmt.split())
        out[m.group(1)] = hashlib.sha256(stmt.encode()).hexdigest()[:16]
    return out


class Ctx:
    def __init__(self, prop, tier, seed, replay=None):
        self.prop = prop
        self.tier = tier
        self.seed = seed
        self.replay = replay
        self.repo = os.environ.get("HOLPY_REPO", "/repo")
        self.verif = VERIF
        self.lean_dir = LEAN_DIR
        self.t0 = time.time()
        self.scratch = os.path.join(VERIF, ".scratch", "%s-%d" % (prop, os.getpid()))
        os.makedirs(self.scratch, exist_ok=True)
        self.violations = []       # (key, what, replay_path)
        self.known_hits = {}       # key -> what
        self.brokens = []          # (name, detail)
        self.coverage = {"evaluations": 0, "distinct_nontrivial": 0, "rule": "", "samples": [],
                         "obligations": 0, "discharged": 0, "checker_cmd": "", "trusted_base": [],
                         "disagreements_checked": 0, "histogram": {}}
        self.assumptions = []
        self.level = "proof"
        self._seen = set()
        self._nreplay = 0
        self.theorem_axioms = {}
        with open(os.path.join(VERIF, "known_findings.json")) as f:
            self.findings = [x for x in json.load(f)["findings"] if x["property"] == prop]

    # ---------------------------------------------------------------- misc
    def rng(self, stream=""):
        h = hashlib.sha256(("%s/%s/%s" % (self.seed, self.prop, stream)).encode()).digest()
        return random.Random(int.from_bytes(h[:8], "big"))

    def scale(self, quick, thorough):
        return quick if self.tier == "quick" else thorough

    def log(self, *a):
        print("[%s %6.1fs]" % (self.prop, time.time() - self.t0), *a, flush=True)

    # ---------------------------------------------------------------- coverage
    def count(self, name, n=1):
        h = self.coverage["histogram"]
        h[name] = h.get(name, 0) + n

    def case(self, canon, nontrivial=True):
        """Register one explored case; `canon` is any hashable canonical form."""
        self.coverage["evaluations"] += 1
        if nontrivial:
            k = hashlib.sha1(repr(canon).encode()).digest()
            if k not in self._seen:
                self._seen.add(k)
                self.coverage["distinct_nontrivial"] += 1

    def sample(self, obj, limit=6):
        if len(self.coverage["samples"]) < limit:
            self.coverage["samples"].append(obj)

    # ---------------------------------------------------------------- lean
    def _lock(self):
        f = open(os.path.join(self.lean_dir, ".lock"), "w")
        fcntl.flock(f, fcntl.LOCK_EX)
        return f

    def write_if_changed(self, relpath, content):
        """Write a generated Lean file only when its content changes (keeps lake incremental)."""
        p = os.path.join(self.lean_dir, relpath)
        old = None
        if os.path.exists(p):
            with open(p) as f:
                old = f.read()
        if old != content:
            os.makedirs(os.path.dirname(p), exist_ok=True)
            with open(p, "w") as f:
                f.write(content)
            return True
        return False

    def lean_build(self, targets, timeout=3000):
        lock = self._lock()
        try:
            t = time.time()
            cmd = ["lake", "build"] + list(targets)
            p = subprocess.run(cmd, cwd=self.lean_dir, capture_output=True, text=True, timeout=timeout)
            return p.returncode == 0, p.stdout + p.stderr, time.time() - t
        finally:
            lock.close()

    def lean_props(self, modules, exes=(), theorems_from=None):
        """Build the property modules and drivers, audit them, fill the proof part of the evidence.

        Returns True when every obligation checked.  A failing build is recorded with
        `broken(...)`; the drivers are then built on their own so the failing-input search can
        still use the model.
        """
        self.coverage["checker_cmd"] = "cd lean && lake build %s && lake env lean <#print axioms of every theorem>" % " ".join(list(modules) + list(exes))
        ok, log, secs = self.lean_build(list(modules) + list(exes))
        self.log("lake build %s: %s in %.1fs" % (" ".join(modules), "ok" if ok else "FAILED", secs))
        all_ok = ok
        if not ok:
            errs = [l for l in log.splitlines() if "error" in l][:12]
            self.broken("lean-build:" + ",".join(modules), "\n".join(errs) or log[-2000:])
            if exes:
                ok2, log2, _ = self.lean_build(list(exes))
                if not ok2:
                    self.log("driver build failed too")
        # static audit of the sources of this property
        thms = []
        for m in (theorems_from or modules):
            path = os.path.join(self.lean_dir, m.replace(".", "/") + ".lean")
            with open(path) as f:
                src = strip_lean_comments(f.read())
            thms += re.findall(r"^\s*theorem\s+([A-Za-z0-9_.']+)", src, flags=re.M)
        # pinned statements: a theorem that disappeared or whose statement changed since the lock
        # was written (tools_lock_theorems.py) is a broken obligation
        lock_path = os.path.join(self.lean_dir, "theorems.lock.json")
        if os.path.exists(lock_path):
            with open(lock_path) as f:
                locked = json.load(f).get(self.prop, {})
            current = {}
            for m in (theorems_from or modules):
                path = os.path.join(self.lean_dir, m.replace(".", "/") + ".lean")
                with open(path) as f:
                    current.update(theorem_statements(f.read()))
            for name, h in locked.items():
                if name not in current:
                    self.broken("lean-audit:theorem-missing:" + name, "theorem %s is pinned in theorems.lock.json but no longer in the property file" % name)
                    all_ok = False
                elif current[name] != h:
                    self.broken("lean-audit:theorem-statement-changed:" + name, "the statement of %s differs from the pinned one" % name)
                    all_ok = False
            self.coverage["pinned_theorems"] = len(locked)
        propdir = os.path.join(self.lean_dir, "Holpy", self.prop)
        bad = []
        for root, _, files in os.walk(propdir):
            for fn in files:
                if fn.endswith(".lean"):
                    with open(os.path.join(root, fn)) as f:
                        src = strip_lean_comments(f.read())
                    for ln, line in enumerate(src.splitlines(), 1):
                        if FORBIDDEN.search(line):
                            bad.append("%s:%d: %s" % (fn, ln, line.strip()[:80]))
        if bad:
            self.broken("lean-audit:forbidden-construct", "\n".join(bad[:10]))
            all_ok = False
        self.coverage["obligations"] = len(thms)
        discharged = 0
        if ok and thms:
            audit = os.path.join(self.scratch, "Audit.lean")
            with open(audit, "w") as f:
                for m in modules:
                    f.write("import %s\n" % m)
                f.write("open Holpy.%s\n" % self.prop)
                for t in thms:
                    f.write("#print axioms %s\n" % t)
            lock = self._lock()
            try:
                p = subprocess.run(["lake", "env", "lean", audit], cwd=self.lean_dir, capture_output=True, text=True, timeout=1800)
            finally:
                lock.close()
            out = p.stdout + p.stderr
            # "'X' depends on axioms: [a, b]"  or "'X' does not depend on any axioms"
            for m in re.finditer(r"'([^']+(?:'[^']*)*?)' (does not depend on any axioms|depends on axioms: \[([^\]]*)\])", out):
                name = m.group(1)
                axs = [a.strip() for a in (m.group(3) or "").replace("\n", " ").split(",") if a.strip()]
                self.theorem_axioms[name] = axs
                for pre in ("Holpy.%s." % self.prop, "Holpy."):
                    if name.startswith(pre):
                        self.theorem_axioms.setdefault(name[len(pre):], axs)
            for t in thms:
                axs = self.theorem_axioms.get(t)
                if axs is None:
                    self.broken("lean-audit:" + t, "no #print axioms output: " + out[-500:])
                    all_ok = False
                elif not set(axs) <= ALLOWED_AXIOMS:
                    self.broken("lean-audit:" + t, "axioms outside the trusted base: %s" % axs)
                    all_ok = False
                else:
                    discharged += 1
        self.coverage["discharged"] = discharged
        self.coverage["theorems"] = {t: self.theorem_axioms.get(t) for t in thms}
        self.coverage["trusted_base"] = [
            "Lean 4.33.0 kernel", "axioms: subset of propext, Classical.choice, Quot.sound (audited with #print axioms this run)",
            "no sorry/admit/native_decide/bv_decide/own axioms (source grep this run)"]
        return all_ok

    def lean_check_modules(self, modules):
        """thorough tier: independent re-check of compiled modules with leanchecker."""
        lock = self._lock()
        try:
            p = subprocess.run(["lake", "env", "leanchecker"] + list(modules), cwd=self.lean_dir, capture_output=True, text=True, timeout=3000)
        finally:
            lock.close()
        ok = p.returncode == 0
        self.coverage["leanchecker"] = {"modules": list(modules), "ok": ok}
        if not ok:
            self.broken("leanchecker:" + ",".join(modules), (p.stdout + p.stderr)[-1500:])
        return ok

    def driver_path(self, exe):
        return os.path.join(self.lean_dir, ".lake", "build", "bin", exe)

    def lean_driver(self, exe, lines, timeout=600, chunk=400, per_line=0.25):
        """Pipe lines through a compiled driver; returns the output lines (one per input line).

        Lines go in chunks; a chunk gets `20 + per_line * len` seconds.  If the driver dies or
        times out on a chunk (a panic or a runaway evaluation in the model), the chunk is bisected
        and the offending lines answer "(crash)" / "(timeout)", so one bad case cannot take the
        whole stream down.  `timeout` bounds the total time; lines not reached answer "(timeout)".
        Returns None when the driver is not available at all."""
        path = self.driver_path(exe)
        if not os.path.exists(path):
            return None
        if not lines:
            return []
        deadline = time.time() + timeout

        def run(batch, limit):
            try:
                p = subprocess.run([path], input="\n".join(batch) + "\n", capture_output=True, text=True, timeout=limit)
            except subprocess.TimeoutExpired:
                return None, "timeout"
            out = p.stdout.splitlines()
            if p.returncode != 0 or len(out) != len(batch):
                return None, "crash"
            return out, ""

        def solve(batch):
            if time.time() > deadline:
                self.count("driver-deadline-lines", len(batch))
                return ["(timeout)"] * len(batch)
            limit = max(5.0, min(20 + per_line * len(batch), deadline - time.time()))
            o, why = run(batch, limit)
            if o is not None:
                return o
            if len(batch) == 1:
                self.count("driver-%s-lines" % why)
                return ["(%s)" % why]
            self.count("driver-%s-batches" % why)
            mid = len(batch) // 2
            return solve(batch[:mid]) + solve(batch[mid:])

        result = []
        for i in range(0, len(lines), chunk):
            result += solve(lines[i:i + chunk])
        return result

    # ---------------------------------------------------------------- reporting
    def broken(self, name, detail):
        """A proof obligation or a correspondence stream no longer checks (not yet a violation)."""
        self.brokens.append((name, detail))
        self.log("BROKEN %s: %s" % (name, detail[:300].replace("\n", " | ")))

    def violation(self, key, what, replay):
        """A concrete input on which the property fails on the implementation."""
        for f in self.findings:
            if f["key"] == key and f.get("status") == "known":
                if key not in self.known_hits:
                    self.known_hits[key] = f.get("what", what)
                return "known"
        if any(v[0] == key for v in self.violations):
            return "dup"
        d = os.path.join(self.verif, "replays", self.prop)
        os.makedirs(d, exist_ok=True)
        self._nreplay += 1
        path = os.path.join(d, "%s-%d-%d.json" % (self.tier, self.seed, self._nreplay))
        with open(path, "w") as f:
            json.dump({"property": self.prop, "key": key, "what": what, "replay": replay,
                       "replay_cmd": "./check %s --replay %s" % (self.prop, os.path.relpath(path, self.verif))},
                      f, indent=1, default=str, ensure_ascii=False)
        self.violations.append((key, what, os.path.relpath(path, self.verif)))
        self.log("violation %s: %s" % (key, what[:300]))
        return "new"

    def finish(self):
        for key, what in self.known_hits.items():
            print("KNOWN-FINDING: property=%s %s [%s]" % (self.prop, what, key))
        code = 0
        shown = self.violations[:5]
        for key, what, path in shown:
            print("VIOLATION property=%s replay=%s" % (self.prop, path))
            code = 1
        if not self.violations and self.brokens:
            d = os.path.join(self.verif, "replays", self.prop)
            os.makedirs(d, exist_ok=True)
            path = os.path.join(d, "%s-%d-unchecked.json" % (self.tier, self.seed))
            with open(path, "w") as f:
                json.dump({"property": self.prop,
                           "no_longer_checks": [{"name": n, "detail": dt} for n, dt in self.brokens],
                           "note": "the failing-input search found no input on which the implementation violates the property"},
                          f, indent=1, ensure_ascii=False)
            print("VIOLATION property=%s replay=%s no-failing-input-found" % (self.prop, os.path.relpath(path, self.verif)))
            code = 1
        self.write_evidence(len(self.violations) + (1 if code and not self.violations else 0))
        shutil.rmtree(self.scratch, ignore_errors=True)
        return code

    def write_evidence(self, nviol):
        cov = dict(self.coverage)
        if cov["distinct_nontrivial"] > cov["evaluations"]:
            cov["distinct_nontrivial"] = cov["evaluations"]
        cov["known_findings_reproduced"] = sorted(self.known_hits)
        cov["no_longer_checks"] = [n for n, _ in self.brokens]
        ev = {"property_id": self.prop, "tier": self.tier, "seed": self.seed, "level": self.level,
              "coverage": cov, "assumptions": self.assumptions,
              "wall_s": round(time.time() - self.t0, 2), "violations": nviol}
        os.makedirs(os.path.join(self.verif, "evidence"), exist_ok=True)
        with open(os.path.join(self.verif, "evidence", "%s.json" % self.prop), "w") as f:
            json.dump(ev, f, indent=1, default=str, ensure_ascii=False)


def main(argv=None):
    import argparse
    import importlib
    ap = argparse.ArgumentParser()
    ap.add_argument("prop")
    ap.add_argument("--tier", default=os.environ.get("VERIF_TIER", "quick"), choices=["quick", "thorough"])
    ap.add_argument("--replay", default=None)
    a = ap.parse_args(argv)
    try:
        seed = int(os.environ.get("VERIF_SEED", "0"))
    except ValueError:
        seed = 0
    prop = a.prop.upper()
    ctx = Ctx(prop, a.tier, seed, a.replay)
    sys.path.insert(0, ctx.repo)
    try:
        mod = importlib.import_module("harness.props.%s" % prop.lower())
        if a.replay:
            with open(os.path.join(VERIF, a.replay) if not os.path.isabs(a.replay) else a.replay) as f:
                rp = json.load(f)
            r = mod.replay(ctx, rp)
            shutil.rmtree(ctx.scratch, ignore_errors=True)
            return 1 if r else 0
        mod.run(ctx)
        return ctx.finish()
    except Exception:
        traceback.print_exc()
        shutil.rmtree(ctx.scratch, ignore_errors=True)
        print("harness error (exit 2): this is a failure of the machinery, not a verdict on the property")
        return 2
