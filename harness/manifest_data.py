"""Source of MANIFEST.json (run ./tools_manifest.py after editing)."""
HOOK_COMMITS = []
ENGINES = [{"name": "lean4+correspondence", "path": "lean/ + harness/",
            "serves_properties": [],
            "kind_free_text": "Lean 4 models and theorems (lean/Holpy/Cxx), tied to /repo by regenerated tables (Gen.lean) and by differential execution of compiled model drivers against the real Python"}]
CHECKS = [
    {"id": "C15",
     "text": "Lean theorems about an executable model of solve_cnf for every CNF, fuel and set-iteration order; encode_* rules regenerated from library/sat.json and re-proved each run; model tied to prover/sat.py by differential runs on generated CNFs; verdicts/traces of the real solver judged by brute force and an independent trace replay. Termination is not proved (searched for with time limits).",
     "design_ref": "DESIGN.md 4/C15",
     "note": "Trusted: Lean kernel, propext/Classical.choice/Quot.sound, the harness generators and the recording of Python set orders, the sat.json translator. tseitin.encode is judged by the real checker plus brute-force equisatisfiability, its construction is not modelled.",
     "technique": "Lean 4 proof over a hand-written model + differential correspondence"},
]
_PENDING = "check not built yet in this revision (to be claimed once its Lean model, theorems and correspondence exist)"
NOT_APPLICABLE = [{"property_id": "C%02d" % i, "reason": _PENDING} for i in range(1, 21) if "C%02d" % i not in {c["id"] for c in CHECKS}]
ENGINES[0]["serves_properties"] = [c["id"] for c in CHECKS]
