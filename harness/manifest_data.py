"""Hand-maintained parts of MANIFEST.json (run ./tools_manifest.py after editing)."""
HOOK_COMMITS = []
# property id -> reason, for properties that are NOT claimed even though a module may exist
NOT_APPLICABLE_REASONS = {}
