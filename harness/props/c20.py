"""C20 — program evaluation and verification-condition generation are sound.

Stages
  1. Gen.lean: the `com` datatype and the `Sem_*` rules of library/hoare.json, and the Hoare rules
     used by imp.vcg, translated to Lean; Holpy.C20.Props proves them adequate / valid for `Exec`.
  2. Lean obligations (vcs_sound, exec_deterministic, interp_sound, print_parse_*, sem_adequate …).
  3. Correspondence of the Lean model with imperative/{expr,com,parser2,imp}.py on generated
     programs / assertions: annotated pre/post lists and VC list of `compute_wp`/`get_vcs`
     (structurally and as printed strings), printer, parser (cond + com, valid and perturbed
     strings), expression evaluation, `imp.eval_Sem` final state versus the Lean interpreter.
  4. Property oracle on the implementation's own outputs:
       (a) VCs (the HOL terms `get_lines` hands to the user) true on the grid -3..3 and on every
           state an execution visits  ==>  every terminating execution from a grid state satisfying
           the precondition ends in a state satisfying the postcondition (reference interpreter);
       (b) printed condition, re-parsed by the real parser, evaluates like the original on the
           grid; so does the HOL term `convert_hol` builds;
       (c) final state proved by eval_Sem == reference interpreter, and the proof checks.
"""
import itertools
import json
import os
import re

from harness.common import sexp
from harness.common.ctx import Timeout, time_limit

EXE = "c20_model"
GRID = (-3, -2, -1, 0, 1, 2, 3)
UOPS = {"neg": "-", "not": "~"}
BOPS = {"add": "+", "sub": "-", "mul": "*", "eq": "==", "ne": "!=", "le": "<=", "lt": "<", "ge": ">=", "gt": ">",
        "and": "&", "or": "|", "imp": "-->", "iff": "<-->"}
UOPS_R = {v: k for k, v in UOPS.items()}
BOPS_R = {v: k for k, v in BOPS.items()}
ARITH = ("add", "sub", "mul")
REL = ("eq", "ne", "le", "lt")
KEYWORDS = {"true", "if", "then", "else", "forall", "skip", "while"}
TRUE = ("bool", True)
BIG = 10 ** 12


# ------------------------------------------------------------------ ASTs (harness side: tuples)
def s_expr(e):
    k = e[0]
    if k == "var":
        return ["var", sexp.enc(e[1])]
    if k == "int":
        return ["int", e[1]]
    if k == "bool":
        return ["bool", bool(e[1])]
    if k == "un":
        return ["un", e[1], s_expr(e[2])]
    if k == "bin":
        return ["bin", e[1], s_expr(e[2]), s_expr(e[3])]
    if k == "fn1":
        return ["fn1", e[1], s_expr(e[2])]
    if k == "fn2":
        return ["fn2", e[1], s_expr(e[2]), s_expr(e[3])]
    if k == "ite":
        return ["ite", s_expr(e[1]), s_expr(e[2]), s_expr(e[3])]
    raise ValueError(e)


def s_com(c):
    k = c[0]
    if k == "skip":
        return ["skip"]
    if k == "assign":
        return ["assign", sexp.enc(c[1]), s_expr(c[2])]
    if k == "seq":
        return ["seq", s_com(c[1]), s_com(c[2])]
    if k == "cond":
        return ["cond", s_expr(c[1]), s_com(c[2]), s_com(c[3])]
    if k == "while":
        return ["while", s_expr(c[1]), s_expr(c[2]), s_com(c[3])]
    raise ValueError(c)


def u_expr(x):
    """wire -> tuple AST"""
    k = x[0]
    if k == "var":
        return ("var", sexp.dec(x[1]))
    if k == "int":
        return ("int", int(x[1]))
    if k == "bool":
        return ("bool", x[1] == "T")
    if k == "un":
        return ("un", x[1], u_expr(x[2]))
    if k == "bin":
        return ("bin", x[1], u_expr(x[2]), u_expr(x[3]))
    if k == "fn1":
        return ("fn1", x[1], u_expr(x[2]))
    if k == "fn2":
        return ("fn2", x[1], u_expr(x[2]), u_expr(x[3]))
    if k == "ite":
        return ("ite", u_expr(x[1]), u_expr(x[2]), u_expr(x[3]))
    raise ValueError(x)


def u_com(x):
    k = x[0]
    if k == "skip":
        return ("skip",)
    if k == "assign":
        return ("assign", sexp.dec(x[1]), u_expr(x[2]))
    if k == "seq":
        return ("seq", u_com(x[1]), u_com(x[2]))
    if k == "cond":
        return ("cond", u_expr(x[1]), u_com(x[2]), u_com(x[3]))
    if k == "while":
        return ("while", u_expr(x[1]), u_expr(x[2]), u_com(x[3]))
    raise ValueError(x)


def u_acom(x):
    k = x[0]
    pre, post = tuple(u_expr(e) for e in x[1]), tuple(u_expr(e) for e in x[2])
    return (k, pre, post) + tuple(u_acom(y) for y in x[3:])


class Impl:
    """The real implementation, imported lazily from ctx.repo (already on sys.path)."""

    def __init__(self):
        from logic import basic
        basic.load_theory('hoare')
        from imperative import expr, com, parser2
        self.expr, self.com, self.parser2 = expr, com, parser2

    # tuple AST -> real objects
    def to_real(self, e):
        X = self.expr
        k = e[0]
        if k == "var":
            return X.Var(e[1])
        if k == "int":
            return X.Const(int(e[1]))
        if k == "bool":
            return X.Const(bool(e[1]))
        if k == "un":
            return X.Op(UOPS[e[1]], self.to_real(e[2]))
        if k == "bin":
            return X.Op(BOPS[e[1]], self.to_real(e[2]), self.to_real(e[3]))
        if k == "fn1":
            return X.Fun(e[1], self.to_real(e[2]))
        if k == "fn2":
            return X.Fun(e[1], self.to_real(e[2]), self.to_real(e[3]))
        if k == "ite":
            return X.ITE(self.to_real(e[1]), self.to_real(e[2]), self.to_real(e[3]))
        raise ValueError(e)

    def to_real_com(self, c):
        C = self.com
        k = c[0]
        if k == "skip":
            return C.Skip()
        if k == "assign":
            return C.Assign(c[1], self.to_real(c[2]))
        if k == "seq":
            return C.Seq(self.to_real_com(c[1]), self.to_real_com(c[2]))
        if k == "cond":
            return C.Cond(self.to_real(c[1]), self.to_real_com(c[2]), self.to_real_com(c[3]))
        if k == "while":
            return C.While(self.to_real(c[1]), self.to_real(c[2]), self.to_real_com(c[3]))
        raise ValueError(c)

    # real objects -> tuple AST, reading the fields (never through the printer)
    def from_real(self, o):
        X = self.expr
        if type(o) is X.Var:
            return ("var", o.name)
        if type(o) is X.Const:
            return ("bool", o.val) if type(o.val) is bool else ("int", o.val)
        if type(o) is X.Op:
            if len(o.args) == 1:
                return ("un", UOPS_R[o.op], self.from_real(o.args[0]))
            return ("bin", BOPS_R[o.op], self.from_real(o.args[0]), self.from_real(o.args[1]))
        if type(o) is X.Fun:
            if len(o.args) == 1:
                return ("fn1", o.fname, self.from_real(o.args[0]))
            if len(o.args) == 2:
                return ("fn2", o.fname, self.from_real(o.args[0]), self.from_real(o.args[1]))
            return ("unsupported", repr(o))
        if type(o) is X.ITE:
            return ("ite", self.from_real(o.cond), self.from_real(o.e1), self.from_real(o.e2))
        return ("unsupported", repr(o))

    def from_real_com(self, c):
        C = self.com
        if type(c) is C.Skip:
            return ("skip",)
        if type(c) is C.Assign:
            return ("assign", c.v.name, self.from_real(c.e))
        if type(c) is C.Seq:
            return ("seq", self.from_real_com(c.c1), self.from_real_com(c.c2))
        if type(c) is C.Cond:
            return ("cond", self.from_real(c.b), self.from_real_com(c.c1), self.from_real_com(c.c2))
        if type(c) is C.While:
            return ("while", self.from_real(c.b), self.from_real(c.inv), self.from_real_com(c.c))
        return ("unsupported", repr(c))


def has_unsupported(t):
    if isinstance(t, tuple):
        return (len(t) > 0 and t[0] == "unsupported") or any(has_unsupported(x) for x in t)
    return False


# ------------------------------------------------------------------ reference semantics (harness)
class Stuck(Exception):
    pass


class OutOfFuel(Exception):
    pass


def ev(e, st):
    """Value of an expression: int, bool, or None when ill-sorted (bools are never ints here)."""
    k = e[0]
    if k == "var":
        return st.get(e[1], 0)
    if k == "int":
        return e[1]
    if k == "bool":
        return bool(e[1])
    if k == "un":
        a = ev(e[2], st)
        if e[1] == "neg":
            return -a if type(a) is int else None
        return (not a) if type(a) is bool else None
    if k == "bin":
        o = e[1]
        a, b = ev(e[2], st), ev(e[3], st)
        if a is None or b is None:
            return None
        if o in ("eq", "ne"):
            if type(a) is not type(b):
                return None
            return (a == b) if o == "eq" else (a != b)
        if o in ("add", "sub", "mul", "le", "lt", "ge", "gt"):
            if type(a) is not int or type(b) is not int:
                return None
            return {"add": a + b, "sub": a - b, "mul": a * b, "le": a <= b, "lt": a < b, "ge": a >= b, "gt": a > b}[o]
        if type(a) is not bool or type(b) is not bool:
            return None
        return {"and": a and b, "or": a or b, "imp": (not a) or b, "iff": a == b}[o]
    if k == "fn1":
        a = ev(e[2], st)
        if e[1] == "abs" and type(a) is int:
            return abs(a)
        return None
    if k == "fn2":
        a, b = ev(e[2], st), ev(e[3], st)
        if e[1] == "max" and type(a) is int and type(b) is int:
            return max(a, b)
        return None
    if k == "ite":
        c = ev(e[1], st)
        if type(c) is not bool:
            return None
        return ev(e[2], st) if c else ev(e[3], st)
    raise ValueError(e)


def run_ref(c, st, fuel, visited=None):
    """Reference interpreter.  fuel = [remaining steps] (mutable).  Returns the final state (new dict)."""
    fuel[0] -= 1
    if fuel[0] <= 0:
        raise OutOfFuel()
    if visited is not None:
        visited.append(dict(st))
    k = c[0]
    if k == "skip":
        return st
    if k == "assign":
        v = ev(c[2], st)
        if type(v) is not int:
            raise Stuck()
        if abs(v) > BIG:
            raise OutOfFuel()       # runaway values (x := x * x in a loop): treated like divergence
        st = dict(st)
        st[c[1]] = v
        return st
    if k == "seq":
        return run_ref(c[2], run_ref(c[1], st, fuel, visited), fuel, visited)
    if k == "cond":
        b = ev(c[1], st)
        if type(b) is not bool:
            raise Stuck()
        return run_ref(c[2] if b else c[3], st, fuel, visited)
    if k == "while":
        while True:
            b = ev(c[1], st)
            if type(b) is not bool:
                raise Stuck()
            if not b:
                if visited is not None:
                    visited.append(dict(st))
                return st
            st = run_ref(c[3], st, fuel, visited)
            fuel[0] -= 1
            if fuel[0] <= 0:
                raise OutOfFuel()
            if visited is not None:
                visited.append(dict(st))
    raise ValueError(c)


def vars_of(t, acc):
    if isinstance(t, tuple):
        if len(t) == 2 and t[0] == "var":
            acc.add(t[1])
        elif len(t) >= 2 and t[0] == "assign":
            acc.add(t[1])
            vars_of(t[2], acc)
        else:
            for x in t[1:]:
                vars_of(x, acc)
    return acc


def norm_negconst(e):
    """What the grammar can return for a printed expression: Const(-n) reads back as -Const(n)."""
    k = e[0]
    if k == "int" and e[1] < 0:
        return ("un", "neg", ("int", -e[1]))
    if k in ("var", "int", "bool"):
        return e
    return (e[0],) + tuple(norm_negconst(x) if isinstance(x, tuple) else x for x in e[1:])


def norm_negconst_com(c):
    k = c[0]
    if k == "skip":
        return c
    if k == "assign":
        return ("assign", c[1], norm_negconst(c[2]))
    if k == "seq":
        return ("seq", norm_negconst_com(c[1]), norm_negconst_com(c[2]))
    if k == "cond":
        return ("cond", norm_negconst(c[1]), norm_negconst_com(c[2]), norm_negconst_com(c[3]))
    return ("while", norm_negconst(c[1]), norm_negconst(c[2]), norm_negconst_com(c[3]))


class NotUnderstood(Exception):
    """The HOL reader of the harness met a term outside the fragment it knows (machinery, not a verdict)."""


def _state_read(t, svar):
    """A read of the state: `F k` with a numeral `k` and `F` the state variable `svar` under any number of
    updates `(F')(a := v)` with numeral `a`.  Returns ("cell", k), or ("term", v) for the update that is
    read, or None when `t` is not such a read."""
    if svar is None or not t.is_comb() or not t.arg.is_number():
        return None
    f, k = t.fun, int(t.arg.dest_number())
    while True:
        if f.is_var() and f.name == svar:
            return ("cell", k)
        if f.is_comb("fun_upd", 3) and f.args[1].is_number():
            if int(f.args[1].dest_number()) == k:
                return ("term", f.args[2])
            f = f.args[0]
            continue
        return None


def hol_eval(t, st, logic, svar=None):
    """Value (int / bool) of a HOL term of the int / nat + bool fragment in the state `st`
    (variable name -> value; with `svar`, `svar k` is looked up as st[k]).  Quantifiers over the
    state are not handled here (see hol_valid_at).  Raises NotUnderstood outside the fragment."""
    rd = _state_read(t, svar)
    if rd is not None:
        return st.get(rd[1], 0) if rd[0] == "cell" else hol_eval(rd[1], st, logic, svar)
    if t.is_var():
        return st.get(t.name, 0)
    if t.is_const("true"):
        return True
    if t.is_const("false"):
        return False
    if t.is_not():
        a = hol_eval(t.arg, st, logic, svar)
        return None if type(a) is not bool else (not a)
    if logic.is_if(t):
        c, a, b = t.args
        cv = hol_eval(c, st, logic, svar)
        if type(cv) is not bool:
            return None
        return hol_eval(a if cv else b, st, logic, svar)
    if t.is_comb("abs", 1):
        a = hol_eval(t.arg, st, logic, svar)
        return abs(a) if type(a) is int else None
    if t.is_comb("max", 2):
        a, b = (hol_eval(x, st, logic, svar) for x in t.args)
        return max(a, b) if type(a) is int and type(b) is int else None
    if t.is_uminus():
        a = hol_eval(t.arg, st, logic, svar)
        return -a if type(a) is int else None
    if t.is_number():
        return int(t.dest_number())
    if t.is_binop():
        a, b = hol_eval(t.arg1, st, logic, svar), hol_eval(t.arg, st, logic, svar)
        if a is None or b is None:
            return None
        if t.is_equals():
            return (a == b) if type(a) is type(b) else None
        if type(a) is bool and type(b) is bool:
            if t.is_conj():
                return a and b
            if t.is_disj():
                return a or b
            if t.is_implies():
                return (not a) or b
            raise NotUnderstood(str(t))
        if type(a) is int and type(b) is int:
            if t.is_plus():
                return a + b
            if t.is_minus():
                return max(a - b, 0) if svar is not None else a - b      # nat subtraction is truncated
            if t.is_times():
                return a * b
            if t.is_less_eq():
                return a <= b
            if t.is_less():
                return a < b
        raise NotUnderstood(str(t))
    raise NotUnderstood(str(t))


def hol_to_ast(t, logic, svar=None, names=None):
    """HOL term of the fragment -> the harness' tuple AST, in the normal form `hol_norm` gives to
    expressions (!= is ~(==), >= and > are flipped <= and <, <--> is ==).  `svar k` becomes the
    variable names[k].  Raises NotUnderstood outside the fragment."""
    def rec(t):
        rd = _state_read(t, svar)
        if rd is not None:
            if rd[0] == "term":
                return rec(rd[1])
            return ("var", names[rd[1]] if names and rd[1] in names else "cell%d" % rd[1])
        if t.is_var():
            return ("var", t.name)
        if t.is_const("true"):
            return ("bool", True)
        if t.is_const("false"):
            return ("bool", False)
        if t.is_not():
            return ("un", "not", rec(t.arg))
        if logic.is_if(t):
            c, a, b = t.args
            return ("ite", rec(c), rec(a), rec(b))
        if t.is_comb("abs", 1):
            return ("fn1", "abs", rec(t.arg))
        if t.is_comb("max", 2):
            return ("fn2", "max", rec(t.args[0]), rec(t.args[1]))
        if t.is_uminus():
            return ("un", "neg", rec(t.arg))
        if t.is_number():
            return ("int", int(t.dest_number()))
        if t.is_binop():
            a, b = rec(t.arg1), rec(t.arg)
            for test, op in ((t.is_equals, "eq"), (t.is_conj, "and"), (t.is_disj, "or"), (t.is_implies, "imp"), (t.is_plus, "add"),
                             (t.is_minus, "sub"), (t.is_times, "mul"), (t.is_less_eq, "le"), (t.is_less, "lt")):
                if test():
                    return ("bin", op, a, b)
        raise NotUnderstood(str(t))
    return rec(t)


def hol_norm(e):
    """The tuple AST `hol_to_ast(convert_hol(e))` would give for the expression `e`."""
    k = e[0]
    if k == "int":
        return ("un", "neg", ("int", -e[1])) if e[1] < 0 else e
    if k in ("var", "bool"):
        return e
    if k == "bin":
        a, b = hol_norm(e[2]), hol_norm(e[3])
        o = e[1]
        if o == "ne":
            return ("un", "not", ("bin", "eq", a, b))
        if o == "ge":
            return ("bin", "le", b, a)
        if o == "gt":
            return ("bin", "lt", b, a)
        if o == "iff":
            return ("bin", "eq", a, b)
        return ("bin", o, a, b)
    return (e[0],) + tuple(hol_norm(x) if isinstance(x, tuple) else x for x in e[1:])


# ------------------------------------------------------------------ generators
VARS = ["a", "b", "x", "n1", "_t"]


def gen_arith(rng, d, vs, neg_const=True):
    r = rng.random()
    if d <= 0 or r < 0.3:
        r2 = rng.random()
        if r2 < 0.6:
            return ("var", rng.choice(vs))
        if r2 < 0.93 or not neg_const:
            return ("int", rng.choice([0, 1, 1, 2, 3, 5]))
        return ("int", -rng.choice([1, 2, 3]))
    k = rng.random()
    if k < 0.7:
        return ("bin", rng.choice(ARITH), gen_arith(rng, d - 1, vs, neg_const), gen_arith(rng, d - 1, vs, neg_const))
    if k < 0.85:
        return ("un", "neg", gen_arith(rng, d - 1, vs, neg_const))
    if k < 0.93:
        return ("fn1", "abs", gen_arith(rng, d - 1, vs, neg_const))
    return ("fn2", "max", gen_arith(rng, d - 1, vs, neg_const), gen_arith(rng, d - 1, vs, neg_const))


def gen_atom(rng, vs, neg_const=True, ad=2):
    if rng.random() < 0.08:
        return TRUE
    return ("bin", rng.choice(REL), gen_arith(rng, rng.randint(0, ad), vs, neg_const), gen_arith(rng, rng.randint(0, ad), vs, neg_const))


def gen_cond(rng, d, vs, neg_const=True, ad=2):
    if d <= 0 or rng.random() < 0.3:
        return gen_atom(rng, vs, neg_const, ad)
    k = rng.random()
    if k < 0.6:
        return ("bin", rng.choice(["and", "and", "or", "imp"]), gen_cond(rng, d - 1, vs, neg_const, ad), gen_cond(rng, d - 1, vs, neg_const, ad))
    if k < 0.85:
        return ("un", "not", gen_cond(rng, d - 1, vs, neg_const, ad))
    return ("ite", gen_cond(rng, d - 1, vs, neg_const, ad), gen_cond(rng, d - 1, vs, neg_const, ad), gen_cond(rng, d - 1, vs, neg_const, ad))


def gen_com(rng, d, vs, loops=True, neg_const=True, inv=None):
    """Program of nesting depth <= d."""
    r = rng.random()
    if d <= 0 or r < 0.2:
        if rng.random() < 0.12:
            return ("skip",)
        return ("assign", rng.choice(vs), gen_arith(rng, rng.randint(0, 2), vs, neg_const))
    if r < 0.5:
        return ("seq", gen_com(rng, d - 1, vs, loops, neg_const, inv), gen_com(rng, d - 1, vs, loops, neg_const, inv))
    if r < 0.75 or not loops:
        return ("cond", gen_cond(rng, rng.randint(0, 1), vs, neg_const, 1), gen_com(rng, d - 1, vs, loops, neg_const, inv), gen_com(rng, d - 1, vs, loops, neg_const, inv))
    i = inv(rng) if inv else gen_cond(rng, rng.randint(0, 2), vs, neg_const, 1)
    return ("while", gen_cond(rng, rng.randint(0, 1), vs, neg_const, 1), i, gen_com(rng, d - 1, vs, loops, neg_const, inv))


def depth(c):
    k = c[0]
    if k in ("skip", "assign"):
        return 0
    if k == "seq":
        return 1 + max(depth(c[1]), depth(c[2]))
    if k == "cond":
        return 1 + max(depth(c[2]), depth(c[3]))
    return 1 + depth(c[3])


def has_loop(c):
    k = c[0]
    if k == "while":
        return True
    if k == "seq":
        return has_loop(c[1]) or has_loop(c[2])
    if k == "cond":
        return has_loop(c[2]) or has_loop(c[3])
    return False


def templates(rng):
    """Hand-written verified (or nearly verified) programs with random small perturbations."""
    V = lambda x: ("var", x)
    I = lambda n: ("int", n)
    B = lambda o, a, b: ("bin", o, a, b)
    out = []
    k = rng.choice([1, 1, 1, 2])
    # count up
    out.append((B("le", V("a"), V("b")),
                ("while", B("lt", V("a"), V("b")), B("le", V("a"), V("b")), ("assign", "a", B("add", V("a"), I(k)))),
                B("eq", V("a"), V("b"))))
    # multiplication by repeated addition (com_test)
    out.append((B("and", B("eq", V("a"), I(0)), B("eq", V("b"), I(0))),
                ("while", B("ne", V("a"), V("x")), B("eq", V("b"), B("mul", V("a"), V("n1"))),
                 ("seq", ("assign", "b", B("add", V("b"), V("n1"))), ("assign", "a", B("add", V("a"), I(rng.choice([1, 1, 2])))))),
                B("eq", V("b"), B("mul", V("x"), V("n1")))))
    # abs / max
    out.append((TRUE, ("cond", B("le", I(0), V("a")), ("assign", "x", V("a")), ("assign", "x", ("un", "neg", V("a")))),
                B("eq", V("x"), ("fn1", "abs", V("a")))))
    out.append((TRUE, ("cond", B("le", V("a"), V("b")), ("assign", "x", V("b")), ("assign", "x", V("a"))),
                B("eq", V("x"), ("fn2", "max", V("a"), V("b")))))
    # swap, with a perturbation
    out.append((B("and", B("eq", V("a"), I(1)), B("eq", V("b"), I(2))),
                ("seq", ("assign", "x", V("a")), ("seq", ("assign", "a", V("b")), ("assign", "b", V(rng.choice(["x", "x", "a"]))))),
                B("and", B("eq", V("a"), I(2)), B("eq", V("b"), I(1)))))
    # nested loops: x = a * b by increments
    out.append((B("and", B("le", I(0), V("a")), B("le", I(0), V("b"))),
                ("seq", ("assign", "x", I(0)), ("seq", ("assign", "n1", I(0)),
                 ("while", B("lt", V("n1"), V("a")),
                  B("and", B("le", V("n1"), V("a")), B("and", B("eq", V("x"), B("mul", V("n1"), V("b"))), B("le", I(0), V("b")))),
                  ("seq", ("assign", "_t", I(0)),
                   ("seq", ("while", B("lt", V("_t"), V("b")),
                            B("and", B("le", V("_t"), V("b")), B("and", B("eq", V("x"), B("add", B("mul", V("n1"), V("b")), V("_t"))), B("lt", V("n1"), V("a")))),
                            ("seq", ("assign", "x", B("add", V("x"), I(1))), ("assign", "_t", B("add", V("_t"), I(1))))),
                    ("assign", "n1", B("add", V("n1"), I(rng.choice([1, 1, 1, 2]))))))))),
                B("eq", V("x"), B("mul", V("a"), V("b")))))
    # linear search: two ways out of the loop, the postcondition only fits one of them (the VCs must not all hold)
    out.append((TRUE,
                ("seq", ("assign", "a", I(0)),
                 ("while", B("and", B("lt", V("a"), V("b")), B("ne", V("x"), V("a"))), B("le", I(0), V("a")), ("assign", "a", B("add", V("a"), I(1))))),
                rng.choice([B("eq", V("x"), V("a")), B("or", B("eq", V("x"), V("a")), B("le", V("b"), V("a")))])))
    # countdown with a wrong-able invariant
    out.append((B("le", I(0), V("a")),
                ("while", B("lt", I(0), V("a")), B("le", I(rng.choice([0, 0, 1])), V("a")), ("assign", "a", B("sub", V("a"), I(1)))),
                B("eq", V("a"), I(0))))
    return out


# ------------------------------------------------------------------ the VC stream
_VIOL_COUNT = {}


def viol(ctx, key, what, replay):
    """ctx.violation, with at most 8 written-out failing inputs per class of failure (the text
    before the first ':' of the key); further ones are only counted."""
    cls = key.split(":", 1)[0]
    _VIOL_COUNT[cls] = _VIOL_COUNT.get(cls, 0) + 1
    if _VIOL_COUNT[cls] > 8:
        ctx.count("violations-not-written-out:" + cls)
        return "capped"
    return ctx.violation(key, what, replay)


def classify_exc(e):
    return type(e).__name__


def real_parse_cond(impl, s):
    """cond_parser on a string: ("ok", real object) | ("err", exception class).  Implementation call only."""
    try:
        with time_limit(30):
            return ("ok", impl.parser2.cond_parser.parse(s))
    except Timeout:
        raise
    except Exception as ex:  # noqa
        return ("err", classify_exc(ex))


def vc_case(ctx, impl, logic, pre, c, post, label, lines, pending):
    """Run the implementation on one (pre, c, post) and keep what `get_lines` shows to the user: the VC
    strings and the VC HOL terms, in its order.  Queue the model request; run oracles (a) and (b)."""
    vs = sorted(vars_of(pre, set()) | vars_of(c, set()) | vars_of(post, set()))
    ctxt = {v: "int" for v in vs}
    key = sexp.dumps(["vcs", s_com(c), s_expr(pre), s_expr(post)])
    rec = {"key": key, "pre": pre, "com": c, "post": post, "label": label}
    try:
        with time_limit(60):
            cr = impl.to_real_com(c)
            cr.pre = [impl.to_real(pre)]
            cr.compute_wp(impl.to_real(post))
            lines_real = cr.get_lines(ctxt)
            vcs_str = [l['str'] for l in lines_real if l['ty'] == 'vc']
            vcs_hol = [l['prop'] for l in lines_real if l['ty'] == 'vc']
            also = cr.get_vcs(ctxt)
    except Timeout:
        raise
    except Exception as e:  # noqa
        ctx.count("vcs:impl-raise:" + classify_exc(e))
        viol(ctx, "vcs-raise:%s:%s" % (classify_exc(e), key), "compute_wp/get_lines raised %s: %s on %s" % (classify_exc(e), str(e)[:100], key),
             {"kind": "vcs", "pre": pre, "com": c, "post": post})
        return
    from kernel.term import Term
    if also != vcs_str or not all(isinstance(h, Term) for h in vcs_hol):
        viol(ctx, "vcs-lines-inconsistent:" + key, "get_vcs and the 'vc' lines of get_lines disagree, or a 'prop' is not a HOL term: %s / %s" % (also, vcs_str),
             {"kind": "vcs", "pre": pre, "com": c, "post": post})
        return
    # harness-side reading of the HOL terms (a mirror: an exception here is a machinery error)
    vcs_ast = [hol_to_ast(h, logic) for h in vcs_hol]
    rec.update(vcs_ast=vcs_ast, vcs_str=vcs_str)
    LEX_STRINGS.extend(vcs_str)
    NAMES_SEEN.update(vs)
    lines.append(key)
    pending.append(rec)
    nontriv = depth(c) >= 1 and len(vcs_str) >= 1
    ctx.case(("vcs", key), nontrivial=nontriv)
    ctx.count("vcs:%s:depth%d" % (label, depth(c)))
    # ---- oracle (b) on every VC line: the string shown, read back by the real parser, means what the HOL term means
    for a, st_, h in zip(vcs_ast, vcs_str, vcs_hol):
        check_shown_vc(ctx, impl, logic, a, st_, h, vs, rec)
    # ---- oracle (a)
    if len(vs) <= 4:
        grid = [dict(zip(vs, vals)) for vals in itertools.product(GRID, repeat=len(vs))]
        oracle_a(ctx, logic, rec, vs, grid, vcs_hol)


def small_grid(vs):
    return [dict(zip(vs, vals)) for vals in itertools.product(GRID if len(vs) <= 3 else (-2, 0, 1), repeat=len(vs))]


def check_shown_vc(ctx, impl, logic, hol_ast, s, hol, vs, rec):
    """One 'vc' line of get_lines: `s` (shown, re-entered by the user) against `hol` (what has to be proved)."""
    r = real_parse_cond(impl, s)
    replay = {"kind": "vcs", "pre": rec["pre"], "com": rec["com"], "post": rec["post"]}
    if r[0] != "ok":
        viol(ctx, "print-unparsable:%s" % s, "the VC shown as %r is rejected by cond_parser (%s)" % (s, r[1]), replay)
        return
    back = impl.from_real(r[1])
    if has_unsupported(back):
        ctx.broken("harness:from_real", "cannot read the parse of %r" % s)
        return
    ctx.count("pp:vc:%s" % ("identical" if hol_norm(back) == hol_ast else "different-tree"))
    for st in small_grid(vs):
        a, b = ev(back, st), hol_eval(hol, st, logic)
        if a != b:
            viol(ctx, "vc-shown-differs:%s" % s,
                 "a VC is shown as %r (parser2 reads it as a condition that is %s at %s) but the HOL term to prove for it is %s there"
                 % (s, a, st, b), dict(replay, state=st, shown=s))
            return


def oracle_a(ctx, logic, rec, vs, grid, vcs_hol, kind="vcs-unsound", replay=None, where=""):
    pre, c, post = rec["pre"], rec["com"], rec["post"]

    def vcs_hold_at(st):
        return all(hol_eval(h, st, logic) is True for h in vcs_hol)
    grid_ok = all(vcs_hold_at(st) for st in grid)
    ctx.count("oracle-a:vcs-hold-on-grid" if grid_ok else "oracle-a:some-vc-fails-on-grid")
    if not grid_ok:
        return
    nterm = 0
    for st in grid:
        if ev(pre, st) is not True:
            continue
        visited = []
        try:
            fin = run_ref(c, st, [3000], visited)
        except (OutOfFuel, Stuck):
            continue
        nterm += 1
        if ev(post, fin) is True:
            continue
        # Postcondition violated: the soundness proof uses the VCs only at visited states, so this is
        # a counterexample to soundness iff the VCs also hold at every visited state.
        if all(vcs_hold_at(v) for v in visited):
            viol(ctx, kind + ":" + rec["key"],
                 "%sall VCs %s hold on the grid and on every visited state, but from %s the program ends in %s where the postcondition is false"
                 % (where, rec["vcs_str"] if where else "", st, {k: fin.get(k, 0) for k in vs}),
                 replay or {"kind": "vcs", "pre": pre, "com": c, "post": post, "init": st, "final": fin, "vcs": rec["vcs_str"]})
            return
        ctx.count("oracle-a:vc-fails-off-grid")
    if nterm:
        ctx.count("oracle-a:nonvacuous")
        ctx.coverage["oracle_a_executions"] = ctx.coverage.get("oracle_a_executions", 0) + nterm


def check_print_parse(ctx, impl, logic, e, s, hol, vs, what):
    """Oracle (b) for a generated condition `e` whose implementation-printed form is `s` (HOL form `hol`, or None)."""
    r = real_parse_cond(impl, s)
    if r[0] != "ok":
        viol(ctx, "print-unparsable:%s" % s, "printed %s %r is rejected by cond_parser (%s)" % (what, s, r[1]),
             {"kind": "pp", "expr": e, "printed": s})
        return
    back = impl.from_real(r[1])
    ctx.count("pp:%s:%s" % (what, "identical" if back == norm_negconst(e) else "different-tree"))
    grid = small_grid(vs)
    if back != norm_negconst(e):
        for st in grid:
            if ev(back, st) != ev(e, st):
                viol(ctx, "print-parse-meaning:%s" % s,
                     "%s prints as %r, which parser2 reads as an expression with a different value at %s" % (what, s, st),
                     {"kind": "pp", "expr": e, "printed": s, "reparsed": back, "state": st})
                return
    if hol is not None:
        from kernel.term import Term
        if not isinstance(hol, Term):
            viol(ctx, "convert-hol-not-a-term:%s" % s, "convert_hol of %r returned a %s, not a HOL term" % (s, type(hol).__name__),
                 {"kind": "pp", "expr": e, "printed": s})
            return
        for st in grid:
            hv, evv = hol_eval(hol, st, logic), ev(e, st)
            if hv != evv:
                viol(ctx, "convert-hol-meaning:%s" % s, "convert_hol of %r denotes %s at %s, the expression %s" % (s, hv, st, evv),
                     {"kind": "pp", "expr": e, "printed": s, "state": st})
                return


def compare_vcs(ctx, out, pending):
    """Model against implementation on the observable result: the VCs as strings and as HOL terms.  The
    property does not fix an order, so both are compared as multisets."""
    ndis = 0
    for line, rec in zip(out, pending):
        x = sexp.loads(line)
        if x[4] != ["T", "T", "T", "T"]:
            # the decidable hypotheses of sem_adequate_ws / print_parse_* must cover what is generated and what compute_wp builds
            ctx.broken("hypotheses:c20:wf", "wsCom&okCom / okE pre / okE post / okE of all VCs = %s on %s" % (x[4], rec["key"]))
        ctx.count("wf-hypotheses-checked")
        m_vcs = sorted(repr(hol_norm(u_expr(v))) for v in x[2])
        m_strs = sorted(sexp.dec(t) for t in x[3])
        i_vcs, i_strs = sorted(repr(v) for v in rec["vcs_ast"]), sorted(rec["vcs_str"])
        if m_vcs != i_vcs or m_strs != i_strs:
            ndis += 1
            if ndis <= 3:
                ctx.broken("correspondence:c20:vcs", "%s differ on %s: impl=%s model=%s" % (
                    "VCs (HOL terms)" if m_vcs != i_vcs else "printed VCs", rec["key"], rec["vcs_str"], [sexp.dec(t) for t in x[3]]))
                ctx.coverage["disagreements_checked"] += 1
    return ndis


# ------------------------------------------------------------------ one Com object used more than once
def gen_spec(rng, impl, c, vs):
    """A (pre, post) for the program `c`: random; or the wp a FRESH object computes (possibly weakened to true /
    strengthened by an atom); or built from the invariant of a top-level loop."""
    post = gen_cond(rng, rng.randint(0, 2), vs, ad=1)
    r = rng.random()
    if r < 0.3:
        return gen_cond(rng, rng.randint(0, 1), vs, ad=1), post
    if c[0] == "while" and r < 0.6:
        inv, b = c[2], c[1]
        return inv, rng.choice([inv, ("bin", "and", inv, ("un", "not", b)), ("bin", "or", inv, gen_atom(rng, vs))])
    try:
        wp_real = impl.to_real_com(c).compute_wp(impl.to_real(post))
    except Exception:  # noqa  (reported by the fresh-object streams)
        return TRUE, post
    wp = impl.from_real(wp_real)
    if has_unsupported(wp):
        return TRUE, post
    r2 = rng.random()
    if r2 < 0.5:
        return wp, post
    if r2 < 0.75:
        return TRUE, post
    return ("bin", "and", gen_atom(rng, vs), wp), post


def analyse(impl, cr, pre, post, ctxt):
    """The documented protocol on the object `cr`: set the precondition, compute_wp, read the VC lines."""
    cr.pre = [impl.to_real(pre)]
    cr.compute_wp(impl.to_real(post))
    lines_real = cr.get_lines(ctxt)
    also = cr.get_vcs(ctxt)
    strs = [l['str'] for l in lines_real if l['ty'] == 'vc']
    return strs, [l['prop'] for l in lines_real if l['ty'] == 'vc'], also


def history_case(ctx, impl, logic, c, specs, ops, label="history"):
    """One Com object, a sequence of operations.  ops: ("print", k) | ("vcs", k) | ("lines", k) with k the index of
    the variable context (0: the program's variables, 1: one more variable), ("analyse", i) with i a spec index.
    After every analysis the VCs are judged against the spec that was asked for, and against a fresh object."""
    vs = sorted(vars_of(c, set()).union(*[vars_of(p, set()) | vars_of(q, set()) for p, q in specs]))
    ctxts = [{v: "int" for v in vs}, dict({v: "int" for v in vs}, zz9="int")]
    key = sexp.dumps(["history", s_com(c), [[s_expr(p), s_expr(q)] for p, q in specs], [[o[0], o[1]] for o in ops]])
    replay = {"kind": "history", "com": c, "specs": [[p, q] for p, q in specs], "ops": [list(o) for o in ops]}
    try:
        with time_limit(60):
            cr = impl.to_real_com(c)
    except Timeout:
        raise
    except Exception as e:  # noqa
        ctx.count("history:build-raise:" + classify_exc(e))
        return
    ctx.case(("history", key), nontrivial=len([o for o in ops if o[0] == "analyse"]) >= 2 or ops[0][0] != "analyse")
    nan = 0
    for step, (op, k) in enumerate(ops):
        try:
            with time_limit(60):
                if op == "print":
                    cr.print_com(ctxts[k])
                    continue
                if op == "vcs":
                    cr.get_vcs(ctxts[k])
                    continue
                if op == "lines":
                    cr.get_lines(ctxts[k])
                    continue
                pre, post = specs[k]
                kc = 0 if nan % 2 == 0 else 1      # alternate the variable context between analyses
                strs, hols, also = analyse(impl, cr, pre, post, ctxts[kc])
                fr = impl.to_real_com(c)
                f_strs, f_hols, _ = analyse(impl, fr, pre, post, ctxts[kc])
        except Timeout:
            raise
        except Exception as e:  # noqa
            ctx.count("history:impl-raise:" + classify_exc(e))
            viol(ctx, "history-raise:%s:%s" % (classify_exc(e), key), "operation %d (%s) of a history on one Com object raised %s: %s" % (step, op, classify_exc(e), str(e)[:100]), replay)
            return
        nan += 1
        ctx.count("history:analysis-%d" % min(nan, 3))
        from kernel.term import Term
        if also != strs or not all(isinstance(h, Term) for h in hols):
            viol(ctx, "history-lines-inconsistent:" + key, "after operation %d get_vcs %s and the 'vc' lines %s disagree" % (step, also, strs), replay)
            return
        # (i) the VCs returned for THIS spec, judged by execution
        if len(vs) <= 4:
            grid = [dict(zip(vs, vals)) for vals in itertools.product(GRID if len(vs) <= 3 else (-2, 0, 1), repeat=len(vs))]
            rec = {"key": "%s@%d" % (key, step), "pre": pre, "com": c, "post": post, "vcs_str": strs}
            oracle_a(ctx, logic, rec, vs, grid, hols, kind="history-vcs-unsound", replay=dict(replay, step=step),
                     where="analysis no. %d on one Com object (after: %s) for {%s} .. {%s}: " % (
                         nan, " ".join("%s%d" % (o[0], o[1]) for o in ops[:step]) or "nothing", impl.to_real(pre), impl.to_real(post)))
            # (ii) nothing a fresh object would ask for may be missing: every VC of the fresh object is among the reused
            # object's VCs, or at least holds wherever all of those hold (extra valid VCs on re-analysis are tolerated)
            have = set(strs)
            missing = [(fs, fh) for fs, fh in zip(f_strs, f_hols) if fs not in have]
            if not missing:
                continue
            ctx.count("history:fresh-vc-not-literally-returned", len(missing))
            if not all(hol_eval(h, st, logic) is True for st in grid for h in hols):
                continue                      # the returned VCs are not valid anyway: nothing is claimed for this spec
            for fs, fh in missing:
                for st in grid:
                    if hol_eval(fh, st, logic) is True:
                        continue
                    # a state where the fresh object's VC fails: the returned VCs are valid on the grid; they may legitimately
                    # rule this state out further along the run (a VC relating two intermediate assertions): look there too
                    visited = []
                    try:
                        run_ref(c, st, [3000], visited)
                    except (OutOfFuel, Stuck):
                        pass
                    if all(hol_eval(h, v, logic) is True for v in visited for h in hols):
                        viol(ctx, "history-vc-missing:%s@%d" % (key, step),
                             "analysis no. %d on one Com object (after: %s) for {%s} .. {%s} returns the VCs %s, all true on the grid and along "
                             "the run from %s; a fresh object also returns %r, which is false at that state" % (
                                 nan, " ".join("%s%d" % (o[0], o[1]) for o in ops[:step]) or "nothing", impl.to_real(pre), impl.to_real(post), strs, st, fs),
                             dict(replay, step=step, state=st))
                        return


def history_trace_case(ctx, impl, c, mops, lines, pending):
    """The same kind of history at the granularity of the Lean model (`runOps` / `vcsTrace`): on ONE real object do
    `obj.pre = [p]` / `obj.compute_wp(q)` / `get_vcs` / `print_com` in the given order -- including orders the
    documented protocol does not use (compute_wp without setting pre again, pre set after the analysis) -- and record
    what get_vcs returns after every operation."""
    vs = set(vars_of(c, set()))
    for o in mops:
        if len(o) > 1:
            vs |= vars_of(o[1], set())
    ctxt = {v: "int" for v in sorted(vs)}
    try:
        with time_limit(60):
            cr = impl.to_real_com(c)
            obs = []
            for o in mops:
                if o[0] == "setpre":
                    cr.pre = [impl.to_real(o[1])]
                elif o[0] == "wp":
                    cr.compute_wp(impl.to_real(o[1]))
                elif o[0] == "vcs":
                    cr.get_vcs(ctxt)
                else:
                    cr.print_com(ctxt)
                obs.append(list(cr.get_vcs(ctxt)))
    except Timeout:
        raise
    except Exception as e:  # noqa  (raises are reported by history_case / the fresh-object streams)
        ctx.count("history-trace:impl-raise:" + classify_exc(e))
        return
    key = sexp.dumps(["hist", s_com(c), [[o[0]] + ([s_expr(o[1])] if len(o) > 1 else []) for o in mops]])
    ctx.case(("history-trace", key), nontrivial=len([o for o in mops if o[0] == "wp"]) >= 2)
    ctx.count("history-trace:%d-wp" % min(3, len([o for o in mops if o[0] == "wp"])))
    lines.append(key)
    pending.append({"key": key, "obs": obs})


def history_trace_compare(ctx, lines, pending):
    out = ctx.lean_driver(EXE, lines) if lines else []
    if out is None or len(out) != len(lines):
        ctx.broken("correspondence:c20:driver", "model driver unavailable (history trace stream)")
        return
    ndis = 0
    for line, rec in zip(out, pending):
        if line == "bad-op":
            ctx.broken("correspondence:c20:history-trace", "model rejects %s" % rec["key"][:300])
            continue
        m = [sorted(sexp.dec(t) for t in step) for step in sexp.loads(line)]
        i_ = [sorted(step) for step in rec["obs"]]
        if m != i_:
            ndis += 1
            if ndis <= 3:
                k = next((j for j in range(min(len(m), len(i_))) if m[j] != i_[j]), -1)
                ctx.broken("correspondence:c20:history-trace", "get_vcs after operation %d of the history %s: impl=%s model=%s" % (
                    k, rec["key"][:400], i_[k] if k >= 0 else i_, m[k] if k >= 0 else m))
                ctx.coverage["disagreements_checked"] += 1
    ctx.count("history-trace:compared", len(lines))


def model_ops(rng, specs, ops):
    """ops of history_case -> operations of the model; an analysis is `pre = [p]; compute_wp(q)` (70%), compute_wp alone
    (20%: pre keeps what the earlier analyses left there) or compute_wp followed by `pre = [p]` (10%)."""
    mops = []
    for op, k in ops:
        if op != "analyse":
            mops.append(("print",) if op == "print" else ("vcs",))
            continue
        p, q = specs[k]
        r = rng.random()
        mops += [("setpre", p), ("wp", q)] if r < 0.7 else [("wp", q)] if r < 0.9 else [("wp", q), ("setpre", p)]
    return mops


def history_stage(ctx, impl, logic):
    rng = ctx.rng("history")
    rng_t = ctx.rng("history-trace")
    t_lines, t_pending = [], []
    V, I = (lambda x: ("var", x)), (lambda k: ("int", k))
    B = lambda o, a, b: ("bin", o, a, b)
    loop = ("while", B("lt", I(0), V("a")), B("le", I(0), V("a")), ("assign", "a", B("sub", V("a"), I(2))))
    inc = ("assign", "a", B("add", V("a"), I(1)))
    fixed = [(loop, [(B("le", I(0), V("a")), B("eq", V("a"), I(0)))], [("print", 0), ("analyse", 0)]),
             (loop, [(B("le", I(0), V("a")), B("eq", V("a"), I(0)))], [("analyse", 0), ("analyse", 0)]),
             (inc, [(B("le", I(0), V("a")), B("le", I(1), V("a"))), (TRUE, B("le", I(2), V("a")))], [("analyse", 0), ("analyse", 1)]),
             (inc, [(B("le", I(0), V("a")), B("le", I(1), V("a"))), (TRUE, B("le", I(2), V("a")))], [("vcs", 0), ("analyse", 1), ("print", 1), ("analyse", 0)])]
    for c, specs, ops in fixed:
        history_case(ctx, impl, logic, c, specs, ops)
        history_trace_case(ctx, impl, c, model_ops(rng_t, specs, ops), t_lines, t_pending)
    # the witnesses of history_set_pre_after_wp_counterexample and history_reanalysis_incomplete, on the real code
    history_trace_case(ctx, impl, ("skip",), [("wp", B("eq", V("a"), I(0))), ("setpre", TRUE), ("vcs",)], t_lines, t_pending)
    history_trace_case(ctx, impl, ("seq", ("skip",), inc), [("setpre", B("eq", V("a"), I(1))), ("wp", B("eq", V("a"), I(1))),
                                                           ("setpre", B("eq", V("a"), I(1))), ("wp", B("eq", V("a"), I(2)))], t_lines, t_pending)
    for _ in range(ctx.scale(150, 2500)):
        vs = VARS[:rng.choice([1, 2, 2, 3])]
        c = gen_com(rng, rng.randint(0, 3), vs, loops=rng.random() < 0.5, inv=None)
        specs = [gen_spec(rng, impl, c, vs) for _ in range(rng.choice([1, 2, 2, 3]))]
        ops = []
        if rng.random() < 0.45:
            ops.append((rng.choice(["print", "vcs", "lines"]), rng.choice([0, 0, 1])))
        for i in range(rng.choice([1, 2, 2, 3])):
            ops.append(("analyse", rng.randrange(len(specs))))
            if rng.random() < 0.35:
                ops.append((rng.choice(["print", "vcs", "lines"]), rng.choice([0, 1])))
        history_case(ctx, impl, logic, c, specs, ops)
        history_trace_case(ctx, impl, c, model_ops(rng_t, specs, ops), t_lines, t_pending)
    history_trace_compare(ctx, t_lines, t_pending)


def vcs_stage(ctx, impl, logic):
    rng = ctx.rng("vcs")
    lines, pending = [], []
    vs3 = VARS[:3]
    n = ctx.scale(260, 1800)
    # F1: everything random (mostly failing VCs; exercises the lists' shape)
    for _ in range(n):
        vs = VARS[:rng.choice([1, 2, 2, 3, 3, 4])]
        c = gen_com(rng, rng.randint(0, 4), vs)
        vc_case(ctx, impl, logic, gen_cond(rng, rng.randint(0, 2), vs), c, gen_cond(rng, rng.randint(0, 2), vs), "random", lines, pending)
    # F2: precondition = the weakest precondition the implementation itself computes (VCs hold trivially
    #     for loop-free programs; execution then judges the wp)
    for _ in range(n):
        vs = VARS[:rng.choice([1, 2, 2, 3])]
        c = gen_com(rng, rng.randint(1, 4), vs, loops=rng.random() < 0.25, inv=lambda r: TRUE)
        post = gen_cond(rng, rng.randint(0, 2), vs, ad=1)
        try:
            wp_real = impl.to_real_com(c).compute_wp(impl.to_real(post))
        except Exception:  # noqa  (the implementation fails on this program: vc_case reports it for the cases it is given)
            ctx.count("vcs:pre=wp:impl-raise")
            continue
        wp = impl.from_real(wp_real)
        if has_unsupported(wp):
            ctx.broken("harness:from_real", "cannot read the weakest precondition %r" % (wp,))
            continue
        pre = wp if rng.random() < 0.7 else ("bin", "and", gen_atom(rng, vs), wp)
        vc_case(ctx, impl, logic, pre, c, post, "pre=wp", lines, pending)
    # F3: loops whose precondition is the invariant and whose postcondition follows from invariant & ~guard
    for _ in range(n):
        vs = VARS[:rng.choice([1, 2, 2, 3])]
        inv = gen_cond(rng, rng.randint(0, 1), vs, ad=1)
        b = gen_atom(rng, vs, ad=1)
        if rng.random() < 0.45:     # compound guards: the exit condition is the negation of a conjunction / disjunction
            b = ("bin", rng.choice(["and", "and", "or"]), b, gen_atom(rng, vs, ad=1))
            if rng.random() < 0.3:
                b = ("bin", rng.choice(["and", "or"]), gen_atom(rng, vs, ad=0), b)
        body = gen_com(rng, rng.randint(0, 2), vs, loops=rng.random() < 0.2, inv=lambda r: rng.choice([TRUE, inv]))
        post = rng.choice([inv, ("bin", "and", inv, ("un", "not", b)), ("bin", "or", inv, gen_atom(rng, vs))])
        c = ("while", b, inv, body)
        pre = inv
        r = rng.random()
        if r < 0.3:
            x = rng.choice(vs)
            e = gen_arith(rng, 1, vs)
            c = ("seq", ("assign", x, e), c)
            pre = TRUE if rng.random() < 0.5 else gen_atom(rng, vs)
        elif r < 0.5:
            c = ("seq", c, ("assign", rng.choice(vs), gen_arith(rng, 1, vs)))
        vc_case(ctx, impl, logic, pre, c, post, "loop", lines, pending)
    # F4: templates
    for _ in range(ctx.scale(6, 60)):
        for pre, c, post in templates(rng):
            vc_case(ctx, impl, logic, pre, c, post, "template", lines, pending)
    for rec in pending[:2]:
        ctx.sample({"pre": rec["pre"], "com": rec["com"], "post": rec["post"], "vcs": rec["vcs_str"]})
    out = ctx.lean_driver(EXE, lines) if lines else []
    if out is None or len(out) != len(lines):
        ctx.broken("correspondence:c20:driver", "model driver unavailable or answered %s lines for %d requests" % (None if out is None else len(out), len(lines)))
        return
    compare_vcs(ctx, out, pending)


# ------------------------------------------------------------------ printer / parser stream
TOKS = ["a", "b", "x1", "0", "1", "12", "(", ")", ",", "+", "-", "*", "==", "!=", "<=", "<", "~", "&", "|", "-->", "true", "if", "then", "else",
        "abs", "max", "abs(", "max("]
CTOKS = TOKS + ["skip", ":=", ";", "{", "}", "[", "]", "while", "while (", "if ("]


def perturb(rng, s, toks):
    """Token-level mutations of a valid string (kept whitespace-separated so that the lexers agree)."""
    parts = re.findall(r"[A-Za-z_][A-Za-z_0-9]*|[0-9]+|-->|==|!=|<=|:=|\S", s)
    for _ in range(rng.choice([1, 1, 1, 2, 3])):
        if not parts:
            break
        i = rng.randrange(len(parts))
        r = rng.random()
        if r < 0.35:
            del parts[i]
        elif r < 0.7:
            parts.insert(i, rng.choice(toks))
        elif r < 0.85:
            parts[i] = rng.choice(toks)
        else:
            j = rng.randrange(len(parts))
            parts[i], parts[j] = parts[j], parts[i]
    return " ".join(parts)


def parse_real(impl, s, com=False):
    try:
        with time_limit(30):
            r = (impl.parser2.com_parser if com else impl.parser2.cond_parser).parse(s)
    except Timeout:
        raise
    except NotImplementedError:
        return ("unsupported",)
    except Exception as e:  # noqa
        return ("err", classify_exc(e))
    # reading the result is harness code: outside the try
    t = impl.from_real_com(r) if com else impl.from_real(r)
    if has_unsupported(t):
        return ("unsupported",)
    if vars_of(t, set()) & KEYWORDS:
        # Lark's contextual lexer reads a keyword as an identifier where the keyword cannot occur;
        # such names are outside the model's domain (identifiers that are not keywords)
        return ("unsupported",)
    return ("ok", t)


def model_parse_result(line, com=False):
    if line == "err":
        return ("err",)
    x = sexp.loads(line)
    if x[0] == "ok":
        return ("ok", u_com(x[1]) if com else u_expr(x[1]))
    return ("?", line)


LEX_STRINGS = []      # every string the implementation printed in this run, and the perturbed ones


def real_lex(impl, text):
    """Lark's standard lexer over all terminals of parser2's grammar: ("ok", [(kind, value) ...]) | ("err",)."""
    try:
        with time_limit(30):
            toks = list(impl.parser2.com_parser.lex(text))
    except Timeout:
        raise
    except Exception:  # noqa  (UnexpectedCharacters: no terminal matches)
        return ("err",)
    out = []
    for t in toks:
        if t.type == "CNAME":
            out.append(("id", str(t)))
        elif t.type == "INT":
            out.append(("num", int(str(t))))
        else:
            out.append(("sym", str(t)))
    return ("ok", out)


def model_lex_result(line):
    if line == "err":
        return ("err",)
    x = sexp.loads(line)
    out = []
    for t in x[1]:
        out.append((t[0], int(t[1]) if t[0] == "num" else sexp.dec(t[1])))
    return ("ok", out)


def lexer_stage(ctx, impl):
    """The model lexer against the real Lark lexer: token lists of every printed string (conditions, VCs,
    programs) and of token- and character-perturbed strings; nameOK of every generated name."""
    rng = ctx.rng("lex")
    strings = list(dict.fromkeys(LEX_STRINGS))
    hand = ["a-->b", "a- ->b", "a--b", "a---b", "a-- >b", "a<=b", "a< =b", "a<b", "a==b", "a= =b", "a=b", "a!=b", "a!b", "x:=1", "x:1", "x: =1",
            "truex true iffy if thenx then elsex else skipx skip whilex while forallx forall", "a1 _a a_1 1a 007 0 12x", "a\tb\nc\r\x0cd",
            "a.b[c]{d};e,f", "a >= b", "a > b", "a <--> b", "#", "a ? b", "", "   ", "~~a", "((", "a&|b", "if(a)then", "x1:=-1;-->", "A_B9 == zZ"]
    chars = list("abx_19 ()-=<>!&|~:;,+*{}[].\n\t") + ["-->", "==", "<=", "true", "if"]
    for st in strings[:ctx.scale(400, 4000)]:
        cs = list(st)
        for _ in range(rng.choice([1, 1, 2])):
            i = rng.randrange(len(cs) + 1)
            r = rng.random()
            if r < 0.4 and cs:
                del cs[min(i, len(cs) - 1)]
            elif r < 0.8:
                cs.insert(i, rng.choice(chars))
            elif cs:
                cs[min(i, len(cs) - 1)] = rng.choice(chars)
        hand.append("".join(cs))
    allstr = strings + hand
    out = ctx.lean_driver(EXE, [sexp.dumps(["lex", sexp.enc(t)]) for t in allstr])
    if out is None or len(out) != len(allstr):
        ctx.broken("correspondence:c20:driver", "model driver unavailable (lexer stream)")
        return
    ndis = 0
    for t, line in zip(allstr, out):
        r, m = real_lex(impl, t), model_lex_result(line)
        ctx.case(("lex", t), nontrivial=len(t) > 3)
        ctx.count("lex:%s" % r[0])
        if r != m:
            ndis += 1
            if ndis <= 3:
                ctx.broken("correspondence:c20:lex", "string %r: Lark lexer %s, model %s" % (t, r, m))
                ctx.coverage["disagreements_checked"] += 1
    # the identifier hypothesis of lex_print / print_parse_sem, on every name the generators use
    names = sorted(set(VARS) | {"a", "b", "c", "d", "x", "x1", "n1", "_t"} | set(NAMES_SEEN))
    outn = ctx.lean_driver(EXE, [sexp.dumps(["nameok", sexp.enc(v)]) for v in names])
    if outn is None or len(outn) != len(names):
        ctx.broken("correspondence:c20:driver", "model driver unavailable (nameok)")
        return
    bad = [v for v, l in zip(names, outn) if l != "T"]
    ctx.count("nameOK (hypothesis of lex_print / print_parse_sem)", len(names) - len(bad))
    if bad:
        ctx.broken("hypotheses:c20:names", "generated variable names outside nameOK: %s" % bad)


NAMES_SEEN = set()


def pp_stage(ctx, impl, logic):
    rng = ctx.rng("pp")
    n = ctx.scale(1500, 15000)
    conds = []
    for i in range(n):
        vs = ["a", "b", "x1"]
        r = rng.random()
        if r < 0.25:
            e = ("bin", rng.choice(REL), gen_arith(rng, rng.randint(1, 4), vs), gen_arith(rng, rng.randint(0, 2), vs))
        else:
            e = gen_cond(rng, rng.randint(1, 4), vs)
        conds.append(e)
    # systematic small shapes: every operator under every operator position
    ops_a = [lambda x, y: ("bin", "add", x, y), lambda x, y: ("bin", "sub", x, y), lambda x, y: ("bin", "mul", x, y),
             lambda x, y: ("un", "neg", x), lambda x, y: ("fn2", "max", x, y), lambda x, y: ("fn1", "abs", x)]
    A, B, Cc = ("var", "a"), ("var", "b"), ("int", 2)
    leaves = [A, ("int", -1), Cc]
    for f in ops_a:
        for g in ops_a:
            for h in ops_a:
                conds.append(("bin", "eq", f(g(A, B), h(Cc, ("int", -1))), ("int", 0)))
                conds.append(("bin", "le", ("int", 0), f(leaves[1], g(h(A, B), Cc))))
    p, q, r_ = ("bin", "eq", A, B), ("bin", "lt", A, Cc), TRUE
    ops_c = [lambda x, y, z: ("bin", "and", x, y), lambda x, y, z: ("bin", "or", x, y), lambda x, y, z: ("bin", "imp", x, y),
             lambda x, y, z: ("un", "not", x), lambda x, y, z: ("ite", x, y, z)]
    for f in ops_c:
        for g in ops_c:
            for h in ops_c:
                conds.append(f(g(p, q, r_), h(q, r_, p), g(r_, p, q)))
                conds.append(f(p, g(q, h(p, q, r_), r_), h(g(p, q, r_), q, p)))
    lines, strs = [], []
    for e in conds:
        try:
            s = str(impl.to_real(e))
        except Exception as ex:  # noqa
            viol(ctx, "print-raise:%s" % sexp.dumps(s_expr(e)), "__str__ raised %s" % classify_exc(ex), {"kind": "pp", "expr": e})
            s = None
        strs.append(s)
        if s is not None:
            LEX_STRINGS.append(s)
            NAMES_SEEN.update(vars_of(e, set()))
        lines.append(sexp.dumps(["pp", s_expr(e)]))
        lines.append(sexp.dumps(["parsecond", sexp.enc(s if s is not None else "?")]))
        lines.append(sexp.dumps(["lexpp", s_expr(e)]))
        lines.append(sexp.dumps(["wf", s_expr(e)]))
        ctx.case(("pp", s), nontrivial=e[0] != "bool")
    out = ctx.lean_driver(EXE, lines)
    if out is None or len(out) != len(lines):
        ctx.broken("correspondence:c20:driver", "model driver unavailable (pp stream)")
        out = None
    else:
        # the token-level printer of the theorems is the lexed string-level printer
        bad = [conds[i] for i in range(len(conds)) if out[4 * i + 2] != "T"]
        ctx.count("lex(pp e) == toks e", len(conds) - len(bad))
        if bad:
            ctx.broken("correspondence:c20:toks", "lex (pp e) differs from toks e for %s" % sexp.dumps(s_expr(bad[0])))
        notwf = [conds[i] for i in range(len(conds)) if sexp.loads(out[4 * i + 3])[0] != "T"]
        ctx.count("wfC e (hypothesis of print_parse_*)", len(conds) - len(notwf))
        if notwf:
            ctx.broken("hypotheses:c20:wf", "a generated condition is outside wfC: %s" % sexp.dumps(s_expr(notwf[0])))
        out = [x for i, x in enumerate(out) if i % 4 < 2]
    ndis = 0
    for i, (e, s) in enumerate(zip(conds, strs)):
        if s is None:
            continue
        vs = sorted(vars_of(e, set()))
        try:
            hol = impl.to_real(e).convert_hol({v: "int" for v in vs})
        except Exception:  # noqa
            hol = None
        check_print_parse(ctx, impl, logic, e, s, hol, vs, "cond")
        if out is not None:
            m_s = sexp.dec(out[2 * i])
            m_p = model_parse_result(out[2 * i + 1])
            r_p = parse_real(impl, s)
            if m_s != s or (r_p[0] == "ok") != (m_p[0] == "ok") or (r_p[0] == "ok" and r_p[1] != m_p[1]):
                ndis += 1
                if ndis <= 3:
                    ctx.broken("correspondence:c20:pp", "expr=%s impl prints %r reads %s; model prints %r reads %s" % (sexp.dumps(s_expr(e)), s, r_p, m_s, m_p))
                    ctx.coverage["disagreements_checked"] += 1
    # ---- the parser on perturbed / hand-written strings (accept/reject and tree must agree)
    hand = ["a - b - c == 0", "a * b + c == 0", "- a + b == 0", "~a == b & c == d", "~(a == b & c == d)", "(a == b --> c == d) --> e == f",
            "((a)) == b", "((a == b))", "(a == b) == c", "~~true", "~ true", "if a == b then c == d else e == f & g == h", "abs(a,b) == c",
            "foo(a) == c", "max(a) == 1", "a == 007", "true == true", "if a then b else c", "a == b == c", "a + (b == c) == d", "true", "false",
            "~ if a==b then c==d else e==f & g == h", "a == b & if a==b then c==d else e==f | g == h", "", "(", "a ==", "a - -b == 0", "a == --1",
            "a -- > b", "a == b-->c == d", "a<b", "a<=b&b<=c|~a!=c", "(true)", "~(true)", "( a ) + ( b ) * ( c ) < - ( d )"]
    pstrs = list(hand)
    for s in strs[:ctx.scale(600, 6000)]:
        if s is not None:
            pstrs.append(perturb(rng, s, TOKS))
    lines = [sexp.dumps(["parsecond", sexp.enc(s)]) for s in pstrs]
    out2 = ctx.lean_driver(EXE, lines)
    if out2 is None or len(out2) != len(lines):
        ctx.broken("correspondence:c20:driver", "model driver unavailable (parse stream)")
        return
    ndis = 0
    parsed = []
    for s, line in zip(pstrs, out2):
        r_p, m_p = parse_real(impl, s), model_parse_result(line)
        ctx.case(("parse", s), nontrivial=True)
        ctx.count("parse:%s" % r_p[0])
        if r_p[0] == "unsupported":
            continue
        if r_p[0] == "ok":
            parsed.append(r_p[1])
        if (r_p[0] == "ok") != (m_p[0] == "ok") or (r_p[0] == "ok" and r_p[1] != m_p[1]):
            ndis += 1
            if ndis <= 3:
                ctx.broken("correspondence:c20:parse", "string %r: impl %s, model %s" % (s, r_p, m_p))
                ctx.coverage["disagreements_checked"] += 1
    # whatever the real parser returns is in the assertion language of the theorems (wfC)
    out3 = ctx.lean_driver(EXE, [sexp.dumps(["wf", s_expr(e)]) for e in parsed]) if parsed else []
    if out3 is None or len(out3) != len(parsed):
        ctx.broken("correspondence:c20:driver", "model driver unavailable (wf of parser results)")
        return
    notwf = [e for e, l in zip(parsed, out3) if sexp.loads(l)[0] != "T"]
    ctx.count("wfC of cond_parser results", len(parsed) - len(notwf))
    if notwf:
        ctx.broken("hypotheses:c20:wf", "cond_parser returned a condition outside wfC: %s" % sexp.dumps(s_expr(notwf[0])))


def to_printable_shape(c):
    """Re-arrange a program into the shape parser2 returns: statements of a block in a right-nested
    sequence, a conditional only as the last statement of its block (others are moved to the end)."""
    def stmts(x):
        return stmts(x[1]) + stmts(x[2]) if x[0] == "seq" else [x]

    def fix(x):
        if x[0] == "cond":
            return ("cond", x[1], to_printable_shape(x[2]), to_printable_shape(x[3]))
        if x[0] == "while":
            return ("while", x[1], x[2], to_printable_shape(x[3]))
        return x
    ss = [fix(x) for x in stmts(c)]
    conds = [x for x in ss if x[0] == "cond"]
    ss = [x for x in ss if x[0] != "cond"] + conds[:1]
    out = ss[-1]
    for x in reversed(ss[:-1]):
        out = ("seq", x, out)
    return out


def com_pp_stage(ctx, impl):
    """print_com -> com_parser of programs: model printer/parser against the real ones; meaning
    preserved (reference interpreter on a few states)."""
    rng = ctx.rng("compp")
    n = ctx.scale(300, 4000)
    coms = [gen_com(rng, rng.randint(0, 4), VARS[:3]) for _ in range(n)]
    # half of them in the shape print_com can express (`;` nested to the right, no conditional before a `;`)
    coms = [to_printable_shape(c) if i % 2 else c for i, c in enumerate(coms)]
    lines, texts = [], []
    for c in coms:
        vs = sorted(vars_of(c, set()))
        try:
            text = "\n".join(impl.to_real_com(c).print_com({v: "int" for v in vs}))
        except Exception as ex:  # noqa
            viol(ctx, "print-com-raise:%s" % sexp.dumps(s_com(c)), "print_com raised %s" % classify_exc(ex), {"kind": "compp", "com": c})
            text = None
        texts.append(text)
        if text is not None:
            LEX_STRINGS.append(text)
        lines.append(sexp.dumps(["ppcom", s_com(c)]))
        lines.append(sexp.dumps(["parsecom", sexp.enc(text or "?")]))
    extra = ["skip", "x := 1; y := 2; z := 3", "if (a == b) then x := 1 else x := 2; y := 3", "while (a == b) {[true] x := 1}; y := 2",
             "while (a == b) { x := 1 }", "x := 1;", "if (a==b) then x := 1; y := 2 else skip", "x:=y", "x := - 1", "skip := 1", "x := true",
             "if a == b then skip else skip", "while (a != b) {[a <= b] a := a + 1; b := b}", "if ((a) == b) then skip else skip"]
    for t in texts[:ctx.scale(150, 1500)]:
        if t is not None:
            extra.append(perturb(rng, t, CTOKS))
    for s in extra:
        lines.append(sexp.dumps(["parsecom", sexp.enc(s)]))
    out = ctx.lean_driver(EXE, lines)
    if out is None or len(out) != len(lines):
        ctx.broken("correspondence:c20:driver", "model driver unavailable (com stream)")
        return
    ndis = 0

    def disagree(msg):
        nonlocal ndis
        ndis += 1
        if ndis <= 3:
            ctx.broken("correspondence:c20:com-pp", msg)
            ctx.coverage["disagreements_checked"] += 1
    for i, (c, text) in enumerate(zip(coms, texts)):
        if text is None:
            continue
        ctx.case(("compp", text), nontrivial=depth(c) >= 1)
        m_text = sexp.dec(out[2 * i])
        if m_text != text:
            disagree("print_com differs: impl %r model %r" % (text, m_text))
            continue
        r_p, m_p = parse_real(impl, text, com=True), model_parse_result(out[2 * i + 1], com=True)
        if (r_p[0] == "ok") != (m_p[0] == "ok") or (r_p[0] == "ok" and r_p[1] != m_p[1]):
            disagree("com_parser on %r: impl %s model %s" % (text, r_p, m_p))
            continue
        if r_p[0] != "ok":
            viol(ctx, "print-com-unparsable:" + text, "print_com output %r is rejected by com_parser" % text, {"kind": "compp", "com": c})
            continue
        same = r_p[1] == norm_negconst_com(c)
        ctx.count("compp:%s" % ("identical" if same else "different-tree"))
        if not same:
            check_com_roundtrip(ctx, impl, c)
    # com_parse_print: for the programs the model calls printable, the model's round trip is the identity (up to
    # negative constants) and so is the real one
    outp = ctx.lean_driver(EXE, [sexp.dumps(["printable", s_com(c)]) for c in coms])
    if outp is None or len(outp) != len(coms):
        ctx.broken("correspondence:c20:driver", "model driver unavailable (printable)")
    else:
        nprint = 0
        for i, (c, l) in enumerate(zip(coms, outp)):
            fl = sexp.loads(l)
            if fl[0] != "T":
                continue
            nprint += 1
            if fl[1] != "T":
                ctx.broken("hypotheses:c20:printable", "printableCom holds but the model's parseCom (ppCom c) is not normNegCom c: %s" % sexp.dumps(s_com(c)))
                break
            if texts[i] is not None:
                r_p = parse_real(impl, texts[i], com=True)
                if r_p != ("ok", norm_negconst_com(c)):
                    ctx.broken("correspondence:c20:printable", "the model calls %s printable, but com_parser reads its print_com text as %s" % (sexp.dumps(s_com(c)), r_p))
                    break
        ctx.count("printableCom c: parse(print c) = c in model and code", nprint)
    # hypotheses and statement of lex_print_com on every generated program
    outl = ctx.lean_driver(EXE, [sexp.dumps(["lexcom", s_com(c)]) for c in coms])
    if outl is None or len(outl) != len(coms):
        ctx.broken("correspondence:c20:driver", "model driver unavailable (lexcom)")
    else:
        bad = [c for c, l in zip(coms, outl) if sexp.loads(l) != ["T", "T"]]
        ctx.count("lexOKc c and lex(ppCom c) == comToks c", len(coms) - len(bad))
        if bad:
            ctx.broken("hypotheses:c20:lexcom", "lexOKc / lex(ppCom c) = comToks c fails on %s" % sexp.dumps(s_com(bad[0])))
    base = 2 * len(coms)
    for j, s in enumerate(extra):
        r_p, m_p = parse_real(impl, s, com=True), model_parse_result(out[base + j], com=True)
        ctx.case(("parsecom", s), nontrivial=True)
        ctx.count("parsecom:%s" % r_p[0])
        if r_p[0] == "unsupported":
            continue
        if (r_p[0] == "ok") != (m_p[0] == "ok") or (r_p[0] == "ok" and r_p[1] != m_p[1]):
            disagree("com_parser on %r: impl %s model %s" % (s, r_p, m_p))


def check_com_roundtrip(ctx, impl, c):
    """Implementation-only part of the program print/parse check (used by --replay)."""
    vs = sorted(vars_of(c, set()))
    text = "\n".join(impl.to_real_com(c).print_com({v: "int" for v in vs}))
    r_p = parse_real(impl, text, com=True)
    if r_p[0] != "ok":
        viol(ctx, "print-com-unparsable:" + text, "print_com output %r is rejected by com_parser" % text, {"kind": "compp", "com": c})
        return
    if r_p[1] == norm_negconst_com(c):
        return
    for vals in itertools.product((-1, 0, 2), repeat=len(vs)):
        st = dict(zip(vs, vals))
        res = []
        for prog in (c, r_p[1]):
            try:
                f = run_ref(prog, st, [400])
                res.append(tuple(f.get(v, 0) for v in vs))
            except OutOfFuel:
                res.append("fuel")
            except Stuck:
                res.append("stuck")
        if "fuel" not in res and res[0] != res[1]:
            viol(ctx, "print-com:seq-after-cond" if seq_after_cond(c) else "print-com-meaning:" + text,
                          "program prints as %r which com_parser reads as a program that behaves differently from %s: %s vs %s" % (text, st, res[0], res[1]),
                          {"kind": "compp", "com": c, "state": st})
            return


def seq_after_cond(c):
    """Some Seq has a first component that ends in a conditional (the concrete syntax has no way to
    close the else-branch, so `(if .. else c2); c3` is printed like `if .. else (c2; c3)`)."""
    def ends_in_cond(x):
        return x[0] == "cond" or (x[0] == "seq" and ends_in_cond(x[2]))
    k = c[0]
    if k == "seq":
        return ends_in_cond(c[1]) or seq_after_cond(c[1]) or seq_after_cond(c[2])
    if k == "cond":
        return seq_after_cond(c[2]) or seq_after_cond(c[3])
    if k == "while":
        return seq_after_cond(c[3])
    return False


# ------------------------------------------------------------------ expression evaluation (model vs reference)
def eval_stage(ctx):
    rng = ctx.rng("eval")
    n = ctx.scale(600, 8000)
    lines, exp = [], []
    for _ in range(n):
        vs = ["a", "b", "x"]
        r = rng.random()
        if r < 0.15:   # ill-sorted on purpose
            e = ("bin", rng.choice(list(BOPS)), rng.choice([gen_arith(rng, 1, vs), gen_cond(rng, 1, vs)]), rng.choice([gen_arith(rng, 1, vs), gen_cond(rng, 1, vs)]))
        elif r < 0.3:
            e = ("bin", rng.choice(["ge", "gt", "iff", "eq", "ne"]), *rng.choice([(gen_arith(rng, 2, vs), gen_arith(rng, 2, vs)), (gen_cond(rng, 1, vs), gen_cond(rng, 1, vs))]))
        elif r < 0.6:
            e = gen_arith(rng, 3, vs)
        else:
            e = gen_cond(rng, 3, vs)
        st = {v: rng.randint(-4, 4) for v in vs if rng.random() < 0.8}
        lines.append(sexp.dumps(["eval", s_expr(e), [[sexp.enc(k), v] for k, v in sorted(st.items())]]))
        v = ev(e, st)
        exp.append("none" if v is None else "(bool %s)" % ("T" if v else "F") if type(v) is bool else "(int %d)" % v)
    out = ctx.lean_driver(EXE, lines)
    if out is None or len(out) != len(lines):
        ctx.broken("correspondence:c20:driver", "model driver unavailable (eval stream)")
        return
    ndis = 0
    for l, a, b in zip(lines, out, exp):
        ctx.count("eval")
        if a != b:
            ndis += 1
            if ndis <= 3:
                ctx.broken("correspondence:c20:eval", "%s: model %s reference %s" % (l, a, b))


# ------------------------------------------------------------------ eval_Sem stream (imp.py over nat states)
def gen_nat_arith(rng, d, vs):
    """parser.py's expr language; the grammar nests every operator to the right, so the left
    argument is always atomic and the printed string denotes exactly this tree."""
    atom = ("var", rng.choice(vs)) if rng.random() < 0.6 else ("int", rng.choice([0, 1, 2, 3, 5]))
    if d <= 0 or rng.random() < 0.4:
        return atom
    return ("bin", rng.choice(["add", "add", "mul"]), atom, gen_nat_arith(rng, d - 1, vs))


def gen_nat_cond(rng, vs, rich):
    rel = rng.choice(["eq", "ne"] if not rich else ["eq", "ne", "le", "lt"])
    c = ("bin", rel, gen_nat_arith(rng, 1, vs), gen_nat_arith(rng, 1, vs))
    if rng.random() < 0.08:
        c = TRUE
    if rich and rng.random() < 0.5:
        return ("bin", rng.choice(["and", "or"]), c, gen_nat_cond(rng, vs, rich))
    return c


def gen_nat_com(rng, d, vs, rich):
    r = rng.random()
    if d <= 0 or r < 0.25:
        if rng.random() < 0.1:
            return ("skip",)
        return ("assign", rng.choice(vs), gen_nat_arith(rng, 2, vs))
    if r < 0.55:
        # the grammar nests `;` to the right and lets an else-branch swallow the rest: keep the tree in that image
        c1 = gen_nat_com(rng, 0, vs, rich) if rng.random() < 0.7 else gen_nat_loop(rng, d - 1, vs, rich)
        return ("seq", c1, gen_nat_com(rng, d - 1, vs, rich))
    if r < 0.8:
        return ("cond", gen_nat_cond(rng, vs, rich), gen_nat_com(rng, d - 1, vs, rich), gen_nat_com(rng, d - 1, vs, rich))
    return gen_nat_loop(rng, d - 1, vs, rich)


def gen_nat_loop(rng, d, vs, rich):
    i = rng.choice(vs)
    bound = ("int", rng.randint(1, 4)) if rng.random() < 0.7 else ("var", rng.choice(vs))
    body = gen_nat_com(rng, d, [v for v in vs if v != i] or vs, rich)
    return ("while", ("bin", "ne", ("var", i), bound), TRUE, ("seq", body, ("assign", i, ("bin", "add", ("var", i), ("int", 1)))))


def nat_str(e):
    k = e[0]
    if k == "var":
        return e[1]
    if k == "int":
        return str(e[1])
    if k == "bool":
        return "true"
    return "%s %s %s" % (nat_str(e[2]), BOPS[e[1]], nat_str(e[3]))


def nat_com_str(c):
    k = c[0]
    if k == "skip":
        return "skip"
    if k == "assign":
        return "%s := %s" % (c[1], nat_str(c[2]))
    if k == "seq":
        return "%s; %s" % (nat_com_str(c[1]), nat_com_str(c[2]))
    if k == "cond":
        return "if (%s) then %s else %s" % (nat_str(c[1]), nat_com_str(c[2]), nat_com_str(c[3]))
    return "while (%s) { %s }" % (nat_str(c[1]), nat_com_str(c[3]))


def decode_cells(t):
    """fun_upd chain over (%x. 0) -> {cell: value}; None if it is not a chain of numerals."""
    from data.function import strip_fun_upd
    base, upds = strip_fun_upd(t)
    if not (base.is_abs() and base.body.is_number() and base.body.dest_number() == 0):
        return None
    d = {}
    for k, v in upds:
        if not (k.is_number() and v.is_number()):
            return None
        d[int(k.dest_number())] = int(v.dest_number())
    return d


class hard_time_limit:
    """Like ctx.time_limit, but the alarm keeps firing every second after the deadline: holpy code that
    swallows one exception (broad `except` clauses around conversions) cannot outlive the limit."""

    def __init__(self, seconds):
        self.seconds = seconds

    def _handler(self, signum, frame):
        raise Timeout()

    def __enter__(self):
        import signal
        self.old = signal.signal(signal.SIGALRM, self._handler)
        signal.setitimer(signal.ITIMER_REAL, self.seconds, 1.0)

    def __exit__(self, *exc):
        import signal
        signal.setitimer(signal.ITIMER_REAL, 0)
        signal.signal(signal.SIGALRM, self.old)
        return False


class NatFront:
    """imperative/parser.py as the user meets it.  The state cell a variable name is stored in is
    *observed* (the address in the term `parse_com("name := 0")` builds), never assumed."""

    def __init__(self):
        from imperative import parser as P1, imp
        from kernel.type import NatType
        from kernel.term import Nat, Lambda
        from data import nat
        from data.function import mk_const_fun, mk_fun_upd
        self.P1, self.imp, self.Nat, self.Lambda = P1, imp, Nat, Lambda
        self.zero_state = lambda: mk_const_fun(NatType, nat.zero)
        self.mk_fun_upd = mk_fun_upd
        self._cells = {}

    def cell(self, name):
        """The state cell of `name`, or None when the parser rejects an assignment to it."""
        if name not in self._cells:
            c = None
            try:
                with time_limit(10):
                    c = self.P1.parse_com("%s := 0" % name)
            except Timeout:
                raise
            except Exception:  # noqa  (the parser rejects the name)
                pass
            self._cells[name] = None
            if c is not None and c.is_comb("Assign", 2) and c.args[0].is_number():
                self._cells[name] = int(c.args[0].dest_number())
        return self._cells[name]

    def state(self, init):
        st = self.zero_state()
        for k, v in sorted(init.items()):
            st = self.mk_fun_upd(st, self.Nat(self.cell(k)), self.Nat(v))
        return st


# names that are prefixes / suffixes of each other, start with a or A, contain digits and underscores
BASES = ["x", "b", "c", "bc", "z", "xy", "ab", "y"]


def gen_names(rng):
    base = rng.choice(BASES)
    vs = [base]
    if rng.random() < 0.75:
        vs.append("a" + base)
    if rng.random() < 0.3:
        vs.append("aa" + base)
    if rng.random() < 0.3:
        vs.append(base + "a")
    if rng.random() < 0.3:
        vs.append(base + base)
    while len(vs) < 2 or rng.random() < 0.35:
        vs.append(rng.choice(["a", "b", "x", "y", "ax", "ay", "ba", "aab", "abc", "za", "az", "zz", "x1", "_t", "a1", "a_", "xA", "Ax"]))
    vs = list(dict.fromkeys(vs))
    rng.shuffle(vs)
    return vs[:5]


def alias_witness(ctx, F, n1, n2, found_in):
    """Two names of one program share a state cell: show it on the smallest program."""
    from imperative import imp
    c = ("seq", ("assign", n1, ("int", 1)), ("assign", n2, ("int", 2)))
    src = nat_com_str(c)
    replay = {"kind": "sem", "src": src, "init": {}, "com": c}
    pt = None
    try:
        with time_limit(30):
            pt = imp.eval_Sem(F.P1.parse_com(src), F.state({}))
    except Timeout:
        raise
    except Exception:  # noqa  (the witness program itself is not evaluable: report the aliasing without a final state)
        pass
    d = decode_cells(pt.prop.args[2]) if pt is not None else None
    fin = None if d is None else {n1: d.get(F.cell(n1), 0), n2: d.get(F.cell(n2), 0)}
    viol(ctx, "sem-alias:%s=%s" % tuple(sorted((n1, n2))),
         "the distinct variables %s and %s are stored in the same state cell %s (seen in %r): eval_Sem proves final state %s for %r, "
         "executing the program gives %s" % (n1, n2, F.cell(n1), found_in, fin, src, {n1: 1, n2: 2}), replay)


def sem_rule_names(pt):
    """The theorems Sem_* that eval_Sem's proof term applies, in a pre-order walk (the conversions that
    normalise states and guards hang off the same tree and are skipped)."""
    out = []

    def walk(p):
        if p.rule in ("apply_theorem", "apply_theorem_for"):
            name = p.args if isinstance(p.args, str) else p.args[0]
            if isinstance(name, str) and name.startswith("Sem_"):
                out.append(name)
        for q in p.prevs:
            walk(q)
    walk(pt)
    return out


def sem_case(ctx, F, c, init, check_proof=False):
    """eval_Sem on one program text.  Returns (src, names, fin) when evaluation succeeded and agreed
    with the reference interpreter, else None (failures / violations are registered here)."""
    from kernel import theory
    names = sorted(vars_of(c, set()) | set(init))
    src = nat_com_str(c)
    key = (src, tuple(sorted(init.items())))
    replay = {"kind": "sem", "src": src, "init": init, "com": c}
    try:
        ref = run_ref(c, dict(init), [150])
        ref = {v: ref.get(v, 0) for v in names}
    except OutOfFuel:
        ctx.count("sem:ref-diverges")
        return None
    except Stuck:
        return None
    import sys
    old_limit = sys.getrecursionlimit()
    for v in names:
        F.cell(v)           # observed (and cached) outside the timed block: time limits do not nest
    try:
        # holpy raises the recursion limit to 10^7 (prover/proofrec.py); a symbolic evaluation that does not
        # terminate would then recurse for minutes.  The generated programs end within 150 steps.
        sys.setrecursionlimit(min(old_limit, 20000))
        with hard_time_limit(10):
            if any(F.cell(k) is None for k in init):
                raise NotImplementedError("initial state mentions a name the parser rejects")
            st = F.state(init)
            com = F.P1.parse_com(src)
            pt = F.imp.eval_Sem(com, st)
    except Timeout:
        ctx.count("sem:impl-timeout")
        return "timeout"
    except RecursionError:
        ctx.count("sem:impl-does-not-terminate")
        return None
    except Exception as e:  # noqa  (rejected by the parser / not evaluable: evaluation does not succeed)
        ctx.count("sem:impl-fails:" + classify_exc(e))
        ctx.case(("sem",) + key, nontrivial=False)
        return None
    finally:
        sys.setrecursionlimit(old_limit)
    multi = any(len(v) > 1 for v in names)
    ctx.case(("sem",) + key, nontrivial=depth(c) >= 1)
    ctx.count("sem:evaluated:%s:depth%d" % ("long-names" if multi else "one-letter", depth(c)))
    prop = pt.prop
    ok_shape = prop.is_comb("Sem", 3) and prop.args[0] == com and prop.args[1] == st and len(pt.hyps) == 0
    if not ok_shape:
        viol(ctx, "sem-shape:" + src, "eval_Sem returned %s, not a closed theorem Sem c s s'" % pt.th, replay)
        return None
    cells = decode_cells(prop.args[2])
    if cells is None:
        if any(ch.isupper() for v in names for ch in v):
            ctx.count("sem:symbolic-final-state")       # program with parameters A, B, ...: nothing to compare
            return None
        viol(ctx, "sem-shape:" + src, "eval_Sem returned %s: the final state is not a numeral state" % pt.th, replay)
        return None
    # the name -> cell mapping seen in this theorem must keep distinct variables apart
    cell_of = {v: F.cell(v) for v in names}
    if any(cv is None for cv in cell_of.values()):
        ctx.count("sem:name-without-cell")
        return None
    for a, b in itertools.combinations(names, 2):
        if cell_of[a] == cell_of[b]:
            alias_witness(ctx, F, a, b, src)
    fin = {v: cells.get(cell_of[v], 0) for v in names}
    stray = sorted(k for k in cells if k not in cell_of.values() and cells[k] != 0)
    if fin != ref or stray:
        viol(ctx, "sem-wrong-state:%s:%s" % (src, sorted(init.items())),
             "eval_Sem proves final state %s%s for %r from %s (cells %s); executing the program text gives %s"
             % (fin, " plus non-zero cells %s of no variable" % stray if stray else "", src, init, cell_of, ref), replay)
        return None
    if check_proof:
        try:
            with hard_time_limit(30):
                th = theory.check_proof(pt.export())
            if th != pt.th:
                viol(ctx, "sem-proof:" + src, "the proof exported by eval_Sem checks to a different theorem", replay)
        except Timeout:
            ctx.count("sem:check-timeout")
        except Exception as e:  # noqa
            viol(ctx, "sem-proof:" + src, "the proof exported by eval_Sem is rejected by the checker (%s)" % classify_exc(e), replay)
    return (src, names, fin, sem_rule_names(pt))


def sem_stage(ctx):
    F = NatFront()
    rng = ctx.rng("sem")
    n = ctx.scale(110, 1000)
    lines, recs = [], []
    ncheck = ntimeout = 0
    # hand-written openers: aliases of one-letter names, prefixes/suffixes, the coordinator's example
    V, I = (lambda x: ("var", x)), (lambda k: ("int", k))
    fixed = [(("seq", ("assign", "x", I(4)), ("seq", ("assign", "ax", I(9)), ("seq", ("assign", "y", ("bin", "add", V("x"), I(1))),
               ("cond", ("bin", "eq", V("ax"), I(9)), ("assign", "ax", ("bin", "add", V("ax"), V("x"))), ("skip",))))), {}),
             (("seq", ("assign", "ab", I(1)), ("assign", "b", I(2))), {}),
             (("seq", ("assign", "bc", I(1)), ("seq", ("assign", "abc", I(2)), ("assign", "c", ("bin", "add", V("bc"), V("abc"))))), {}),
             (("assign", "xa", ("bin", "add", V("x"), V("ax"))), {"x": 1, "ax": 2}),
             (("seq", ("assign", "aa", I(3)), ("assign", "b", V("a"))), {"a": 1}),
             (("assign", "x1", I(1)), {}), (("assign", "a", V("AB")), {}), (("assign", "_t", I(1)), {})]
    cases = list(fixed)
    for i in range(n):
        rich = rng.random() < 0.2
        if rng.random() < 0.45:
            vs = gen_names(rng)
        else:
            vs = ["a", "b", "c", "d"][:rng.randint(1, 4)]
        c = to_printable_shape(gen_nat_com(rng, rng.randint(0, 4), vs, rich))     # the trees parser.py returns: `;` right-nested, a conditional last
        if rng.random() < 0.04:      # a parameter (capital letters are HOL variables, not program variables)
            c = to_printable_shape(("seq", ("assign", vs[0], ("bin", "add", ("var", vs[0]), ("var", rng.choice(["A", "B", "AB"])))), c))
        init = {v: rng.randint(0, 3) for v in vs if rng.random() < 0.6}
        cases.append((c, init))
    import time
    t0, budget = time.time(), ctx.scale(80, 420)
    for c, init in cases:
        if ntimeout >= 4 or time.time() - t0 > budget:
            ctx.count("sem:skipped-after-timeouts" if ntimeout >= 4 else "sem:skipped-over-budget")
            continue
        do_check = ncheck < ctx.scale(25, 300)
        r = sem_case(ctx, F, c, init, check_proof=do_check)
        if r == "timeout":
            ntimeout += 1
            continue
        if r is None:
            continue
        if do_check:
            ncheck += 1
        src, names, fin, rules = r
        lines.append(sexp.dumps(["evalsem", 100000, s_com(c), [[sexp.enc(k), v] for k, v in sorted(init.items())], [sexp.enc(v) for v in names]]))
        recs.append((src, init, names, fin, rules))
    if recs:
        ctx.sample({"eval_Sem": recs[-1][0], "init": recs[-1][1], "final": recs[-1][3]})
    out = ctx.lean_driver(EXE, lines) if lines else []
    if out is None or len(out) != len(lines):
        ctx.broken("correspondence:c20:driver", "model driver unavailable (interp stream)")
        return
    ndis = 0
    for (src, init, names, fin, rules), line in zip(recs, out):
        exp = "(ok (%s) (%s))" % (" ".join(rules), " ".join(str(fin[v]) for v in names))
        ctx.count("sem:derivation-compared")
        if line != exp:
            ndis += 1
            if ndis <= 3:
                ctx.broken("correspondence:c20:evalsem", "%r from %s: eval_Sem's rule sequence and final state %s, the model's %s" % (src, init, exp, line))


# ------------------------------------------------------------------ imp.vcg through parse_com / parse_cond
def vcgnat_case(ctx, F, pre, c, post):
    """`Valid pre c post` proved by imp.vcg_solve (VCs by Z3) and accepted by the checker  ==>  the triple
    holds for the program TEXT: every execution from a state (values 0..2) satisfying pre ends in post."""
    from kernel import theory
    from kernel.report import ProofReport
    src, spre, spost = nat_com_str(c), nat_str(pre), nat_str(post)
    key = "%s | %s | %s" % (spre, src, spost)
    replay = {"kind": "vcgnat", "pre": pre, "com": c, "post": post}
    try:
        with hard_time_limit(30):
            com = F.P1.parse_com(src)
            P = F.Lambda(F.P1.st, F.P1.parse_cond(spre))
            Q = F.Lambda(F.P1.st, F.P1.parse_cond(spost))
            goal = F.imp.Valid(F.P1.natFunT)(P, com, Q)
            th = theory.check_proof(F.imp.vcg_solve(goal).export(), ProofReport())
    except Timeout:
        ctx.count("vcgnat:timeout")
        return
    except Exception as e:  # noqa  (parser rejects the names, Z3 does not prove a VC, ...)
        ctx.count("vcgnat:not-proved:" + classify_exc(e))
        ctx.case(("vcgnat", key), nontrivial=False)
        return
    if th.prop != goal or len(th.hyps) != 0:
        ctx.count("vcgnat:other-theorem")
        return
    ctx.case(("vcgnat", key), nontrivial=True)
    names = sorted(vars_of(pre, set()) | vars_of(c, set()) | vars_of(post, set()))
    ctx.count("vcgnat:proved:%s" % ("long-names" if any(len(v) > 1 for v in names) else "one-letter"))
    if len(names) > 5:
        return
    for vals in itertools.product((0, 1, 2), repeat=len(names)):
        st = dict(zip(names, vals))
        if ev(pre, st) is not True:
            continue
        try:
            fin = run_ref(c, st, [400])
        except (OutOfFuel, Stuck):
            continue
        if ev(post, fin) is not True:
            viol(ctx, "vcgnat-unsound:" + key,
                 "imp.vcg_solve proves Valid (%s) (%s) (%s) and the checker accepts it, but from %s the program text ends in %s"
                 % (spre, src, spost, st, {k: fin.get(k, 0) for k in names}), replay)
            return


def vcgnat_stage(ctx):
    F = NatFront()
    rng = ctx.rng("vcgnat")
    V, I = (lambda x: ("var", x)), (lambda k: ("int", k))
    B = lambda o, a, b: ("bin", o, a, b)
    cases = [(TRUE, ("seq", ("assign", "x", I(1)), ("assign", "ax", I(2))), B("eq", V("x"), I(2))),
             (TRUE, ("seq", ("assign", "x", I(1)), ("assign", "ax", I(2))), B("eq", V("x"), I(1))),
             (B("eq", V("ab"), I(0)), ("assign", "b", I(1)), B("eq", V("ab"), I(1))),
             (B("and", B("eq", V("a"), I(0)), B("eq", V("b"), I(0))),
              ("while", B("ne", V("a"), V("A")), B("eq", V("b"), B("mul", V("a"), V("B"))),
               ("seq", ("assign", "b", B("add", V("b"), V("B"))), ("assign", "a", B("add", V("a"), I(1))))), B("eq", V("b"), B("mul", V("A"), V("B"))))]
    for _ in range(ctx.scale(45, 500)):
        vs = gen_names(rng)[:3] if rng.random() < 0.6 else ["a", "b", "c"][:rng.randint(1, 3)]
        vs = [v for v in vs if v.isalpha() and v.islower()] or ["a", "b"]
        # straight-line / conditional code over small constants; the postcondition is a guess about the final
        # values that is right or wrong for the program text -- only provable guesses are judged
        c = to_printable_shape(gen_nat_com(rng, rng.randint(1, 3), vs, False))
        if has_loop(c):
            c = ("seq", ("assign", vs[0], I(rng.randint(0, 2))), ("assign", vs[-1], B("add", V(vs[0]), I(1))))
        pre = TRUE if rng.random() < 0.6 else B("eq", V(rng.choice(vs)), I(rng.randint(0, 2)))
        guesses = []
        for v in vs:
            for st in ({}, {u: 1 for u in vs}):
                try:
                    guesses.append(B("eq", V(v), I(run_ref(c, dict(st), [200]).get(v, 0))))
                except (OutOfFuel, Stuck):
                    pass
            guesses.append(B("eq", V(v), I(rng.randint(0, 4))))
            guesses.append(B("eq", V(v), V(rng.choice(vs))))
        post = rng.choice(guesses)
        if rng.random() < 0.3:
            post = B(rng.choice(["and", "or"]), post, rng.choice(guesses))
        cases.append((pre, c, post))
    import time
    t0, budget = time.time(), ctx.scale(40, 240)
    for pre, c, post in cases:
        if time.time() - t0 > budget:
            ctx.count("vcgnat:skipped-over-budget")
            continue
        vcgnat_case(ctx, F, pre, c, post)


# ------------------------------------------------------------------ imp.vcg on Hoare triples built as HOL terms
class HolBuilder:
    """Programs and assertions over nat states `s : nat => nat` as HOL terms, built with the
    constructors of imperative/imp.py (not through imperative/parser.py)."""

    def __init__(self):
        from imperative import imp
        from kernel.type import NatType, TFun
        from kernel.term import Var, Nat, Lambda, Eq, Not, And, Or, Implies, true
        from data import nat
        from logic import logic
        self.imp, self.nat, self.logic = imp, nat, logic
        self.Nat, self.Lambda, self.Eq, self.Not, self.And, self.Or, self.Implies, self.true = Nat, Lambda, Eq, Not, And, Or, Implies, true
        self.NatType = NatType
        self.T = TFun(NatType, NatType)
        self.s = Var("s", self.T)

    def expr(self, e, cells):
        k = e[0]
        if k == "var":
            return self.s(self.Nat(cells[e[1]]))
        if k == "int":
            return self.Nat(e[1])
        if k == "bool":
            assert e[1] is True
            return self.true
        if k == "un":
            assert e[1] == "not"
            return self.Not(self.expr(e[2], cells))
        if k == "ite":
            return self.logic.mk_if(*[self.expr(x, cells) for x in e[1:]])
        a, b = self.expr(e[2], cells), self.expr(e[3], cells)
        o = e[1]
        if o == "add":
            return self.nat.plus(a, b)
        if o == "mul":
            return self.nat.times(a, b)
        if o == "eq":
            return self.Eq(a, b)
        if o == "ne":
            return self.Not(self.Eq(a, b))
        if o == "le":
            return self.nat.less_eq(a, b)
        if o == "lt":
            return self.nat.less(a, b)
        return {"and": self.And, "or": self.Or, "imp": self.Implies}[o](a, b)

    def pred(self, e, cells):
        return self.Lambda(self.s, self.expr(e, cells))

    def com(self, c, cells):
        imp, T = self.imp, self.T
        k = c[0]
        if k == "skip":
            return imp.Skip(T)
        if k == "assign":
            return imp.Assign(self.NatType, self.NatType)(self.Nat(cells[c[1]]), self.pred(c[2], cells))
        if k == "seq":
            return imp.Seq(T)(self.com(c[1], cells), self.com(c[2], cells))
        if k == "cond":
            return imp.Cond(T)(self.pred(c[1], cells), self.com(c[2], cells), self.com(c[3], cells))
        return imp.While(T)(self.pred(c[1], cells), self.pred(c[2], cells), self.com(c[3], cells))


def gen_hcond(rng, d, vs):
    """Assertions over nat variables: comparisons of +,* expressions under &, |, -->, ~, if-then-else."""
    if d <= 0 or rng.random() < 0.35:
        if rng.random() < 0.08:
            return TRUE
        return ("bin", rng.choice(REL), gen_nat_arith(rng, 1, vs), gen_nat_arith(rng, 1, vs))
    k = rng.random()
    if k < 0.6:
        return ("bin", rng.choice(["and", "and", "or", "imp"]), gen_hcond(rng, d - 1, vs), gen_hcond(rng, d - 1, vs))
    if k < 0.85:
        return ("un", "not", gen_hcond(rng, d - 1, vs))
    return ("ite", gen_hcond(rng, d - 1, vs), gen_hcond(rng, d - 1, vs), gen_hcond(rng, d - 1, vs))


def gen_hcom(rng, d, vs, inv):
    r = rng.random()
    if d <= 0 or r < 0.25:
        if rng.random() < 0.12:
            return ("skip",)
        return ("assign", rng.choice(vs), gen_nat_arith(rng, 2, vs))
    if r < 0.55:
        return ("seq", gen_hcom(rng, d - 1, vs, inv), gen_hcom(rng, d - 1, vs, inv))
    if r < 0.8:
        return ("cond", gen_hcond(rng, 1, vs), gen_hcom(rng, d - 1, vs, inv), gen_hcom(rng, d - 1, vs, inv))
    return ("while", gen_hcond(rng, 1, vs), inv(rng), gen_hcom(rng, d - 1, vs, inv))


def vcghol_case(ctx, H, pre, c, post, label, lines, pending):
    from kernel import theory
    names = sorted(vars_of(pre, set()) | vars_of(c, set()) | vars_of(post, set()))
    cells = {v: i for i, v in enumerate(names)}
    key = sexp.dumps(["vcsh", s_com(c), s_expr(pre), s_expr(post)])
    replay = {"kind": "vcghol", "pre": pre, "com": c, "post": post}
    goal = H.imp.Valid(H.T)(H.pred(pre, cells), H.com(c, cells), H.pred(post, cells))      # harness-built input
    try:
        with hard_time_limit(60):
            pt = H.imp.vcg_norm(H.T, goal)
            hyps, prop = list(pt.hyps), pt.prop
            th_checked = theory.check_proof(pt.export()) if label == "checked" else None
    except Timeout:
        ctx.count("vcghol:timeout")
        return
    except Exception as e:  # noqa
        viol(ctx, "vcghol-raise:%s:%s" % (classify_exc(e), key), "imp.vcg_norm raised %s: %s" % (classify_exc(e), str(e)[:100]), replay)
        return
    assums, concl = prop.strip_implies()
    if hyps or concl != goal or (th_checked is not None and th_checked.prop != prop):
        viol(ctx, "vcghol-other-theorem:" + key, "vcg_norm returned %s |- %s, not conditions --> the given triple" % (hyps, prop), replay)
        return
    # the conditions as the user gets them: closed formulas `!s. body`
    bodies = []
    for a in assums:
        vs_, body = a.strip_forall()
        if len(vs_) != 1:
            raise NotUnderstood("a condition of vcg_norm is not of the form !s. body: %s" % a)
        bodies.append((vs_[0].name, body))
    vcs_ast = [hol_to_ast(b, H.logic, svar=sv, names={i: v for v, i in cells.items()}) for sv, b in bodies]
    ctx.case(("vcghol", key), nontrivial=depth(c) >= 1)
    ctx.count("vcghol:%s:depth%d" % (label, depth(c)))
    lines.append(key)
    pending.append({"key": key, "vcs_ast": vcs_ast})
    if len(names) > 4:
        return

    def cellstate(st):
        return {cells[v]: x for v, x in st.items()}

    def hold_at(st):
        cs = cellstate(st)
        return all(hol_eval(b, cs, H.logic, svar=sv) is True for sv, b in bodies)
    grid = [dict(zip(names, vals)) for vals in itertools.product((0, 1, 2, 3), repeat=len(names))]
    if not all(hold_at(st) for st in grid):
        ctx.count("vcghol:some-condition-fails")
        return
    ctx.count("vcghol:conditions-hold-on-grid")
    for st in grid:
        if ev(pre, st) is not True:
            continue
        visited = []
        try:
            fin = run_ref(c, st, [2000], visited)
        except (OutOfFuel, Stuck):
            continue
        if ev(post, fin) is True:
            continue
        if all(hold_at(v) for v in visited):
            viol(ctx, "vcghol-unsound:" + key,
                 "imp.vcg_norm proves  %s  and all %d conditions hold on the grid 0..3 and on every visited state, but from %s "
                 "the program ends in %s where the postcondition is false" % (prop, len(assums), st, {k: fin.get(k, 0) for k in names}),
                 dict(replay, init=st))
            return
        ctx.count("vcghol:condition-fails-off-grid")
    ctx.count("vcghol:nonvacuous")


def gen_rule_near_miss(rng, vs):
    """Triples that are true or false because of exactly ONE premise of a Hoare rule.  The precondition pins
    an initial state st0; the postcondition records what some run OTHER than the real one would produce:
    the branch of a conditional that is NOT taken from st0, a loop body run once more or once less, the
    second command of a sequence alone.  A sound generator must leave a condition that fails at st0 (or the
    guess happens to be right for the real run too: then the triple is true); a rule that lost a guard, a
    premise or the order of its parts lets such a triple through, and oracle (a) sees the run from st0."""
    V, I = (lambda x: ("var", x)), (lambda k: ("int", k))
    B = lambda o, a, b: ("bin", o, a, b)
    st0 = {v: rng.randint(0, 2) for v in vs}
    pre = None
    for v in vs:
        eqn = B("eq", V(v), I(st0[v]))
        pre = eqn if pre is None else B("and", eqn, pre)

    def simple():
        r = rng.random()
        if r < 0.3:
            return ("skip",)
        a = ("assign", rng.choice(vs), gen_nat_arith(rng, 1, vs))
        return a if r < 0.8 else ("seq", a, ("assign", rng.choice(vs), gen_nat_arith(rng, 1, vs)))

    def facts(fin):
        eqs = [B("eq", V(v), I(fin.get(v, 0))) for v in vs]
        rng.shuffle(eqs)
        post = eqs[0]
        for e in eqs[1:rng.randint(1, len(eqs))]:
            post = B("and", e, post)
        return post
    kind = rng.choice(["cond", "cond", "cond", "seq", "while"])
    try:
        if kind == "cond":
            b = gen_hcond(rng, rng.randint(0, 1), vs)
            c1, c2 = simple(), simple()
            if c1 == c2:
                c2 = ("assign", vs[0], B("add", V(vs[0]), I(1)))
            other = c2 if ev(b, st0) is True else c1
            c = ("cond", b, c1, c2)
            post = facts(run_ref(other, dict(st0), [200]))
            if rng.random() < 0.3:
                c = ("seq", ("skip",), c) if rng.random() < 0.5 else ("seq", c, ("skip",))
        elif kind == "seq":
            c1, c2 = simple(), simple()
            c = ("seq", c1, c2)
            post = facts(run_ref(rng.choice([c2, c1, ("seq", c2, c1)]), dict(st0), [200]))
        else:
            i = vs[0]
            bound = st0[i] + rng.randint(0, 2)
            others = [v for v in vs if v != i] or vs
            body = ("seq", ("assign", rng.choice(others), gen_nat_arith(rng, 1, vs)), ("assign", i, B("add", V(i), I(1))))
            c = ("while", B("ne", V(i), I(bound)), TRUE, body)
            k = max(0, bound - st0[i] + rng.choice([-1, 0, 1]))
            fin = dict(st0)
            for _ in range(k):
                fin = run_ref(body, fin, [200])
            post = facts(fin)
    except (OutOfFuel, Stuck):
        return None
    return pre, c, post


def vcghol_stage(ctx):
    H = HolBuilder()
    rng = ctx.rng("vcghol")
    lines, pending = [], []
    n = ctx.scale(90, 1200)
    V, I = (lambda x: ("var", x)), (lambda k: ("int", k))
    B = lambda o, a, b: ("bin", o, a, b)
    # hand-written: count up, multiplication by repeated addition (imp_test.testVCGWhile), conditional
    fixed = [(B("le", V("a"), V("b")), ("while", B("lt", V("a"), V("b")), B("le", V("a"), V("b")), ("assign", "a", B("add", V("a"), I(1)))), B("eq", V("a"), V("b"))),
             (B("and", B("eq", V("a"), I(0)), B("eq", V("b"), I(0))),
              ("while", B("ne", V("a"), V("c")), B("eq", V("b"), B("mul", V("a"), V("d"))),
               ("seq", ("assign", "b", B("add", V("b"), V("d"))), ("assign", "a", B("add", V("a"), I(1))))), B("eq", V("b"), B("mul", V("c"), V("d")))),
             (TRUE, ("cond", B("eq", V("a"), V("b")), ("skip",), ("assign", "a", V("b"))), B("eq", V("a"), V("b"))),
             (TRUE, ("seq", ("assign", "a", I(1)), ("cond", B("lt", V("a"), I(1)), ("assign", "b", I(0)), ("assign", "b", I(1)))), B("eq", V("b"), I(1)))]
    for pre, c, post in fixed:
        vcghol_case(ctx, H, pre, c, post, "checked", lines, pending)
    # one-premise near misses of every rule (wrong branch / wrong iteration count / wrong order), state pinned
    for i in range(ctx.scale(30, 300)):
        t = gen_rule_near_miss(rng, ["a", "b", "c"][:rng.choice([1, 2, 2, 3])])
        if t is not None:
            ctx.count("vcghol:near-miss:" + t[1][0])
            vcghol_case(ctx, H, t[0], t[1], t[2], "checked" if i % 10 == 0 else "random", lines, pending)
    import time
    t0, budget = time.time(), ctx.scale(50, 400)
    for i in range(n):
        if time.time() - t0 > budget:
            ctx.count("vcghol:skipped-over-budget")
            continue
        vs = ["a", "b", "c"][:rng.choice([1, 2, 2, 3])]
        r = rng.random()
        if r < 0.3:        # everything random
            c = gen_hcom(rng, rng.randint(0, 3), vs, lambda g: gen_hcond(g, 1, vs))
            pre, post = gen_hcond(rng, 1, vs), gen_hcond(rng, 1, vs)
        elif r < 0.65:     # loop-free, precondition strong enough by construction: judged by execution
            c = gen_hcom(rng, rng.randint(1, 3), vs, lambda g: TRUE)
            if has_loop(c):
                c = ("cond", gen_hcond(rng, 1, vs), ("assign", vs[0], gen_nat_arith(rng, 1, vs)), ("skip",))
            post = gen_hcond(rng, 1, vs)
            # strongest guess: the precondition pins the initial state, the condition then holds iff the run from it satisfies post
            st0 = {v: rng.randint(0, 2) for v in vs}
            pre = None
            for v in vs:
                eqn = B("eq", V(v), I(st0[v]))
                pre = eqn if pre is None else B("and", eqn, pre)
        else:              # loops with pre = invariant, post implied by invariant & ~guard
            inv = gen_hcond(rng, 1, vs)
            b = gen_hcond(rng, rng.randint(0, 1), vs)
            body = gen_hcom(rng, rng.randint(0, 2), vs, lambda g: rng.choice([TRUE, inv]))
            c = ("while", b, inv, body)
            post = rng.choice([inv, B("and", inv, ("un", "not", b)), B("or", inv, gen_hcond(rng, 0, vs))])
            pre = inv
        vcghol_case(ctx, H, pre, c, post, "checked" if i % 10 == 0 else "random", lines, pending)
    out = ctx.lean_driver(EXE, lines) if lines else []
    if out is None or len(out) != len(lines):
        ctx.broken("correspondence:c20:driver", "model driver unavailable (vcghol stream)")
        return
    ndis = 0
    for line, rec in zip(out, pending):
        m = sorted(repr(hol_norm(u_expr(v))) for v in sexp.loads(line))
        i_ = sorted(repr(v) for v in rec["vcs_ast"])
        if m != i_:
            ndis += 1
            if ndis <= 3:
                ctx.broken("correspondence:c20:vcghol", "conditions of imp.vcg_norm differ from the model's on %s: impl=%s model=%s" % (rec["key"], i_, m))
                ctx.coverage["disagreements_checked"] += 1


# ------------------------------------------------------------------ the constructors compute_wp uses, judged on states
def helpers_stage(ctx, impl):
    """expr.neg / conj / implies / eq / ... are what compute_wp assembles conditions from: the value of
    what they return must be the logical combination of the values of their arguments, in every state."""
    X = impl.expr
    rng = ctx.rng("helpers")
    vs = ["a", "b", "x"]
    grid = small_grid(vs)
    spec1 = {"neg": lambda p: None if type(p) is not bool else (not p), "uminus": lambda p: None if type(p) is not int else -p}
    spec2 = {"conj": lambda p, q: p and q, "implies": lambda p, q: (not p) or q,
             "plus": lambda p, q: p + q, "minus": lambda p, q: p - q, "times": lambda p, q: p * q,
             "less": lambda p, q: p < q, "less_eq": lambda p, q: p <= q, "eq": lambda p, q: p == q, "neq": lambda p, q: p != q}
    boolean = {"neg", "conj", "implies"}
    for _ in range(ctx.scale(400, 4000)):
        name = rng.choice(sorted(spec1) + sorted(spec2))
        if not hasattr(X, name):
            continue
        gen = (lambda: gen_cond(rng, rng.randint(0, 2), vs, ad=1)) if name in boolean else (lambda: gen_arith(rng, rng.randint(0, 2), vs))
        args = [gen()] if name in spec1 else [gen(), gen()]
        try:
            res_real = getattr(X, name)(*[impl.to_real(a) for a in args])
        except Exception as e:  # noqa
            viol(ctx, "helper-raise:%s" % name, "expr.%s raised %s" % (name, classify_exc(e)), {"kind": "helper", "name": name, "args": args})
            continue
        res = impl.from_real(res_real)
        ctx.case(("helper", name, tuple(args)), nontrivial=True)
        ctx.count("helper:" + name)
        for st in grid:
            vals = [ev(a, st) for a in args]
            want = spec1[name](*vals) if name in spec1 else spec2[name](*vals)
            got = ev(res, st)
            if got != want:
                viol(ctx, "helper-meaning:%s:%s" % (name, sexp.dumps([s_expr(a) for a in args])),
                     "expr.%s(%s) returns %s, which is %s at %s where the arguments are %s" % (
                         name, ", ".join(str(impl.to_real(a)) for a in args), res_real, got, st, vals),
                     {"kind": "helper", "name": name, "args": args, "state": st})
                break


def interp_stage(ctx):
    """Lean interpreter against the reference interpreter on int programs (incl. stuck / fuel)."""
    rng = ctx.rng("interp")
    n = ctx.scale(300, 4000)
    lines, exp = [], []
    for _ in range(n):
        vs = VARS[:3]
        c = gen_com(rng, rng.randint(0, 4), vs)
        r = rng.random()
        if r < 0.06:      # ill-sorted on purpose: the interpreter must get stuck exactly where the reference does
            c = ("seq", c, ("cond", gen_arith(rng, 1, vs), ("skip",), ("skip",)))
        elif r < 0.12:
            c = ("seq", ("assign", rng.choice(vs), gen_cond(rng, 1, vs)), c)
        elif r < 0.16:
            c = ("while", gen_arith(rng, 1, vs), TRUE, c)
        st = {v: rng.randint(-3, 3) for v in vs}
        try:
            f = run_ref(c, dict(st), [2000])
            e = "(ok (%s))" % " ".join(str(f.get(v, 0)) for v in vs)
        except OutOfFuel:
            continue
        except Stuck:
            e = "stuck"
        lines.append(sexp.dumps(["interp", 100000, s_com(c), [[sexp.enc(k), v] for k, v in sorted(st.items())], [sexp.enc(v) for v in vs]]))
        exp.append(e)
    out = ctx.lean_driver(EXE, lines)
    if out is None or len(out) != len(lines):
        ctx.broken("correspondence:c20:driver", "model driver unavailable (interp stream)")
        return
    ndis = 0
    for l, a, b in zip(lines, out, exp):
        ctx.count("interp:" + ("ok" if b.startswith("(ok") else b))
        if a != b:
            ndis += 1
            if ndis <= 3:
                ctx.broken("correspondence:c20:interp-ref", "%s: model %s reference %s" % (l, a, b))


# ------------------------------------------------------------------ Gen.lean: library/hoare.json -> Lean
def translate_hoare(ctx):
    with open(os.path.join(ctx.repo, "library", "hoare.json"), encoding="utf-8") as f:
        data = json.load(f)
    items = {it.get("name"): it for it in data["content"] if "name" in it}

    def prop_of(name):
        p = items[name]["prop"]
        return "".join(p) if isinstance(p, list) else p

    com = items["com"]
    assert com["ty"] == "type.ind" and com["args"] == ["a"], "untranslatable: com datatype"

    def ty(s):
        s = s.strip()
        toks = re.findall(r"'a|bool|com|=>|⇒|\(|\)", s)
        assert "".join(toks) == s.replace(" ", ""), "untranslatable: type %r" % s
        out = []
        i = 0
        while i < len(toks):
            t = toks[i]
            if t == "'a" and i + 1 < len(toks) and toks[i + 1] == "com":
                out.append("HCom σ")
                i += 2
                continue
            out.append({"'a": "σ", "bool": "Prop", "=>": "→", "⇒": "→", "(": "(", ")": ")"}[t])
            i += 1
        return " ".join(out)

    L = ["/- GENERATED by harness/props/c20.py from library/hoare.json; do not edit. -/",
         "namespace Holpy.C20.Gen", "set_option autoImplicit true", "",
         "/-- datatype `com` of library/hoare.json -/", "inductive HCom (σ : Type) where"]
    for k in com["constrs"]:
        # "('a => 'a) => 'a com => 'a com": split the curried type into argument types
        parts, dep, cur = [], 0, ""
        for tok in re.findall(r"=>|⇒|\(|\)|[^()=⇒\s]+|\s+", k["type"]):
            if tok == "(":
                dep += 1
            if tok == ")":
                dep -= 1
            if tok in ("=>", "⇒") and dep == 0:
                parts.append(cur)
                cur = ""
            else:
                cur += tok
        parts.append(cur)
        assert len(parts) == len(k["args"]) + 1 and parts[-1].strip() == "'a com", "untranslatable: constructor %s" % k["name"]
        args = " ".join("(%s : %s)" % (a, ty(p)) for a, p in zip(k["args"], parts[:-1]))
        L.append("  | %s %s : HCom σ" % (k["name"], args))
    L += ["", "open HCom", ""]
    sem = items["Sem"]
    assert sem["ty"] == "def.pred", "untranslatable: Sem"

    def tr_prop(p):
        toks = re.findall(r"[A-Za-z_][A-Za-z_0-9]*|⟶|¬|\(|\)", p)
        assert "".join(toks) == p.replace(" ", ""), "untranslatable: rule %r" % p
        return " ".join({"⟶": "→"}.get(t, t) for t in toks).replace("( ", "(").replace(" )", ")")

    L += ["/-- the introduction rules of `Sem` (def.pred: least predicate closed under them) -/",
          "inductive Sem {σ : Type} : HCom σ → σ → σ → Prop where"]
    names = []
    for r in sem["rules"]:
        L.append("  | %s : %s" % (r["name"], tr_prop(r["prop"])))
        names.append(r["name"])
    L += ["", "def semRuleNames : List String := [%s]" % ", ".join('"%s"' % n for n in names), ""]
    # definitions and Hoare rules: translated token by token (λ, if-then-else, function update)
    def tr_term(p):
        p = p.replace("(s)(a := b s)", "(upd s a (b s))").replace("(f)(a := b f)", "(upd f a (b f))")
        toks = re.findall(r"[A-Za-z_][A-Za-z_0-9]*|::'a|⟶|⟷|¬|∧|∀|λ|\.|=|\(|\)", p)
        assert "".join(toks) == p.replace(" ", ""), "untranslatable: statement %r" % p
        m = {"⟶": "→", "⟷": "↔", "λ": "fun", ".": "=>", "::'a": "", "∀": "∀"}
        out = []
        quant = False
        for t in toks:
            if t == "∀":
                quant = True
                out.append("∀")
            elif t == "." and quant:
                out.append(",")
                quant = False
            else:
                out.append(m.get(t, t))
        return " ".join(x for x in out if x).replace("( ", "(").replace(" )", ")")
    L += ["def upd {α β : Type} [DecidableEq α] (f : α → β) (a : α) (v : β) : α → β := fun x => if x = a then v else f x", "",
          "/-- `%s` -/" % prop_of("Skip"), "def Skip {σ : Type} : HCom σ := %s" % tr_term(prop_of("Skip").split("=", 1)[1]),
          "/-- `%s` -/" % prop_of("Assign"),
          "def Assign {α β : Type} [DecidableEq α] (a : α) (b : (α → β) → β) : HCom (α → β) := %s" % tr_term(prop_of("Assign").split("=", 1)[1]),
          "/-- `%s` -/" % prop_of("Entail"),
          "def Entail {σ : Type} (P Q : σ → Prop) : Prop := %s" % tr_term(prop_of("Entail").split("⟷", 1)[1]),
          "/-- `%s` -/" % prop_of("Valid"),
          "def Valid {σ : Type} (P : σ → Prop) (c : HCom σ) (Q : σ → Prop) : Prop := %s" % tr_term(prop_of("Valid").split("⟷", 1)[1]), ""]
    assert prop_of("Skip").split("=", 1)[0].strip() == "Skip" and prop_of("Assign").split("=", 1)[0].strip() == "Assign a b"
    assert prop_of("Entail").split("⟷", 1)[0].strip() == "Entail P Q" and prop_of("Valid").split("⟷", 1)[0].strip() == "Valid P c Q"
    rules = ["Sem_Skip", "Sem_Assign", "pre_rule", "skip_rule", "assign_rule", "seq_rule", "if_rule", "while_rule"]
    binders = {"a": "{α β : Type} [DecidableEq α] (a : α)", "b@fun": "(b : (α → β) → β)", "s@fun": "(s : α → β)", "P@fun": "(P : (α → β) → Prop)"}
    for rn in rules:
        it = items[rn]
        p = prop_of(rn)
        vs = it["vars"]
        if "a" in vs and vs["a"] == "'a" and any("'b" in t for t in vs.values()):
            # statement about Assign: states are functions 'a => 'b
            bs = ["{α β : Type} [DecidableEq α]"]
            for v, t in sorted(vs.items()):
                t2 = t.replace("'a", "α").replace("'b", "β").replace("⇒", "→").replace("=>", "→").replace("bool", "Prop")
                bs.append("(%s : %s)" % (v, t2))
            hdr = " ".join(bs)
        else:
            bs = ["{σ : Type}"]
            for v, t in sorted(vs.items()):
                t2 = ty(t)
                bs.append("(%s : %s)" % (v, t2))
            hdr = " ".join(bs)
        body = tr_term(p)
        # `if b s then P s else Q s` on propositions
        body = re.sub(r"if (.*?) then (.*?) else ([^)]*)", r"((\1 → \2) ∧ (¬ \1 → \3))", body)
        L.append("/-- `%s` -/" % p)
        L.append("def %s_stmt : Prop := ∀ %s, %s" % (rn, hdr, body))
    L += ["", "def hoareRuleNames : List String := [%s]" % ", ".join('"%s"' % n for n in rules), "", "end Holpy.C20.Gen", ""]
    return "\n".join(L)


# ------------------------------------------------------------------ main
def run(ctx):
    ctx.coverage["rule"] = (
        "get_vcs stream: programs of nesting depth 0-4 over 1-4 int variables (skip, assignment with +,-,*,unary -,abs,max and negative "
        "constants, sequence, conditional, annotated loop), pre/post/invariants from the assertion language (==,!=,<=,<,&,|,-->,~,"
        "if-then-else,true) in four families: all random; precondition = the wp the implementation computes; loops with pre=invariant "
        "and post implied by invariant & ~guard; perturbed hand-verified templates (nested loops). Non-trivial = depth >= 1 and at least "
        "one VC. Printer/parser stream: random conditions of depth <= 4 plus every operator under every operator position, and token-"
        "perturbed strings. eval_Sem stream: programs in parser.py's language over nat states (depth <= 4, terminating per the reference "
        "interpreter), 55% over the one-letter names a-d, 45% over longer names that are prefixes/suffixes of each other, start with a/aa, or "
        "contain digits, underscores, capitals (rejected by the pinned parser: counted as not evaluated); the state cell of every name is "
        "observed from parse_com, distinct names of a program must have distinct cells and the proved final state must be what the "
        "reference interpreter computes from the program text. imp.vcg stream: Valid pre c post through parse_com/parse_cond + vcg_solve "
        "(Z3) + checker over the same name pools, judged by executing the text on states 0..2. imp.vcg_norm stream: triples built as HOL terms "
        "with imp.Skip/Assign/Seq/Cond/While over 1-3 nat cells (random; loop-free with a precondition pinning the state; loops with pre = "
        "invariant), depth <= 3. Constructor stream: expr.neg/conj/implies/plus/... on generated arguments. History stream: one Com object per case, 1-3 "
        "specifications (random, the wp of a fresh object possibly weakened to true, invariant-based), 1-3 analyses interleaved with "
        "print_com / get_vcs / get_lines under two variable contexts. Loop guards in the loop family are "
        "conjunctions / disjunctions in 45% of the cases. Distinct by the printed input.")
    try:
        if ctx.write_if_changed("Holpy/C20/Gen.lean", translate_hoare(ctx)):
            ctx.log("Gen.lean regenerated (changed)")
    except Exception as e:  # noqa
        ctx.broken("translate:c20:hoare.json", "untranslatable: %r" % e)
    proofs_ok = ctx.lean_props(["Holpy.C20.Props"], exes=[EXE])
    if ctx.tier == "thorough" and proofs_ok:
        ctx.lean_check_modules(["Holpy.C20.Props"])
    ctx.coverage["trusted_base"] += [
        "correspondence harness harness/props/c20.py: generators, reference evaluator/interpreter, the field-reading serialiser",
        "translator of library/hoare.json (com datatype, Sem rules, Hoare rules) to Lean",
        "Lark's LALR construction and lexer (the grammar model is tied to it by differential parsing only)",
        "holpy's kernel for the eval_Sem theorems (C01); nat.norm_full / fun_upd conversions are judged through the checked theorem"]
    ctx.assumptions += [
        "variables are identifiers that are not keywords of parser2's grammar; function applications have arity 1 or 2",
        "ArrayElt/Field/Forall are outside the model: no VC containing them can be produced (convert_hol is not implemented for them)",
        ">=, >, <--> and the constant false have no concrete syntax in parser2 and are never produced by compute_wp: outside the printed language",
        "oracle (a) judges VC validity on the grid -3..3 plus every state the executions visit (sound: the proof uses VCs only there)"]
    impl = Impl()
    from logic import logic
    replay_corpus(ctx, impl, logic)
    for name, stage in (("eval", lambda: eval_stage(ctx)), ("interp", lambda: interp_stage(ctx)), ("pp", lambda: pp_stage(ctx, impl, logic)),
                        ("com-pp", lambda: com_pp_stage(ctx, impl)), ("vcs", lambda: vcs_stage(ctx, impl, logic)), ("sem", lambda: sem_stage(ctx)),
                        ("vcgnat", lambda: vcgnat_stage(ctx)),
                        ("vcghol", lambda: vcghol_stage(ctx)), ("helpers", lambda: helpers_stage(ctx, impl)),
                        ("history", lambda: history_stage(ctx, impl, logic)), ("lexer", lambda: lexer_stage(ctx, impl))):
        stage()
        ctx.log("stage %s done (%d cases so far)" % (name, ctx.coverage["evaluations"]))


def replay_corpus(ctx, impl, logic):
    p = os.path.join(ctx.verif, "corpus", "c20.json")
    if not os.path.exists(p):
        return
    with open(p) as f:
        for r in json.load(f):
            replay_one(ctx, impl, logic, r)


def tup(x):
    return tuple(tup(y) for y in x) if isinstance(x, list) else x


def replay_one(ctx, impl, logic, r):
    kind = r.get("kind")
    if kind == "vcs":
        lines, pending = [], []
        vc_case(ctx, impl, logic, tup(r["pre"]), tup(r["com"]), tup(r["post"]), "replay", lines, pending)
    elif kind == "pp":
        e = tup(r["expr"])
        vs = sorted(vars_of(e, set()))
        s = str(impl.to_real(e))
        try:
            hol = impl.to_real(e).convert_hol({v: "int" for v in vs})
        except Exception:  # noqa
            hol = None
        check_print_parse(ctx, impl, logic, e, s, hol, vs, "cond")
    elif kind == "sem":
        sem_replay(ctx, r)
    elif kind == "compp":
        check_com_roundtrip(ctx, impl, tup(r["com"]))
    elif kind == "history":
        history_case(ctx, impl, logic, tup(r["com"]), [(tup(p), tup(q)) for p, q in r["specs"]], [(o[0], o[1]) for o in r["ops"]])
    elif kind == "vcghol":
        vcghol_case(ctx, HolBuilder(), tup(r["pre"]), tup(r["com"]), tup(r["post"]), "checked", [], [])
    elif kind == "helper":
        helper_replay(ctx, impl, r)
    elif kind == "vcgnat":
        vcgnat_case(ctx, NatFront(), tup(r["pre"]), tup(r["com"]), tup(r["post"]))


def sem_replay(ctx, r):
    F = NatFront()
    res = sem_case(ctx, F, tup(r["com"]), dict(r["init"]))
    ctx.log("eval_Sem on %r from %s: %s" % (r["src"], r["init"], "agrees with the reference interpreter: %s" % (res[2],) if isinstance(res, tuple) else "no agreeing result"))


def helper_replay(ctx, impl, r):
    X = impl.expr
    args = [tup(a) for a in r["args"]]
    res = impl.from_real(getattr(X, r["name"])(*[impl.to_real(a) for a in args]))
    st = r["state"]
    vals = [ev(a, st) for a in args]
    want = {"neg": lambda p: not p, "uminus": lambda p: -p, "conj": lambda p, q: p and q, "implies": lambda p, q: (not p) or q,
            "plus": lambda p, q: p + q, "minus": lambda p, q: p - q, "times": lambda p, q: p * q, "less": lambda p, q: p < q,
            "less_eq": lambda p, q: p <= q, "eq": lambda p, q: p == q, "neq": lambda p, q: p != q}[r["name"]](*vals)
    if ev(res, st) != want:
        viol(ctx, "helper-meaning:%s:%s" % (r["name"], sexp.dumps([s_expr(a) for a in args])),
             "expr.%s returns a condition that is %s at %s, expected %s" % (r["name"], ev(res, st), st, want), r)


def replay(ctx, rp):
    impl = Impl()
    from logic import logic
    replay_one(ctx, impl, logic, rp["replay"])
    for v in ctx.violations:
        print("still fails:", v[1])
    for k, w in ctx.known_hits.items():
        print("still fails (known finding):", w)
    return bool(ctx.violations) or bool(ctx.known_hits)


MANIFEST = {
    "text": "PROVED in Lean (about the executable model lean/Holpy/C20/Model.lean; every program / assertion / state, no bound). "
            "VC generation: vcs_sound (all conditions of get_vcs valid ==> every terminating execution from the precondition ends in the "
            "postcondition), vcg_sound (same for the assumptions of imp.vcg/vcg_norm's theorem), norm_vc_equiv + vcs_equiv_vcsH (the only "
            "simplification, dropping a hypothesis that is literally true, preserves the meaning in every state, so both generators' condition "
            "lists are equi-valid), norm_subst_equiv (evaluating the function update of assign_rule = substitution), vcs_partial_only (PARTIAL "
            "correctness only: all conditions can be valid for a program that never terminates -- neither the code nor the theorems claim "
            "termination), vcg_statement_true + vcg_solve_sound (the HOL statement A1 --> ... --> An --> Valid P c Q that imp.vcg_norm returns is "
            "true, and with every Ai discharged the triple Valid P c Q of library/hoare.json holds). Semantics: eval_Sem_derives + "
            "eval_Sem_total (the derivation imp.eval_Sem assembles from Sem_Skip/Sem_Assign/Sem_seq/Sem_if1/Sem_if2/Sem_while_skip/Sem_while_loop is "
            "a well-formed derivation of Sem c s t in the library's inductive Sem, with t the interpreter's result, whenever the program runs to "
            "completion), exec_deterministic, interp_sound, interp_complete, typed_total, sem_adequate, sem_adequate_ws (the Sem "
            "predicate of library/hoare.json, re-translated each run, coincides with Exec on programs passing the decidable check wsCom; states "
            "are functions with point updates, as in imp.py), hoare_rules_valid, sem_rules_pinned. Printing and reading back, on STRINGS: lex_print, "
            "lex_print_arith, lex_print_com (Lark's standard lexer -- white space skipped, CNAME/INT longest match, keyword retyping, longest "
            "literal -- reads the printed condition / expression / program back as exactly the printer's tokens, for names that are identifiers "
            "and not keywords: nameOK), print_parse_tokens, print_parse_id, print_parse_string, print_parse_sem (str(e) parsed by parser2's lexer and "
            "grammar, as LALR(1) with shift preference reads it, is e again up to the reading of negative constants, hence has the same value in "
            "every state; for every wfC condition), parse_produces_wfC, reparse_of_parsed (every condition the grammar returns is wfC), com_parse_print + com_parse_print_exec (for every program print_com can express -- "
            "printableCom, decidable -- parsing the printed text gives the program back and it executes identically), "
            "seq_after_cond_counterexample (the known finding, proved: a conditional followed by `;` is read back as a different program), "
            "ONE object analysed more than once (Com.pre / Com.post are mutable; compute_wp appends to pre, resets post, prepends I & b to a loop body's pre, "
            "returns pre[0]) -- modelled as ACom.init / setPre / reWp / runOps over the operations obj.pre = [p], compute_wp(q), get_vcs, print_com: "
            "history_vcs_sound_ret + history_vcs_sound (after ANY history in which only reads follow the last compute_wp(q), whatever the earlier "
            "analyses left in the lists: all conditions of get_vcs valid ==> every terminating execution from pre[0] -- the p of the last obj.pre = [p] -- "
            "ends in q), history_fresh (a fresh object analysed once is the vcs_sound case), history_reanalysis_incomplete (proved on a witness: below the top "
            "node nothing is forgotten, a second analysis keeps asking old-wp --> new-wp, so it can return an invalid condition for a true triple: "
            "sound, not complete), history_set_pre_after_wp_counterexample (proved: pre assigned AFTER the last compute_wp discards the top-level "
            "condition -- the reason for the order hypothesis; an order no caller in the repository uses, not counted as a defect). "
            "vcs_in_language + vcs_shown_sem (every VC of a program of the "
            "assertion language is again in it, hence every VC string shown parses back to a condition with the value of the VC computed). "
            "NOT proved: anything about arrays, fields, "
            "forall (convert_hol does not exist for them and get_vcs raises: out of scope); termination. "
            "COMPARED per run, model against code, observable results only: VC strings and VC HOL terms of get_lines/get_vcs (multisets), "
            "the printed VC list of get_vcs after EVERY operation of a history on one real object against the model's vcsTrace (history-trace stream: the "
            "histories of the history stream at the granularity pre = [p] / compute_wp / get_vcs / print_com, 20% of the analyses without resetting pre, 10% "
            "with pre set after compute_wp, plus the witnesses of the two history theorems above), "
            "assumptions of imp.vcg_norm's theorem on triples built as HOL terms (multiset), Op.__str__, print_com text, cond_parser / com_parser "
            "results (valid and token-perturbed strings), token lists of the model lexer and of Lark's lexer on every printed string and on "
            "character-perturbed strings, expression values, interpreter results, eval_Sem final states and the sequence of Sem_* theorems in its proof term (pre-order) against the model's "
            "derivation, the round trip parse(print c) = c of every program the model calls printable in model and code; the decidable hypotheses wfC, namesOK, "
            "nameOK, wsCom, okCom, okE, lexOKc are evaluated by the driver on every generated condition, VC, name, program and cond_parser result. "
            "JUDGED on the implementation's own outputs by the harness' reference evaluator / interpreter on concrete states: (a) VC HOL terms all "
            "true on -3..3 and on every visited state ==> executions from every grid state satisfying the precondition end in the postcondition "
            "(get_vcs; likewise 0..3 for imp.vcg_norm, whose stream includes one-premise near misses of every Hoare rule: the state pinned by the precondition and the postcondition recording the branch NOT taken / one iteration more or less / the parts in another order); (b) each shown VC string re-parsed by the real parser has the value of its HOL term; "
            "generated conditions printed, re-parsed and converted by convert_hol keep their value; expr.neg/conj/implies/... return conditions "
            "with the value of the logical combination; (a') the same on ONE Com object used more than once (histories: print_com / get_lines / get_vcs before the first analysis, two or "
            "three analyses with the same or different specifications, different `vars` contexts, printing in between): the VCs returned for each "
            "analysis are judged against the specification asked for, and every VC a fresh object returns must be returned literally or be "
            "implied along the run (additional valid VCs on re-analysis are tolerated, missing ones are not); (c) eval_Sem's theorem (names of any length, name -> cell mapping observed and required "
            "injective) and vcg_solve-proved triples against execution of the program text.",
    "note": "Trusted: Lean kernel, propext / Classical.choice / Quot.sound; the harness (generators, reference evaluator/interpreter, reader of HOL "
            "terms incl. function updates, hoare.json translator, builder of HOL triples) -- exceptions inside harness code are machinery errors "
            "(exit 2) or `broken`, never verdicts; Lark's LALR tables (the grammar model is tied by differential parsing) and Lark's lexer "
            "construction (the lexer model is tied by differential lexing; the contextual restriction of terminals per parser state is not "
            "modelled, it only matters for keywords used as identifiers, which nameOK excludes); the holpy kernel and Z3 for the theorems "
            "eval_Sem / vcg_solve return. Not modelled: arrays / fields / forall, functions of arity > 2, >=, >, <-->, false in the printed "
            "language (no concrete syntax in parser2; never produced by compute_wp). The mutable analysis state of imperative/ is Com.pre / Com.post (and what get_lines derives from "
            "them): modelled (per-node pre/post lists, reWp) and proved sound for every history ending in compute_wp + reads; compared step by step with the real "
            "object (VC strings) and judged semantically by the history stream. Not modelled for an ANALYSED object: the full text of print_com / get_lines "
            "(VC lines interleaved with program lines; only its VC lines and the fact that printing changes nothing are compared), `vars` contexts, mutation "
            "of fields other than pre (b, inv, c1 ...), pre set to a list of length != 1. "
            "Known finding: print_com cannot express a sequence whose "
            "first part ends in a conditional. Parts of imperative/ and its callers touched by NO theorem and NO stream: the Lark grammar "
            "of imperative/parser.py itself (parser1; its results are used by the eval_Sem / vcg_solve streams, whose generator only emits the "
            "right-nested trees that grammar returns, but the grammar is not modelled); parser.process_file / parser2.process_file and "
            "imperative/examples/test.json (file drivers, run by the repository's own tests); the macro / method / tactic wrappers in imp.py "
            "(eval_Sem_macro.can_eval/get_proof_term, eval_Sem_method, vcg_macro, vcg_tactic, vcg_method: they call eval_Sem / vcg_norm, which "
            "are covered, but their own argument handling is not); expr.ArrayElt / Field / Forall and 'int array' contexts; app/imperative.py "
            "(JSON interface: parses with parser2, prints with print_com / get_lines, forwards proofs to the server).",
    "design_ref": "DESIGN.md 8.11",
}
FINDINGS = [
    {"status": "fixed", "key": "print-parse-meaning:a - b - c == 0", "commit": "e5b8a6c",
     "what": "Op.__str__ dropped parentheses parser2 needs: (a - b) - c printed 'a - b - c' (read back as a - (b - c)), (a * b) + c printed "
             "'a * b + c' (read back as a * (b + c)), ~(A & B) printed '~A & B', (A --> B) --> C printed 'A --> B --> C', (-a) + b printed "
             "'-a + b' (read back as -(a + b)); VCs shown to and re-parsed from the user could mean something else than the VCs computed"},
    {"status": "fixed", "key": "parse-raise:AssertionError:while (a == b) { x := 1 }", "commit": "f2035af",
     "what": "parser2 passed the HOL constant true as loop invariant, so every 'while (b) { c }' without invariant raised AssertionError"},
    {"status": "fixed", "key": "vcs-raise:TypeError:const-true-under-connective", "commit": "5c9f2be",
     "what": "Const(True).convert_hol returned an imperative expression (module-level `true` is rebound in expr.py); get_vcs raised TypeError for "
             "every VC with `true` below a connective, e.g. any loop with invariant true"},
    {"status": "fixed", "key": "print-unparsable:vc-with-semicolon", "commit": "5bd7ab4",
     "what": "get_lines appended the ';' of a sequence to the last line, which after a loop is the VC 'I & ~b --> Q': get_vcs returned "
             "'... --> Q;', rejected by cond_parser, and print_com showed '}' without ';'"},
    {"status": "known", "key": "print-com:seq-after-cond",
     "what": "print_com has no way to close an else-branch: Seq(Cond(b,c1,c2),c3) prints like Cond(b,c1,Seq(c2,c3)) and com_parser reads it "
             "so (programs only; conditions are unaffected; parser2 cannot produce such a tree)"},
]
