"""C13 — proof editing preserves the goal and keeps the partial proof checkable.

Stages: (1) Lean obligations (Holpy.C13.Props) + driver; (2) property oracle on the real
`server.method` / `server.server` code: goals from library theorems and generated ones, edit
sequences from recorded steps, `search_method` suggestions and random perturbation, each applied to
the live state or to a `copy.copy`; after every completed step the invariants of the property are
evaluated on the real objects; (3) correspondence: every primitive structural operation the real
run performed (`add_line_before`, `remove_line`, `set_line`, `replace_id`, `apply_tactic`,
`introduction`'s subproof splice) is replayed on the Lean model with the same structural input
(tactic results are passed as *shapes*: the exported new lines with relative ids, citations, gap
flags, sequent codes) and the resulting line structure is compared.
"""
import ast
import copy
import json
import os

from harness.common import sexp
from harness.common.ctx import Timeout, time_limit

EXE = "c13_model"
PROPS = ["Holpy.C13.Props", "Holpy.C13.Props2", "Holpy.C13.Props3", "Holpy.C13.Props4", "Holpy.C13.Props5"]

THEORIES_QUICK = ["logic_base", "logic", "function", "list", "hoare", "nat", "set"]
THEORIES_THOROUGH = ["logic_base", "logic", "function", "list", "hoare", "nat", "set", "expr", "topology"]

# theorems the method machinery itself cites (parse_init_state's `intros`, cases, exists/forall steps):
# a theory "contains the base logic" once these are present
BASE_LOGIC = ["trivial", "classical_cases", "exI", "exE", "negE", "falseE"]
STEP_LIMIT = 20          # seconds for one method application / one re-check


# ====================================================================== library access
def theory_items(name):
    """Yield the theorem items of library theory `name`, each at the point of the theory where
    it is stated (the theory holds everything *before* the theorem), as server/monitor.py does."""
    from kernel import theory
    from logic import basic
    from server import items
    data = basic.load_json_data(name, "master")
    basic.load_theory(name, limit="start")
    for raw in data["content"]:
        item = items.parse_item(raw)
        if item.error:
            continue
        exts = item.get_extension()
        if item.ty == "thm" and all(theory.thy.has_theorem(t) for t in BASE_LOGIC):
            yield item
        theory.thy.unchecked_extend(exts)


class Goal:
    """A stated goal: theory + (theorem name | generated statement)."""

    def __init__(self, thy, name, vars, prop, steps=None, generated=False):
        self.thy, self.name, self.vars, self.prop = thy, name, vars, prop
        self.steps = steps or []
        self.generated = generated

    def ident(self):
        return "%s.%s" % (self.thy, self.name)

    def to_json(self):
        d = {"theory": self.thy, "name": self.name, "generated": self.generated}
        if self.generated:
            d["vars"] = self.vars
            d["prop"] = self.prop
        return d

    def set_context(self):
        from logic import context
        context.set_context(None, vars=self.vars)

    def init_state(self):
        from server import server
        self.set_context()
        return server.parse_init_state(self.prop)


# ====================================================================== structure of a state
def walk(state):
    """[(position tuple, item)] in checker order (a line before the lines of its subproof)."""
    out = []

    def rec(prf, prefix):
        for i, it in enumerate(prf.items):
            pos = prefix + (i,)
            out.append((pos, it))
            if it.subproof is not None:
                rec(it.subproof, pos)
    rec(state.prf, ())
    return out


def args_str(it):
    try:
        return it.print_str_args() if it.args else ""
    except Exception as e:  # noqa
        return "<unprintable %s>" % type(e).__name__


def cell_text(obj):
    try:
        return repr(obj)
    except Exception as e:  # noqa
        return "<unprintable %s>" % type(e).__name__


def structure_objects(state):
    """Identities of the mutable objects that make up the line structure of a state."""
    out = set()

    def rec(prf):
        out.add(id(prf))
        out.add(id(prf.items))
        for it in prf.items:
            out.add(id(it))
            out.add(id(it.prevs))
            if it.subproof is not None:
                rec(it.subproof)
    rec(state.prf)
    return out


def arg_cells(state):
    """The argument objects reachable from a state, by identity, with their content."""
    return {id(it.args): (it.args, cell_text(it.args)) for _, it in walk(state) if it.args is not None}


def snapshot(state):
    """Deep structural snapshot: ids, rules, citations (copied), sequents (immutable objects,
    compared with ==), printed arguments, presence of a subproof; plus the declared variables."""
    lines = tuple((pos, it.id.id, it.rule, tuple(p.id for p in it.prevs), it.th, args_str(it), it.subproof is not None)
                  for pos, it in walk(state))
    return (tuple((v.name, v.T) for v in state.vars), lines, rpt_sig(state))


def rpt_sig(state):
    """What is observable of `state.rpt` (ProofState.__copy__ only shallow-copies the report, and
    json_data reads rpt.gaps): the gap list and the counters / name sets."""
    r = getattr(state, "rpt", None)
    if r is None:
        return None
    try:
        return (tuple(r.gaps), r.steps, r.thm_steps, r.prim_steps, r.macro_steps,
                tuple(sorted(r.th_names)), tuple(sorted(r.macros_eval)), tuple(sorted(r.macros_expand)))
    except Exception as e:  # noqa
        return ("unreadable", type(e).__name__)


def show_snapshot(snap, limit=60):
    out = []
    for pos, iid, rule, prevs, th, args, sub in snap[1][:limit]:
        out.append("%s [id %s]: %s by %s %s from %s%s" % (".".join(map(str, pos)), ".".join(map(str, iid)), th, rule, args,
                                                         ",".join(".".join(map(str, p)) for p in prevs), " {subproof}" if sub else ""))
    return out


def structure(state):
    """Pure structure for the model: (position, id, rule, prevs, sorry?, has subproof)."""
    return [(pos, it.id.id, it.rule, tuple(p.id for p in it.prevs)) for pos, it in walk(state)]


def visible(p, q):
    """Independent statement of 'line at position q may cite line at position p'."""
    n = len(p)
    return 0 < n <= len(q) and p[:n - 1] == q[:n - 1] and p[n - 1] < q[n - 1]


def sorry_lines(state):
    return [(pos, it) for pos, it in walk(state) if it.rule == "sorry"]


# ====================================================================== invariants (the property)
def check_invariants(goal, state, goal_th, do_export=True):
    """Evaluate the property on a real state.  Returns a list of (invariant-class, detail)."""
    from kernel import theory
    from server import server
    from syntax.settings import global_setting
    bad = []
    lines = walk(state)
    positions = {pos for pos, _ in lines}
    # 1. contiguous numbering: every line carries the id of the position it sits at
    for pos, it in lines:
        if it.id.id != pos:
            bad.append(("numbering", "line at position %s carries id %s" % (pos, it.id.id)))
            break
    # 2. citations: earlier visible existing lines
    for pos, it in lines:
        for p in it.prevs:
            if not isinstance(p.id, tuple) or p.id not in positions:
                bad.append(("citation-dangling", "line %s cites %s which does not exist" % (pos, p.id)))
            elif not visible(p.id, pos):
                bad.append(("citation-not-visible", "line %s cites %s which is not an earlier visible line" % (pos, p.id)))
    # 3. the last line is the original sequent
    if not state.prf.items:
        bad.append(("goal-lost", "empty proof"))
        return bad
    last = state.prf.items[-1]
    if last.th != goal_th or last.rule != "intros":
        bad.append(("goal-changed", "last line is `%s by %s`, stated goal `%s`" % (last.th, last.rule, goal_th)))
    if bad:
        return bad
    # 4. a full re-check succeeds with exactly the open gaps unproved
    before = snapshot(state)
    chk = copy.copy(state)
    sorrys = [it.th for _, it in lines if it.rule == "sorry"]
    try:
        with time_limit(STEP_LIMIT * 3):
            res = chk.check_proof()
    except Timeout:
        return [("timeout", "full re-check")]
    except Exception as e:  # noqa
        bad.append(("recheck-fails", "%s: %s" % (type(e).__name__, short(e))))
        return bad
    if res != goal_th:
        bad.append(("recheck-other-result", "re-check returns `%s`, stated goal `%s`" % (res, goal_th)))
    if list(chk.rpt.gaps) != sorrys:
        bad.append(("gaps-differ", "re-check reports gaps %s, open sorry lines %s" % ([str(g) for g in chk.rpt.gaps], [str(g) for g in sorrys])))
    if snapshot(state) != before:
        bad.append(("copy-aliasing", "re-checking a copy changed the state it was copied from"))
    # 5. no gap left: accepted with gaps disallowed
    if not sorrys:
        chk2 = copy.copy(state)
        try:
            with time_limit(STEP_LIMIT * 3):
                res2 = chk2.check_proof(no_gaps=True)
            if res2 != goal_th:
                bad.append(("final-other-result", "no_gaps check returns `%s`" % res2))
        except Timeout:
            return [("timeout", "no_gaps re-check")]
        except Exception as e:  # noqa
            bad.append(("final-check-fails", "%s: %s" % (type(e).__name__, short(e))))
    if bad or not do_export:
        return bad
    # 6. export -> import
    try:
        if state.rpt is None:
            bad.append(("export-fails", "state has no report after a completed operation"))
            return bad
        data = state.json_data()
        with global_setting(unicode=True):
            exp1 = state.export_proof()
    except Exception as e:  # noqa
        bad.append(("export-fails", "%s: %s" % (type(e).__name__, short(e))))
        return bad
    if data["num_gaps"] != len(sorrys):
        bad.append(("export-num-gaps", "exported num_gaps=%s, open sorry lines %s" % (data["num_gaps"], len(sorrys))))
    plain = [{k: l[k] for k in ("id", "th", "rule", "args", "prevs")} for l in data["proof"]]
    if plain != exp1:
        bad.append(("export-unstable", "json_data()['proof'] differs from export_proof()"))
    try:
        goal.set_context()
        with time_limit(STEP_LIMIT * 3):
            st2 = server.parse_proof(copy.deepcopy(data["proof"]))
    except Timeout:
        return [("timeout", "import")]
    except Exception as e:  # noqa
        cause = diagnose_import(goal, state, data["proof"])
        bad.append(("import-fails" + (":" + cause if cause else ""), "%s: %s" % (type(e).__name__, short(e))))
        goal.set_context()
        return bad
    goal.set_context()
    enc = IMPORT_ENCODER
    if enc is not None and len(enc.import_records) < enc.limit // 4:
        # stream `import`: the structural model of export_proof / parse_proof against the real pair
        try:
            lines_ = [[list(it.id.id), enc.rcode(it.rule), [list(p.id) for p in it.prevs], enc.th(it.th)] for _, it in walk(state)]
            real = ["ok", enc.state(st2)]
            enc.import_records.append(("import", ["import", lines_], real))
            enc.import_records.append(("roundtrip", ["roundtrip", enc.state(state)], real))
        except Exception:  # noqa
            enc.skipped += 1
    l1, l2 = snapshot(state)[1], snapshot(st2)[1]
    if len(l1) != len(l2):
        bad.append(("import-differs", "%d lines exported, %d lines imported" % (len(l1), len(l2))))
    else:
        for a, b in zip(l1, l2):
            # position, id, rule, citations, subproof flag must agree exactly; the stated sequent as an object
            if a[:4] != b[:4] or a[6] != b[6]:
                bad.append(("import-differs", "line %s: exported %s, imported %s" % (a[0], a[1:4], b[1:4])))
                break
            if a[4] is not None and a[4] != b[4]:
                bad.append(("import-differs", "line %s: stated sequent `%s` re-imported as `%s`" % (a[0], a[4], b[4])))
                break
        with global_setting(unicode=True):
            exp2 = st2.export_proof()
        if not bad and [(l["id"], l["rule"], l["args"], l["prevs"]) for l in exp1] != [(l["id"], l["rule"], l["args"], l["prevs"]) for l in exp2]:
            k = next(i for i in range(len(exp1)) if exp1[i] != exp2[i])
            bad.append(("import-differs", "printed line %s: exported %s, after re-import %s" % (exp1[k]["id"], exp1[k], exp2[k])))
    if not bad:
        # same check result
        try:
            res3 = st2.check_proof()
            if res3 != goal_th or list(st2.rpt.gaps) != sorrys:
                bad.append(("import-other-result", "re-imported proof checks to `%s` with gaps %s" % (res3, [str(g) for g in st2.rpt.gaps])))
        except Exception as e:  # noqa
            bad.append(("import-recheck-fails", "%s: %s" % (type(e).__name__, short(e))))
    return bad


def diagnose_import(goal, state, exported):
    """Why can an exported proof not be read back?  Re-reads the exported lines one by one the way
    server.parse_proof does and names two known causes exactly (anything else stays unnamed, so a
    different failure keeps its own key):
      shadowed-variable  -- the line mentions a variable at a type other than the one in scope there
                            (a `variable` line of a subproof re-declares a variable of the context
                            that the subproof's lines still mention);
      inst-tyinst-lost   -- an Inst argument carries a type instantiation, which the textual form
                            `{x: t, ...}` drops."""
    from kernel.term import Inst
    from logic import context
    from syntax import parser
    lines_ = walk(state)
    items = [it for _, it in lines_]

    def shadowed(k):
        """Does line k mention a variable at a type other than the one in scope there (the context
        variables, then the `variable` lines visible from it, the innermost last)?  Then one name
        would need two types in one line of text.  Two declarations of a name in scopes that do
        not overlap (sibling subproofs) are NOT this case: such a proof has to read back."""
        pos, it = lines_[k]
        scope = {v.name: v.T for v in state.vars}
        for p2, it2 in lines_:
            if it2.rule == "variable" and it2.args and (p2 == pos or visible(p2, pos)):
                scope[it2.args[0]] = it2.args[1]
        if it.th is None:
            return False
        for t in (it.th.prop,) + tuple(it.th.hyps):
            for v in t.get_vars():
                if v.name in scope and scope[v.name] != v.T:
                    return True
        return False
    tyinst_lost = False
    goal.set_context()
    try:
        for k_, (line, it) in enumerate(zip(exported, items)):
            line = {k: line[k] for k in ("id", "th", "rule", "args", "prevs")}
            try:
                if line["rule"] == "variable":
                    nm, str_T = line["args"].split(",", 1)
                    context.ctxt.vars[nm] = parser.parse_type(str_T.strip())
                it2 = parser.parse_proof_rule(line)
            except Exception:  # noqa
                return "shadowed-variable" if shadowed(k_) else None
            if it2.args != it.args or (isinstance(it.args, tuple) and any(isinstance(a, Inst) for a in it.args)):
                a1 = [a for a in (it.args if isinstance(it.args, tuple) else (it.args,)) if isinstance(a, Inst)]
                a2 = [a for a in (it2.args if isinstance(it2.args, tuple) else (it2.args,)) if isinstance(a, Inst)]
                if a1 and a2 and any(x.tyinst and dict(x.tyinst) != dict(y.tyinst) and dict(x) == dict(y) for x, y in zip(a1, a2)):
                    tyinst_lost = True         # explains a failing re-check only if every line reads back
            if it2.th != it.th and it.th is not None:
                return "shadowed-variable" if shadowed(k_) else None
        if tyinst_lost:
            return "inst-tyinst-lost"
    finally:
        goal.set_context()
    return None


def short(e, n=160):
    try:
        s = str(e)
    except Exception:  # noqa
        s = repr(e)
    s = " ".join(s.split())
    return s[:n]


def err_class(detail):
    """Stable class of an error text for violation keys (first words, digits removed)."""
    import re
    words = re.sub(r"[0-9]+", "#", detail).split()
    return "_".join(words[:4])[:60]


# ====================================================================== step generation
def closed_subterms(t, acc, limit=200):
    """Closed (no loose bound variable) subterms of t with their types, preorder."""
    stack = [t]
    while stack and len(acc) < limit:
        s = stack.pop()
        try:
            if not s.is_open() and not s.is_VAR() and not s.is_const("_VAR"):
                acc.append(s)
        except Exception:  # noqa
            pass
        if s.is_comb():
            stack.append(s.arg)
            stack.append(s.fun)
        elif s.is_abs():
            stack.append(s.body)
    return acc


def term_pool(state, goal_pos):
    """Closed subterms of the goal and of the lines visible from it, plus context variables."""
    from kernel.term import Var
    pool = []
    for pos, it in walk(state):
        if it.th is not None and (pos == goal_pos or visible(pos, goal_pos)):
            closed_subterms(it.th.prop, pool)
    try:
        for nm, T in state.get_vars(goal_pos).items():
            pool.append(Var(nm, T))
    except Exception:  # noqa
        pass
    seen, out = set(), []
    for t in pool:
        if t not in seen:
            seen.add(t)
            out.append(t)
    return out


def typed(pool, T):
    out = []
    for t in pool:
        try:
            if t.get_type() == T:
                out.append(t)
        except Exception:  # noqa
            pass
    return out


def pr(t):
    """Print a term in the ASCII syntax the methods parse."""
    from syntax.settings import global_setting
    from syntax import printer
    with global_setting(unicode=False, highlight=False):
        return printer.print_term(t)


def id_str(pos):
    return ".".join(str(i) for i in pos)


def fresh_names(state, goal_pos, n, rng):
    """Names not declared anywhere in the state (also not in lines after the goal or in other
    subproofs: a name is never declared twice in one proof)."""
    used = {v.name for v in state.vars}
    for _, it in walk(state):
        if it.rule == "variable" and it.args:
            used.add(it.args[0])
        if it.th is not None:
            try:
                used.update(v.name for v in it.th.prop.get_vars())
            except Exception:  # noqa
                pass
    out = []
    # a name declared in a scope that does not overlap with this one (sibling subproof) may be used
    # again, at another type too: a user does that (`x` in both cases of a proof)
    if rng.random() < 0.35:
        vis_names = {v.name for v in state.vars}
        for pos, it in walk(state):
            if it.rule == "variable" and it.args and (pos == goal_pos or visible(pos, goal_pos)):
                vis_names.add(it.args[0])
        try:
            for t in [state.get_proof_item(goal_pos).th.prop] + list(state.get_proof_item(goal_pos).th.hyps):
                vis_names.update(v.name for v in t.get_vars())
        except Exception:  # noqa
            pass
        def closed_earlier_scope(pos):
            # declared inside the subproof of an EARLIER sibling of the goal line (or of one of its
            # ancestors): that scope is closed where the goal is
            for d in range(min(len(pos), len(goal_pos))):
                if pos[d] != goal_pos[d]:
                    return pos[d] < goal_pos[d] and len(pos) > d + 1
            return False
        sib = sorted({it.args[0] for pos, it in walk(state) if it.rule == "variable" and it.args
                      and closed_earlier_scope(pos)} - vis_names)
        rng.shuffle(sib)
        while sib and len(out) < n:
            out.append(sib.pop())
        used.update(out)
    base = rng.choice(["u", "v", "w", "k", "z"])
    i = 0
    while len(out) < n:
        nm = base if i == 0 else "%s%d" % (base, i)
        i += 1
        if nm not in used:
            used.add(nm)
            out.append(nm)
    return out


def clash_names(state, goal_pos, fact_pos=None):
    """Names declared by `variable` lines visible from `goal_pos`, those declared after the line
    `fact_pos` (between a cited fact and the goal) first and three times as likely; then the
    variables of the state."""
    out = []
    for pos, it in walk(state):
        if it.rule == "variable" and it.args and visible(pos, goal_pos):
            after_fact = fact_pos is not None and not (pos == fact_pos or visible(pos, fact_pos))
            out += [it.args[0]] * (3 if after_fact else 1)
    return out + sorted(v.name for v in state.vars)[:2]


def visible_facts(state, goal_pos):
    return [pos for pos, it in walk(state) if visible(pos, goal_pos) and it.th is not None]


def count_binders(t, which):
    n = 0
    while (t.is_forall() if which == "forall" else t.is_exists()):
        n += 1
        t = t.arg.body
    return n


# C13's own generator also tries witness names that are already declared (they must be refused); C14 applies
# search_method suggestions, where a failure caused by such a name would be the harness's guess at fault: it switches this off
NEAR_MISS_NAMES = True


def fill_params(state, sugg, rng, query=None):
    """Supply the parameters a suggestion leaves open: those the method declares (`sig`) and, after
    a ParameterQueryException, those it names.  Type-directed guesses from the terms at hand.
    Returns the completed step or None when no guess of the right type exists."""
    from kernel.type import BoolType
    from server import method as M
    step = dict((k, v) for k, v in sugg.items() if not k.startswith("_") and k != "display")
    name = step["method_name"]
    goal_pos = tuple(int(s) for s in str(step["goal_id"]).split("."))
    facts = [tuple(int(s) for s in f.split(".")) for f in step.get("fact_ids", [])]
    m = M.global_methods[name]
    it = state.get_proof_item(goal_pos)
    pool = None
    need = [p for p in m.sig if p not in step] + [p for p in (query or []) if p not in step]
    for p in need:
        if pool is None:
            pool = term_pool(state, goal_pos)
        if name == "introduction" and p == "names":
            prop = it.th.prop
            # one name per leading !-binder (strip_all_implies takes them as it goes down)
            nb, t = 0, prop
            while t.is_forall() or t.is_implies():
                if t.is_forall():
                    nb += 1
                    t = t.arg.body
                else:
                    t = t.arg
            step["names"] = ", ".join(fresh_names(state, goal_pos, nb, rng))
        elif name == "exists_elim" and p == "names":
            fth = state.get_proof_item(facts[0]).th
            nb = count_binders(fth.prop, "exists")
            names = fresh_names(state, goal_pos, nb, rng)
            if names and NEAR_MISS_NAMES and rng.random() < 0.12:
                # near miss: a name that is already declared where the witnesses go (must be refused)
                clash = clash_names(state, goal_pos, facts[0])
                if clash:
                    names[rng.randrange(len(names))] = rng.choice(clash)
            step["names"] = ", ".join(names)
        elif name == "forall_elim" and p == "s":
            fth = state.get_proof_item(facts[0]).th
            cands = typed(pool, fth.prop.arg.var_T)
            if not cands:
                return None
            step["s"] = pr(rng.choice(cands))
        elif name == "inst_exists_goal" and p == "s":
            cands = typed(pool, it.th.prop.arg.var_T)
            if not cands:
                return None
            step["s"] = pr(rng.choice(cands))
        elif name == "induction" and p == "var":
            from kernel import theory
            th = theory.get_theorem(step["theorem"])
            var_T = th.concl.arg.T
            vs = [v for v in it.th.prop.get_vars() if v.T == var_T]
            if not vs:
                return None
            step["var"] = rng.choice(vs).name
        elif p.startswith("param_") and name == "apply_forward_step" and rng.random() < 0.5:
            step[p] = ""          # blank = keep the variable general (what the suggestion advertised)
        elif p.startswith("param_"):
            T = param_type(state, step, p[6:], goal_pos, facts)
            cands = typed(pool, T) if T is not None else []
            if not cands:
                return None
            step[p] = pr(rng.choice(cands))
        elif name in ("cut", "cases"):
            cands = typed(pool, BoolType)
            if not cands:
                return None
            step[p] = pr(rng.choice(cands))
        elif name == "new_var":
            if p == "name":
                step["name"] = fresh_names(state, goal_pos, 1, rng)[0]
            else:
                step["type"] = rng.choice(["bool", "nat", "'a"]) if rng.random() < 0.8 else "'a => bool"
        elif p == "sym":
            step["sym"] = rng.choice(["true", "false"])
        elif p == "theorem":
            return None
        else:
            return None
    return step


def param_type(state, step, var_name, goal_pos, facts):
    """Type expected for `param_<var_name>`: the schematic variable of the theorem, or the bound
    variable of the cited fact, instantiated as far as matching the goal/facts determines it."""
    from kernel import theory
    from logic import logic, matcher
    from kernel.term import Inst
    name = step["method_name"]
    try:
        if name in ("apply_backward_step", "apply_forward_step"):
            th = theory.get_theorem(step["theorem"])
            sv = [v for v in th.prop.get_svars() if v.name == var_name]
            if not sv:
                return None
            T = sv[0].T
            inst = Inst()
            try:
                if name == "apply_backward_step":
                    inst = matcher.first_order_match(th.concl, state.get_proof_item(goal_pos).th.prop, inst)
                for pat, f in zip(th.assums, facts):
                    inst = matcher.first_order_match(pat, state.get_proof_item(f).th.prop, inst)
            except Exception:  # noqa
                pass
            return T.subst(inst.tyinst) if inst.tyinst else T
        if name == "apply_prev":
            fth = state.get_proof_item(facts[0]).th
            names = logic.get_forall_names(fth.prop)
            vars_, As, C = logic.strip_all_implies(fth.prop, names)
            for v in vars_:
                if v.name == var_name:
                    return v.T
    except Exception:  # noqa
        return None
    return None


def random_step(state, rng, kind=None, goal_pos=None):
    """One perturbation step: interleaved cut/cases/intro/forall_elim/exists_elim/revert/rewrite/...
    aimed at a random gap (sometimes at a line that is not a gap, or at no line at all)."""
    from kernel.type import BoolType
    lines = walk(state)
    gaps = [pos for pos, it in lines if it.rule == "sorry"]
    r = rng.random()
    forced = kind
    if goal_pos is not None:
        pass
    elif gaps and r < 0.86:
        goal_pos = rng.choice(gaps)
    elif r < 0.95 or not lines:
        goal_pos = rng.choice(lines)[0] if lines else (0,)
    else:
        goal_pos = rng.choice(lines)[0][:-1] + (rng.randint(0, 12),)
    vis = visible_facts(state, goal_pos)
    kind = rng.choice(["cut", "cut", "cases", "introduction", "introduction", "forall_elim", "exists_elim", "revert_intro",
                       "revert_intro", "rewrite_goal_with_prev", "apply_prev", "apply_fact", "new_var", "inst_exists_goal",
                       "rewrite_fact_with_prev", "search", "search", "search"])
    if forced is not None:
        kind = forced
    step = {"method_name": kind, "goal_id": id_str(goal_pos), "fact_ids": []}
    try:
        it = state.get_proof_item(goal_pos)
    except Exception:  # noqa
        it = None
    if kind == "search":
        k = rng.choice([0, 0, 1, 1, 2, 3])
        facts = rng.sample(vis, min(k, len(vis)))
        try:
            if SEARCH_HOOK is not None:
                SEARCH_HOOK(state, goal_pos, facts)
            with time_limit(STEP_LIMIT):
                res = state.search_method(id_str(goal_pos), [id_str(f) for f in facts])
        except Timeout:
            raise
        except Exception:  # noqa
            return None
        if not res:
            return None
        s = fill_params(state, rng.choice(res), rng)
        return s
    if kind in ("forall_elim", "exists_elim"):
        want = "forall" if kind == "forall_elim" else "exists"
        good = [f for f in vis if (state.get_proof_item(f).th.prop.is_forall() if want == "forall" else state.get_proof_item(f).th.prop.is_exists())]
        if good and rng.random() < 0.85:
            step["fact_ids"] = [id_str(rng.choice(good))]
        elif vis:
            step["fact_ids"] = [id_str(rng.choice(vis))]
        else:
            return None
    elif kind == "revert_intro":
        ass = [f for f in vis if state.get_proof_item(f).rule == "assume"]
        # the documented use: the gap is followed by the line that discharges the assumption
        if ass and rng.random() < 0.85:
            step["fact_ids"] = [id_str(rng.choice(ass))]
        elif vis:
            step["fact_ids"] = [id_str(rng.choice(vis))]
        else:
            return None
    elif kind in ("rewrite_goal_with_prev", "rewrite_fact_with_prev"):
        eqs = [f for f in vis if state.get_proof_item(f).th.prop.is_equals()]
        src = eqs if eqs and rng.random() < 0.8 else vis
        if not src:
            return None
        k = 1 if kind == "rewrite_goal_with_prev" else 2
        step["fact_ids"] = [id_str(rng.choice(src)) for _ in range(k)]
    elif kind in ("apply_prev", "apply_fact"):
        if not vis:
            return None
        k = rng.choice([1, 1, 2, 3])
        step["fact_ids"] = [id_str(f) for f in rng.sample(vis, min(k, len(vis)))]
    if it is None or it.th is None:
        # aimed at nothing: still a legitimate request that must fail cleanly or complete
        if kind in ("cut", "cases"):
            step["goal" if kind == "cut" else "case"] = "A"
        return step
    try:
        return fill_params(state, step, rng)
    except Exception:  # noqa
        return None


def perturb(step, state, rng):
    """A recorded step with another goal id / other facts."""
    s = dict(step)
    lines = walk(state)
    gaps = [pos for pos, it in lines if it.rule == "sorry"]
    r = rng.random()
    if r < 0.5 and gaps:
        s["goal_id"] = id_str(rng.choice(gaps))
    elif r < 0.6 and lines:
        s["goal_id"] = id_str(rng.choice(lines)[0])
    goal_pos = tuple(int(x) for x in str(s["goal_id"]).split("."))
    vis = visible_facts(state, goal_pos)
    if rng.random() < 0.6 and vis:
        k = max(1, len(step.get("fact_ids") or [])) if rng.random() < 0.7 else rng.randint(0, 3)
        s["fact_ids"] = [id_str(f) for f in rng.sample(vis, min(k, len(vis)))]
    elif rng.random() < 0.1 and lines:
        s["fact_ids"] = [id_str(rng.choice(lines)[0])]      # possibly not visible: must be refused
    return s


IMPORT_ENCODER = None     # the Recorder of the run (stream `import`)
METHOD_MODELLED = {"cut", "forall_elim", "apply_fact", "new_var", "cases", "introduction", "revert_intro",
                   "rewrite_fact", "rewrite_fact_with_prev", "apply_forward_step"}
# forward methods that look afterwards whether the goal is now proved by an earlier line (forwardCloseM)
METHOD_FORWARD_CLOSE = {"rewrite_fact", "rewrite_fact_with_prev", "apply_forward_step"}
SEARCH_HOOK = None        # C14 logs the searches the step generator makes (replay of history-dependent failures)
CURRENT_RUNNER = None


# ====================================================================== running a sequence
class Runner:
    """Runs one edit sequence on one goal, judging every completed step."""

    def __init__(self, ctx, goal, rng, export_rate=1.0, recorder=None, observer=None, judge_states=True):
        self.ctx, self.goal, self.rng = ctx, goal, rng
        self.export_rate = export_rate
        self.recorder = recorder
        self.observer = observer           # called with (runner, state) on every reached state (C14)
        self.judge_states = judge_states
        global CURRENT_RUNNER
        CURRENT_RUNNER = self
        self.trail = []          # [{"step":…, "on_copy":bool, "adopt":bool, "outcome":…}]
        self.frozen = []         # earlier copies with their snapshots: must never change
        self.state = goal.init_state()
        self.goal_th = self.state.prf.items[-1].th
        self.dead = False
        self.judge(self.state, "init", None)
        if self.observer is not None:
            self.observer(self, self.state)

    # -------------------------------------------------------------- reporting
    def replay_dict(self, extra=None):
        d = {"goal": self.goal.to_json(), "trail": [dict(t) for t in self.trail]}
        if extra:
            d.update(extra)
        return d

    def report(self, cls, detail, method_name, state=None):
        cause = getattr(self, "cause", None)
        if cause and cls in ("recheck-fails", "final-check-fails", "recheck-other-result"):
            cls = "%s:%s" % (cls, cause)
            key = "%s:%s" % (cls, method_name)
            what = "%s after %s on %s: %s" % (cls, method_name, self.goal.ident(), detail)
            rp = self.replay_dict({"invariant": cls, "detail": detail})
            self.ctx.violation(key, what, rp)
            self.ctx.count("violation:" + cls)
            return
        if cls.startswith("import-fails:"):
            key = cls                      # a diagnosed cause: independent of the step that exposed it
        else:
            key = "%s:%s:%s" % (cls, method_name, err_class(detail))
        what = "%s after %s on %s: %s" % (cls, method_name, self.goal.ident(), detail)
        rp = self.replay_dict({"invariant": cls, "detail": detail})
        if state is not None:
            try:
                rp["state"] = show_snapshot(snapshot(state))
            except Exception:  # noqa
                pass
        self.ctx.violation(key, what, rp)
        self.ctx.count("violation:" + cls)

    def judge(self, state, method_name, step):
        if not self.judge_states:
            return True
        do_export = self.export_rate >= 1.0 or self.rng.random() < self.export_rate
        try:
            bad = check_invariants(self.goal, state, self.goal_th, do_export=do_export)
        except Timeout:
            bad = [("timeout", "invariants")]
        if bad and bad[0][0] == "timeout":
            self.ctx.count("timeout:" + bad[0][1])
            self.dead = True
            return False
        for cls, detail in bad[:2]:
            self.report(cls, detail, method_name, state)
        if bad:
            self.dead = True     # everything after a broken state is noise
        return not bad

    # -------------------------------------------------------------- one step
    def apply(self, step, on_copy=False, adopt=True, source=""):
        """Apply `step` to the live state or to a copy.  Returns 'ok' | 'query' | 'fail' | 'crash' | 'timeout'."""
        from kernel import theory
        from server import method
        if self.dead:
            return "dead"
        ctx = self.ctx
        self.goal.set_context()
        before = snapshot(self.state)
        target = copy.copy(self.state) if on_copy else self.state
        cells = arg_cells(self.state) if on_copy else None     # stream `alias`
        mrec = None                                            # stream `method:*` (method-level model of C14)
        if self.recorder is not None and step.get("method_name") in METHOD_MODELLED \
                and len(self.recorder.method_records) < self.recorder.limit:
            try:
                mrec = (self.recorder.state(target), len(self.recorder.records))
                self.recorder.intro_capture = [] if step.get("method_name") == "introduction" else None
                self.recorder.revert_th = None
                if step.get("method_name") == "revert_intro":
                    from kernel.thm import Thm
                    g_ = target.get_proof_item(tuple(int(x) for x in str(step["goal_id"]).split(".")))
                    f_ = target.get_proof_item(tuple(int(x) for x in step["fact_ids"][0].split(".")))
                    self.recorder.revert_th = self.recorder.th(Thm.implies_intr(f_.th.prop, g_.th))
            except Exception:  # noqa
                mrec = None
        if on_copy:
            shared = sum(1 for _, it in walk(target) if it.args is not None and id(it.args) in cells)
            ctx.count("alias:args-objects-shared-with-the-copy", shared)
            # the mutable structure (Proof objects, ProofItem objects, their prevs lists) must be the
            # copy's own: the aliasing model shares argument objects only
            own = structure_objects(self.state)
            both = [k for k in structure_objects(target) if k in own]
            if both:
                ctx.count("alias:structure-shared-with-the-copy", len(both))
                if not getattr(ctx, "_alias_structure_reported", False):
                    ctx._alias_structure_reported = True
                    ctx.broken("correspondence:c13:alias-structure",
                               "copy.copy(state) shares %d Proof/ProofItem/prevs object(s) with the original on %s after %d steps "
                               "(the model copies the whole line structure)" % (len(both), self.goal.ident(), len(self.trail)))
        entry = {"step": clean_step(step), "on_copy": on_copy, "adopt": adopt, "source": source}
        outcome, err = "ok", None
        self.cause = step_cause(self.state, step)
        try:
            with time_limit(STEP_LIMIT):
                method.apply_method(target, copy.deepcopy(step))
        except Timeout:
            outcome = "timeout"
        except theory.ParameterQueryException as e:
            outcome, err = "query", e
        except (TypeError, AttributeError, IndexError, KeyError, RecursionError, NotImplementedError, ValueError) as e:
            outcome, err = "crash", e
        except Exception as e:  # noqa   holpy's own failure signals
            outcome, err = "fail", e
        entry["outcome"] = outcome if err is None else "%s:%s" % (outcome, type(err).__name__)
        name = step.get("method_name", "?")
        ctx.count("%s:%s:%s" % (source or "step", name, outcome))
        if outcome != "ok":
            # the operation did not complete: nothing is claimed about `target`; the live state is
            # rebuilt when the failed operation left it half-edited (the web app always edits a copy)
            if not on_copy and snapshot(self.state) != before:
                ctx.count("failed-op-left-state-half-edited:" + name)
                self.rebuild()
            elif on_copy and snapshot(self.state) != before:
                self.trail.append(entry)
                self.report("copy-aliasing", "a failed %s on a copy changed the original" % name, name, self.state)
                self.dead = True
            return outcome
        self.trail.append(entry)
        if mrec is not None:
            try:
                self.recorder.method_record(name, step, mrec[0], mrec[1], target)
            except Exception:  # noqa
                self.recorder.skipped += 1
        if cells is not None:
            # heap effect of the operation as the aliasing model states it: fresh argument objects
            # only, no write into an object that existed before (Holpy/C13/AliasModel.lean)
            changed = [k for k, (obj, txt) in cells.items() if cell_text(obj) != txt]
            moved = [pos for pos, it in walk(self.state) if it.args is not None and id(it.args) not in cells]
            if changed or moved:
                ctx.count("alias:in-place-update:" + name)
                ctx.broken("correspondence:c13:alias", "%s on a copy wrote into %d argument object(s) that existed before "
                           "(the model has every operation allocate fresh objects only)" % (name, len(changed) + len(moved)))
            else:
                ctx.count("alias:alloc-only")
        # --- the step completed: the property must hold for `target`
        ok = self.judge(target, name, step)
        if on_copy and snapshot(self.state) != before:
            self.report("copy-aliasing", "editing a copy with %s changed the original" % name, name, self.state)
            self.dead = True
            ok = False
        if ok:
            keep = getattr(ctx, "adv_states", None)
            if keep is not None and len(keep) < 60 and self.rng.random() < 0.08:
                keep.append(copy.copy(target))      # real states for the adversarial primitive stream
            nontriv = len(self.trail) >= 2
            ctx.case((self.goal.ident(), tuple(json.dumps(t["step"], sort_keys=True) + str(t["on_copy"]) for t in self.trail)), nontrivial=nontriv)
        if on_copy:
            if adopt:
                self.freeze(self.state, before)
                self.state = target
            else:
                self.trail[-1]["adopt"] = False
        if ok and self.observer is not None and (not on_copy or adopt):
            self.observer(self, self.state)
        if self.rng.random() < 0.25:
            self.freeze(copy.copy(self.state), snapshot(self.state))
        return outcome

    def freeze(self, st, snap):
        self.frozen.append((st, snap))
        if len(self.frozen) > 6:
            self.frozen.pop(self.rng.randrange(len(self.frozen)))

    def check_frozen(self):
        """Copies taken earlier (and originals left behind when a copy was adopted) never change."""
        for st, snap in self.frozen:
            if snapshot(st) != snap:
                self.report("copy-aliasing", "a state copied earlier changed while its copy/original was edited", "sequence", st)
                self.dead = True
                return False
        return True

    def rebuild(self):
        """Re-create the live state from the completed steps of its lineage (no reliance on copy)."""
        from server import method
        st = self.goal.init_state()
        for t in self.trail:
            if t["on_copy"] and not t["adopt"]:
                continue
            try:
                method.apply_method(st, copy.deepcopy(t["step"]))
            except Exception:  # noqa
                self.dead = True
                self.ctx.count("rebuild-failed")
                return
        self.state = st


def step_cause(state, step):
    """Names two special situations of a step exactly (used in violation keys, so that the recorded
    known findings do not hide any other failure of the same method):
      assumption-cited-twice -- revert_intro where the `intros` line cites the assumption twice
                                (introduction identified two equal assumptions A --> A --> C);
      repeated-exists-elim   -- exists_elim in a scope whose `intros` line already carries the
                                arguments of an earlier exists_elim."""
    try:
        name = step.get("method_name")
        gp = tuple(int(x) for x in str(step["goal_id"]).split("."))
        if name == "revert_intro":
            nxt = state.get_proof_item(gp[:-1] + (gp[-1] + 1,))
            f = tuple(int(x) for x in step["fact_ids"][0].split("."))
            if [p.id for p in nxt.prevs].count(f) > 1:
                return "assumption-cited-twice"
        if name == "exists_elim":
            # a witness name that is already declared where the new `variable` lines go (context of the
            # state or a `variable` line visible from the goal, by the harness's own reading)
            given = [n.strip() for n in str(step.get("names", "")).split(",")]
            if set(given) & declared_names(state, gp) or len(set(given)) < len(given):
                return "witness-name-already-declared"
            i = gp[-1] + 1
            while True:
                it = state.get_proof_item(gp[:-1] + (i,))
                if it.rule == "intros":
                    return "repeated-exists-elim" if it.args else None
                i += 1
        # a cited fact depends on a hypothesis the goal does not have (e.g. a gap stated before
        # revert_intro removed the assumption): the methods splice it in all the same
        it = state.get_proof_item(gp)
        if it.th is not None and step.get("fact_ids"):
            for f in step["fact_ids"]:
                ft = state.get_proof_item(tuple(int(x) for x in f.split("."))).th
                if ft is not None and not set(ft.hyps) <= set(it.th.hyps):
                    return "fact-with-foreign-hypothesis"
    except Exception:  # noqa
        return None
    return None


def declared_names(state, goal_pos):
    """Names in scope at `goal_pos`: variables of the state and `variable` lines visible from it."""
    names = {v.name for v in state.vars}
    for pos, it in walk(state):
        if it.rule == "variable" and it.args and visible(pos, goal_pos):
            names.add(it.args[0])
    return names


def clean_step(step):
    out = {}
    for k, v in step.items():
        if k.startswith("_") or k == "display":
            continue
        out[k] = v
    return out


# ====================================================================== generated goals
def gen_goals(rng, n):
    """Propositional / predicate goals over logic (theory 'logic'): mostly provable shapes."""
    atoms = ["A", "B", "C"]
    preds = ["P", "Q"]

    def form(d):
        r = rng.random()
        if d == 0 or r < 0.2:
            if rng.random() < 0.7:
                return rng.choice(atoms)
            return "%s x" % rng.choice(preds)
        k = rng.choice(["&", "&", "|", "|", "-->", "~", "!", "?"])
        if k == "~":
            return "~(%s)" % form(d - 1)
        if k in ("!", "?"):
            p, q = rng.choice(preds), rng.choice(preds)
            op = rng.choice(["&", "|", "-->"])
            return "(%sx. %s x %s %s x)" % (k, p, op, q)
        return "(%s) %s (%s)" % (form(d - 1), k, form(d - 1))

    def shuffle_conj(f):
        return f

    goals = []
    vars_ = {"A": "bool", "B": "bool", "C": "bool", "P": "'a => bool", "Q": "'a => bool", "x": "'a", "y": "'a",
             "T": "'b => bool", "U": "'b => bool"}
    templates = [
        "A & B --> B & A", "A | B --> B | A", "A --> B --> A", "(A --> B) --> (B --> C) --> A --> C",
        "(!x. P x & Q x) --> (!x. P x) & (!x. Q x)", "(?x. P x & Q x) --> (?x. P x) & (?x. Q x)",
        "(!x. P x --> Q x) --> (!x. P x) --> (!x. Q x)", "(?x. P x) --> (!x. P x --> Q x) --> (?x. Q x)",
        "A & (B | C) --> (A & B) | (A & C)", "~(A | B) --> ~A & ~B", "P x --> (?y. P y)", "(!y. P y) --> P x & P y",
        "A --> A", "A & B --> A", "(A --> B) --> ~B --> ~A", "x = y --> P x --> P y", "x = y --> y = x",
        "(!x. P x --> P x) & (!z. T z --> T z)", "(!x. P x --> Q x | P x) & (!z. T z --> T z | U z)",
        "(?x. P x) --> (?z. T z) --> (?x. P x) & (?z. T z)",
    ]
    for i in range(n):
        if rng.random() < 0.5:
            prop = rng.choice(templates)
        else:
            f = form(rng.randint(1, 3))
            r = rng.random()
            if r < 0.4:
                prop = "%s --> %s" % (f, f)
            elif r < 0.7:
                prop = "%s --> %s --> %s" % (f, form(1), f)
            else:
                prop = f
        goals.append(Goal("logic", "gen%d" % i, dict(vars_), prop, generated=True))
    return goals


# ====================================================================== directed scenarios
# Scripted sequences aimed at bookkeeping that random generation reaches rarely.  Each must complete
# on a correct implementation; every step is judged like any other.
DIRECTED = [
    # a gap cited from inside a later subproof is closed by a forward step: replace_id has to
    # re-point the citation inside the subproof
    {"name": "replace-id-cited-in-subproof", "theory": "logic", "vars": {"A": "bool", "B": "bool", "C": "bool"},
     "prop": "A & B --> C --> B & A",
     "steps": [
         {"method_name": "revert_intro", "goal_id": "2", "fact_ids": ["1"]},
         {"method_name": "cut", "goal_id": "1", "fact_ids": [], "goal": "B"},
         {"method_name": "introduction", "goal_id": "2", "fact_ids": []},
         {"method_name": "apply_backward_step", "goal_id": "2.1", "fact_ids": ["1"], "theorem": "conjI"},
         {"method_name": "apply_forward_step", "goal_id": "1", "fact_ids": ["0"], "theorem": "conjD2"},
     ]},
    # two exists_elim in one scope: the second one extends what the first one created (the argument
    # list of the closing `intros` line); on a copy this must not reach the original
    {"name": "exists-elim-twice-in-scope", "theory": "logic", "vars": {"P": "'a => bool", "Q": "'a => bool", "C": "bool"},
     "prop": "(?x. P x) --> (?x. Q x) --> C",
     "steps": [
         {"method_name": "exists_elim", "goal_id": "2", "fact_ids": ["0"], "names": "u"},
         {"method_name": "exists_elim", "goal_id": "4", "fact_ids": ["1"], "names": "v"},
     ]},
    # one name declared in two sibling subproofs at different types: the export has to read back
    {"name": "same-name-two-types-in-sibling-subproofs", "theory": "logic",
     "vars": {"P": "'a => bool", "R": "'a => bool", "Q": "'b => bool", "S": "'b => bool"},
     "prop": "(!x. P x --> R x) & (!x. Q x --> S x)",
     "steps": [
         {"method_name": "apply_backward_step", "goal_id": "0", "fact_ids": [], "theorem": "conjI"},
         {"method_name": "introduction", "goal_id": "0", "fact_ids": [], "names": "x"},
         {"method_name": "introduction", "goal_id": "1", "fact_ids": [], "names": "x"},
     ]},
    # a finished subproof behind the edit point: inserting lines in front of it on a copy renumbers it
    # (ids and citations of its lines) - the original must not see that
    {"name": "edit-before-finished-subproof", "theory": "logic", "vars": {"A": "bool", "B": "bool"},
     "prop": "(A --> B | A) & (B --> A | B)",
     "steps": [
         {"method_name": "apply_backward_step", "goal_id": "0", "fact_ids": [], "theorem": "conjI"},
         {"method_name": "introduction", "goal_id": "1", "fact_ids": []},
         {"method_name": "apply_backward_step", "goal_id": "1.1", "fact_ids": ["1.0"], "theorem": "disjI2"},
         {"method_name": "cut", "goal_id": "0", "fact_ids": [], "goal": "A"},
         {"method_name": "cases", "goal_id": "1", "fact_ids": [], "case": "A"},
     ]},
    # exists_elim records the eliminated fact in the arguments of the closing `intros` line; revert_intro
    # of the assumption exists_elim introduced re-sets that line: the last line must go on stating the goal
    {"name": "revert-intro-after-exists-elim", "theory": "logic", "vars": {"P": "'a => bool", "Q": "bool"},
     "prop": "(?x. P x) --> (!x. P x --> Q) --> Q",
     "steps": [
         {"method_name": "exists_elim", "goal_id": "2", "fact_ids": ["0"], "names": "a"},
         {"method_name": "revert_intro", "goal_id": "4", "fact_ids": ["3"]},
         {"method_name": "introduction", "goal_id": "3", "fact_ids": [], "names": ""},
         {"method_name": "forall_elim", "goal_id": "3.1", "fact_ids": ["1"], "s": "a"},
         {"method_name": "apply_prev", "goal_id": "3.2", "fact_ids": ["3.1", "3.0"]},
     ]},
    # the same inside a subproof
    {"name": "revert-intro-after-exists-elim-nested", "theory": "logic", "vars": {"P": "'a => bool", "Q": "bool", "R": "bool"},
     "prop": "R & ((?x. P x) --> (!x. P x --> Q) --> Q)",
     "steps": [
         {"method_name": "apply_backward_step", "goal_id": "0", "fact_ids": [], "theorem": "conjI"},
         {"method_name": "introduction", "goal_id": "1", "fact_ids": [], "names": ""},
         {"method_name": "exists_elim", "goal_id": "1.2", "fact_ids": ["1.0"], "names": "a"},
         {"method_name": "revert_intro", "goal_id": "1.4", "fact_ids": ["1.3"]},
     ]},
    # a fact selected from a closed sibling subproof (0.0 for a goal in subproof 1): must be refused
    {"name": "fact-from-closed-sibling-subproof", "theory": "logic", "vars": {"A": "bool", "B": "bool"},
     "prop": "(A --> B | A) & (A --> A | B)",
     "steps": [
         {"method_name": "apply_backward_step", "goal_id": "0", "fact_ids": [], "theorem": "conjI"},
         {"method_name": "introduction", "goal_id": "0", "fact_ids": [], "names": ""},
         {"method_name": "introduction", "goal_id": "1", "fact_ids": [], "names": ""},
         {"method_name": "apply_backward_step", "goal_id": "1.1", "fact_ids": ["0.0"], "theorem": "disjI1", "_must_be_refused": True},
         {"method_name": "apply_forward_step", "goal_id": "1.1", "fact_ids": ["0.0"], "theorem": "disjI1", "_must_be_refused": True},
         {"method_name": "apply_backward_step", "goal_id": "1.1", "fact_ids": ["1.0"], "theorem": "disjI1"},
         {"method_name": "apply_backward_step", "goal_id": "0.1", "fact_ids": ["0.0"], "theorem": "disjI2"},
     ]},
    # two new gaps, the first already proved by an earlier line, the second not: the trivial-closing
    # loop of apply_tactic must not touch the second
    {"name": "apply-tactic-proved-then-open", "theory": "logic", "vars": {"A": "bool", "B": "bool", "C": "bool"},
     "prop": "(A --> C) --> (A | B) --> C",
     "steps": [
         {"method_name": "apply_backward_step", "goal_id": "2", "fact_ids": ["1"], "theorem": "disjE"},
     ]},
]


def run_directed(ctx, rng, recorder=None, **kw):
    from logic import basic
    for sc in DIRECTED:
        basic.load_theory(sc["theory"])
        g = Goal(sc["theory"], "directed:" + sc["name"], dict(sc["vars"]), sc["prop"], steps=sc["steps"], generated=True)
        for on_copy in (False, True):
            r = Runner(ctx, g, rng, 1.0, recorder, **kw)
            for st in sc["steps"]:
                ab = assume_positions(r.state)
                out = r.apply(dict(st), on_copy=on_copy, adopt=True, source="directed")
                probes(r, st, ab, out)
                if out != "ok" and st.get("_must_be_refused"):
                    continue
                if out != "ok":
                    ctx.count("directed-incomplete:%s" % sc["name"])
                    ctx.log("directed scenario %s stopped at %s: %s" % (sc["name"], st["method_name"], r.trail[-1:] and r.trail[-1].get("outcome")))
                    break
            r.check_frozen()


# ====================================================================== corpus (replayed first)
def load_goal(g):
    """Goal from its JSON form (library theorem at its own point of the theory, or generated)."""
    from logic import basic
    if g.get("generated"):
        basic.load_theory(g["theory"])
        return Goal(g["theory"], g["name"], g["vars"], g["prop"], generated=True)
    basic.load_theory(g["theory"], limit=("thm", g["name"]))
    data = basic.load_json_data(g["theory"], "master")
    raw = [x for x in data["content"] if x.get("ty") == "thm" and x.get("name") == g["name"]][0]
    return Goal(g["theory"], g["name"], raw["vars"], raw["prop"], steps=raw.get("steps"))


def run_corpus_entry(ctx, e):
    """One minimised past failure: {"name", "expect": key, "goal", "trail" | "recorded": n}.
    `recorded: n` replays the first n recorded steps of the library theorem."""
    goal = load_goal(e["goal"])
    r = Runner(ctx, goal, ctx.rng("corpus/" + e["name"]), 1.0)
    trail = e.get("trail")
    if trail is None:
        trail = [{"step": clean_step(st), "on_copy": False, "adopt": True} for st in goal.steps[:e["recorded"]]]
    for t in trail:
        if r.dead:
            break
        r.apply(dict(t["step"]), on_copy=t.get("on_copy", False), adopt=t.get("adopt", True), source="corpus")
    r.check_frozen()
    return r


def run_corpus(ctx):
    p = os.path.join(ctx.verif, "corpus", "c13.json")
    if not os.path.exists(p):
        return
    with open(p, encoding="utf-8") as f:
        entries = json.load(f)
    for e in entries:
        before = set(ctx.known_hits) | {v[0] for v in ctx.violations}
        try:
            run_corpus_entry(ctx, e)
        except Timeout:
            ctx.count("corpus:timeout:" + e["name"])
            continue
        except Exception as ex:  # noqa
            ctx.count("corpus:not-runnable:" + e["name"])
            ctx.log("corpus entry %s could not be run: %s: %s" % (e["name"], type(ex).__name__, short(ex)))
            continue
        after = set(ctx.known_hits) | {v[0] for v in ctx.violations}
        if e.get("expect") in after:
            ctx.count("corpus:reproduced")
        else:
            ctx.count("corpus:no-longer-fails")
            ctx.log("corpus entry %s (%s) no longer fails%s" % (e["name"], e.get("expect"), (": new keys %s" % sorted(after - before)) if after - before else ""))


# ====================================================================== sequences
def run_recorded(ctx, goal, rng, perturb_rate, export_rate, recorder=None, **kw):
    """Replay the recorded steps; with probability `perturb_rate` per position inject a
    perturbation (repeat / other goal / other facts / interleaved method), on the live state or on
    a copy that is discarded or adopted."""
    r = Runner(ctx, goal, rng, export_rate, recorder, **kw)
    for i, step in enumerate(goal.steps):
        if r.dead:
            break
        if rng.random() < perturb_rate:
            kind = rng.choice(["random", "random", "perturb", "repeat"])
            try:
                if kind == "random":
                    s = random_step(r.state, rng)
                elif kind == "perturb":
                    s = perturb(step, r.state, rng)
                else:
                    s = dict(goal.steps[i - 1]) if i > 0 else None
            except Timeout:
                s = None
            if s is not None:
                on_copy = rng.random() < 0.6
                r.apply(s, on_copy=on_copy, adopt=rng.random() < 0.3, source=kind)
        on_copy = rng.random() < 0.3
        ab = assume_positions(r.state)
        out = r.apply(step, on_copy=on_copy, adopt=True, source="recorded")
        if perturb_rate > 0:
            probes(r, step, ab, out)
        if out == "ok" and perturb_rate > 0 and not r.dead and rng.random() < 0.25:
            edit_before_finished_subproof(r, rng)
        if out not in ("ok",) and perturb_rate == 0:
            break
    r.check_frozen()
    return r


GENERATED_KINDS = {"cut", "cases", "introduction", "forall_elim", "exists_elim", "revert_intro", "rewrite_goal_with_prev",
                   "apply_prev", "apply_fact", "new_var", "inst_exists_goal", "rewrite_fact_with_prev"}


def same_scope_again(r, step, rng):
    """After a completed step: the same method again, aimed at a gap of the same proof (scope),
    applied to a copy — shared mutable data between a state and its copy shows only when a method
    touches what an earlier application of it created."""
    kind = step.get("method_name")
    if kind not in GENERATED_KINDS:
        return
    try:
        gp = tuple(int(x) for x in str(step["goal_id"]).split("."))
    except Exception:  # noqa
        return
    gaps = [pos for pos, it in walk(r.state) if it.rule == "sorry" and pos[:-1] == gp[:-1]]
    if not gaps:
        return
    try:
        s2 = random_step(r.state, rng, kind=kind, goal_pos=rng.choice(gaps))
    except Timeout:
        return
    if s2 is not None:
        r.apply(s2, on_copy=True, adopt=rng.random() < 0.5, source="again")


def edit_before_finished_subproof(r, rng):
    """A line-count changing step (cut / new_var) on a COPY, aimed at a line in front of a subproof
    that has no gap left: the subproof is renumbered on the copy; the original must not notice."""
    lines = walk(r.state)
    done = [pos for pos, it in lines if it.subproof is not None and not it.get_sorrys()]
    if not done:
        return
    d = rng.choice(done)
    front = [pos for pos, it in lines if pos[:-1] == d[:-1] and pos[-1] < d[-1]]
    if not front:
        return
    try:
        s2 = random_step(r.state, rng, kind=rng.choice(["cut", "new_var"]), goal_pos=rng.choice(front))
    except Timeout:
        return
    if s2 is not None:
        r.apply(s2, on_copy=True, adopt=rng.random() < 0.5, source="before-finished")



# ---------------------------------------------------------------------- probes (on copies, own random stream)
STRUCTURAL = {"exists_elim", "induction", "cases", "introduction"}
FACT_KINDS = ["apply_fact", "apply_prev", "forall_elim", "exists_elim", "rewrite_goal_with_prev", "rewrite_fact_with_prev",
              "search", "search", "search", "search"]


def invisible_facts(state, goal_pos):
    """Stated lines that the line at `goal_pos` must NOT cite, by the harness's own reading of
    'earlier visible line', sorted into: lines inside an earlier closed sibling block (of the goal's
    block or of an enclosing one), later lines, lines of deeper blocks that start later."""
    sib, later, deeper = [], [], []
    for pos, it in walk(state):
        if it.th is None or pos == goal_pos or visible(pos, goal_pos):
            continue
        if any(visible(pos[:k], goal_pos) for k in range(1, len(pos))):
            sib.append(pos)                # below a line that is itself visible: a closed earlier block
        elif len(pos) <= len(goal_pos) and pos[:len(pos) - 1] == goal_pos[:len(pos) - 1]:
            later.append(pos)
        else:
            deeper.append(pos)
    return sib, later, deeper


def probe_rng(r, tag):
    r.probe_n = getattr(r, "probe_n", 0) + 1
    return r.ctx.rng("probe/%s/%s/%d/%d" % (tag, r.goal.ident(), len(r.trail), r.probe_n))


def probes(r, step, assumes_before, out):
    """Run after every step of a walk / recorded replay; draws from its own random stream and edits
    copies only, so the sequence itself is the one it would be without the probes."""
    if r.dead or not r.judge_states:
        return
    try:
        if out == "ok" and step is not None:
            probe_revert_after(r, step, assumes_before)
        if probe_rng(r, "gate").random() < 0.35:
            probe_invisible_facts(r)
        if out == "ok" and step is not None:
            probe_name_clash(r, step)
        if probe_rng(r, "gate-nm").random() < 0.2:
            probe_nonmonotone(r)
    except Timeout:
        pass


def probe_invisible_facts(r):
    """A method aimed at a gap with a fact selection that contains a line the gap may not cite
    (closed sibling block / later line / deeper line), on a copy that is discarded.  The request
    must be refused; if it completes, the judge finds the citation (`citation-not-visible`)."""
    if r.dead:
        return
    rng = probe_rng(r, "invisible")
    state = r.state
    gaps = [pos for pos, it in walk(state) if it.rule == "sorry"]
    if not gaps:
        return
    saved, r.rng = r.rng, rng
    try:
        for _ in range(2):
            gp = rng.choice(gaps)
            sib, later, deeper = invisible_facts(state, gp)
            pool = sib if sib and rng.random() < 0.7 else (sib + later + deeper)
            if not pool:
                continue
            bad = rng.choice(pool)
            vis = visible_facts(state, gp)
            kind = rng.choice(FACT_KINDS)
            facts = [bad]
            if vis and rng.random() < 0.4:
                facts.insert(rng.randint(0, 1), rng.choice(vis))
            r.ctx.count("probe:invisible-fact:%s" % ("sibling-block" if bad in sib else "later" if bad in later else "deeper"))
            step = None
            try:
                if kind == "search":
                    with time_limit(STEP_LIMIT):
                        res = state.search_method(id_str(gp), [id_str(f) for f in facts])
                    if res:
                        step = fill_params(state, rng.choice(res), rng)
                else:
                    k = 2 if kind == "rewrite_fact_with_prev" else None
                    if k == 2 and len(facts) < 2:
                        facts = facts + [rng.choice(vis)] if vis else facts * 2
                    step = fill_params(state, {"method_name": kind, "goal_id": id_str(gp), "fact_ids": [id_str(f) for f in facts]}, rng)
            except Timeout:
                return
            except Exception:  # noqa
                step = None
            if step is not None and not r.dead:
                out = r.apply(step, on_copy=True, adopt=False, source="invisible-fact")
                if out == "ok":
                    r.ctx.count("probe:invisible-fact:completed")
    finally:
        r.rng = saved


def probe_name_clash(r, step):
    """After a completed step that declared variables (exists_elim, introduction, new_var, induction):
    exists_elim at a gap that sees one of the `variable` lines, with a visible existential fact and
    that variable's name for a witness (near-miss argument), on a copy that is discarded.  The
    request must be refused; if it completes the judge re-checks the state like any other."""
    if r.dead or step.get("method_name") not in ("exists_elim", "introduction", "new_var", "induction"):
        return
    rng = probe_rng(r, "clash")
    state = r.state
    lines = walk(state)
    cands = []
    for gp, it in lines:
        if it.rule != "sorry":
            continue
        facts = [f for f in visible_facts(state, gp) if state.get_proof_item(f).th.prop.is_exists()]
        for f in facts:
            if any(x.rule == "variable" and x.args and visible(p, gp) for p, x in lines):
                cands.append((gp, f))
    if not cands:
        return
    saved, r.rng = r.rng, rng
    try:
        for gp, f in rng.sample(cands, min(2, len(cands))):
            clash = clash_names(state, gp, f)
            nb = count_binders(state.get_proof_item(f).th.prop, "exists")
            names = fresh_names(state, gp, nb, rng)
            names[rng.randrange(nb)] = rng.choice(clash)
            r.ctx.count("probe:name-clash:exists_elim")
            s2 = {"method_name": "exists_elim", "goal_id": id_str(gp), "fact_ids": [id_str(f)], "names": ", ".join(names)}
            if r.dead:
                break
            out = r.apply(s2, on_copy=True, adopt=False, source="name-clash")
            if out == "ok":
                r.ctx.count("probe:name-clash:completed")
    finally:
        r.rng = saved


def probe_nonmonotone(r):
    """States whose hypotheses do not grow along the visible lines: `cut` aimed at a line that is NOT
    a gap (an assume/variable/proved line: the new gap takes the hypotheses of that line, which lack
    those of some earlier visible line L), the stated goal built from the proposition of L; then
    every suggestion search_method makes for the new gap (backward steps, introduction: the methods
    that look for an earlier line proving a new subgoal).  On copies; the sequence goes on from the
    state it had.  Every completed step is judged like any other."""
    if r.dead:
        return
    rng = probe_rng(r, "nonmonotone")
    state = r.state
    lines = walk(state)
    cands = []
    for pos, it in lines:
        if it.th is None or it.rule == "sorry" or pos[-1] == 0:
            continue
        hy = set(it.th.hyps)
        for lp, l in lines:
            if l.th is not None and visible(lp, pos) and not set(l.th.hyps) <= hy and l.rule != "variable":
                cands.append((pos, lp))
    if not cands:
        return
    pos, lp = rng.choice(cands)
    try:
        p = pr(state.get_proof_item(lp).th.prop)
        others = [pr(state.get_proof_item(f).th.prop) for f in visible_facts(state, pos)
                  if state.get_proof_item(f).rule != "variable"]
        q = rng.choice(others) if others else p
    except Exception:  # noqa
        return
    text = rng.choice(["(%s) & (%s)" % (p, p), "(%s) & (%s)" % (p, q), "(%s) & (%s)" % (q, p), "(%s) | (%s)" % (p, q),
                       "(%s) --> (%s)" % (q, p), "(%s) & (%s)" % (p, p)])
    saved_rng, saved_state, saved_trail, saved_frozen = r.rng, r.state, list(r.trail), list(r.frozen)
    r.rng = rng
    try:
        r.ctx.count("probe:nonmonotone:cut")
        out = r.apply({"method_name": "cut", "goal_id": id_str(pos), "fact_ids": [], "goal": text},
                      on_copy=True, adopt=True, source="nonmonotone")
        if out != "ok" or r.dead:
            return
        try:
            with time_limit(STEP_LIMIT):
                res = r.state.search_method(id_str(pos), [])
        except Timeout:
            return
        except Exception:  # noqa
            return
        rng.shuffle(res)
        done = 0
        for sg in res:
            if r.dead or done >= 2:
                break
            try:
                s2 = fill_params(r.state, sg, rng)
            except Exception:  # noqa
                s2 = None
            if s2 is None:
                continue
            done += 1
            o2 = r.apply(s2, on_copy=True, adopt=False, source="nonmonotone")
            if o2 == "ok":
                r.ctx.count("probe:nonmonotone:completed:%s" % s2.get("method_name"))
    finally:
        r.rng = saved_rng
        r.state = saved_state
        r.trail[:] = saved_trail
        r.frozen[:] = saved_frozen      # (the live state is not a frozen copy: it goes on being edited)


def probe_revert_after(r, step, assumes_before):
    """After a completed structural method (exists_elim, induction, cases, introduction): revert_intro
    of an assumption it introduced, at the gap that the closing `intros` line follows, on a copy.
    Every completed step is judged (last line = stated goal, re-check returns the stated goal)."""
    if r.dead or step.get("method_name") not in STRUCTURAL:
        return
    rng = probe_rng(r, "revert")
    lines = walk(r.state)
    by_pos = dict(lines)
    cands = []
    for pos, it in lines:
        if it.rule != "assume":
            continue
        for g in range(pos[-1] + 1, pos[-1] + 6):
            gp, nx = pos[:-1] + (g,), pos[:-1] + (g + 1,)
            if gp in by_pos and by_pos[gp].rule == "sorry" and nx in by_pos and by_pos[nx].rule == "intros":
                cands.append((pos not in assumes_before, gp, pos))
    if not cands:
        return
    new = [c for c in cands if c[0]]
    _, gp, a = rng.choice(new) if new and rng.random() < 0.8 else rng.choice(cands)
    saved, r.rng = r.rng, rng
    try:
        r.ctx.count("probe:revert-after:%s" % step.get("method_name"))
        s2 = {"method_name": "revert_intro", "goal_id": id_str(gp), "fact_ids": [id_str(a)]}
        out = r.apply(s2, on_copy=True, adopt=False, source="revert-after")
        if out == "ok":
            r.ctx.count("probe:revert-after:completed:%s" % step.get("method_name"))
    finally:
        r.rng = saved


def assume_positions(state):
    return {pos for pos, it in walk(state) if it.rule == "assume"}


def run_walk(ctx, goal, rng, length, export_rate, recorder=None, **kw):
    """Random walk: suggestions of search_method and interleaved generated method applications."""
    r = Runner(ctx, goal, rng, export_rate, recorder, **kw)
    for _ in range(length):
        if r.dead:
            break
        try:
            s = random_step(r.state, rng)
        except Timeout:
            break
        if s is None:
            continue
        on_copy = rng.random() < 0.4
        ab = assume_positions(r.state)
        adopt = rng.random() < 0.6
        out = r.apply(s, on_copy=on_copy, adopt=adopt, source="walk")
        probes(r, s, ab, out if (not on_copy or adopt) else "discarded")
        if r.rng.random() < 0.15 and r.trail:
            # repeated application of the step just made
            r.apply(dict(r.trail[-1]["step"]), on_copy=rng.random() < 0.5, adopt=True, source="repeat")
        if out == "ok" and not r.dead and rng.random() < 0.3:
            # the same method once more in the same scope (another gap of the same proof), on a copy
            same_scope_again(r, s, rng)
        if out == "ok" and not r.dead and rng.random() < 0.4:
            edit_before_finished_subproof(r, rng)
    r.check_frozen()
    return r


# ====================================================================== correspondence with the Lean model
RULE_CODES = {"": 0, "sorry": 1, "trivial": 2, "subproof": 3}


class Recorder:
    """Records every outermost call of the structural primitives of ProofState made by the real
    methods, with the line structure before and after, for replay on the Lean model."""

    PRIMS = ["add_line_before", "remove_line", "set_line", "replace_id", "apply_tactic", "find_goal"]

    def __init__(self, limit, every=1):
        self.limit = limit
        self.every = every
        self.calls = 0
        self.records = []
        self.depth = 0
        self.term_codes = {}
        self.rule_codes = dict(RULE_CODES)
        self.orig = {}
        self.export_capture = None
        self.skipped = 0
        self.active = True           # C14 records only the applications of suggestions
        self.method_records = []     # (label, model op, expected answer)
        self.search_records = []     # the same for the search-side model (C14: filters and first tests of apply)
        self.import_records = []
        self.export_shape_mismatch = []

    # ---- encoding
    def tcode(self, t):
        c = self.term_codes.get(t)
        if c is None:
            c = len(self.term_codes) + 1
            self.term_codes[t] = c
        return c

    def rcode(self, r):
        if r not in self.rule_codes:
            self.rule_codes[r] = len(self.rule_codes) + 1
        return self.rule_codes[r]

    def th(self, th):
        if th is None:
            return "N"
        return [self.tcode(th.prop), [self.tcode(h) for h in th.hyps]]

    def item(self, it):
        sub = [self.item(x) for x in it.subproof.items] if it.subproof is not None else []
        return [list(it.id.id), self.rcode(it.rule), [list(p.id) for p in it.prevs], self.th(it.th), it.subproof is not None, sub]

    def state(self, st):
        return [self.item(it) for it in st.prf.items]

    # ---- installation
    def install(self, ctx=None):
        """Wraps the primitives that exist; one that is missing (renamed) is reported with
        ctx.broken and left alone, so that the oracle streams still run."""
        self.problems = []
        try:
            from kernel.proofterm import ProofTerm
            from server import method
            PS = method.ProofState
        except Exception as e:  # noqa
            self.problems.append("cannot import ProofState / ProofTerm: %r" % e)
            self.orig_export = None
            self._report(ctx)
            return
        rec = self
        for name in self.PRIMS:
            orig = getattr(PS, name, None)
            if not callable(orig):
                self.problems.append("ProofState.%s not found" % name)
                continue
            self.orig[name] = orig

            def make(name, orig):
                def wrapped(st, *a, **kw):
                    if rec.depth == 0 and rec.active:
                        rec.calls += 1
                    if rec.depth > 0 or not rec.active or len(rec.records) >= rec.limit or rec.calls % rec.every != 0:
                        rec.depth += 1
                        try:
                            return orig(st, *a, **kw)
                        finally:
                            rec.depth -= 1
                    before, args = None, None
                    try:
                        before = rec.state(st)
                        args = rec.encode_args(name, st, a, kw)
                    except Exception:  # noqa   (ids that are not tuples of non-negative ints, ...)
                        before = None
                    rec.depth += 1
                    rec.export_capture = [] if name == "apply_tactic" else None
                    ok = False
                    try:
                        res = orig(st, *a, **kw)
                        ok = True
                        return res
                    finally:
                        rec.depth -= 1
                        cap, rec.export_capture = rec.export_capture, None
                        if ok and before is not None and args is not None:
                            try:
                                rec.finish(name, st, a, kw, before, args, res, cap)
                            except Exception:  # noqa
                                rec.skipped += 1
                        else:
                            rec.skipped += 1
                return wrapped
            setattr(PS, name, make(name, orig))
        orig_export = getattr(ProofTerm, "export", None)
        self.orig_export = orig_export
        if not callable(orig_export):
            self.problems.append("ProofTerm.export not found")
            self.orig_export = None
            self._report(ctx)
            return

        def export(pt, *a, **kw):
            res = orig_export(pt, *a, **kw)
            try:
                subproof = kw["subproof"] if "subproof" in kw else (a[2] if len(a) > 2 else True)
                if subproof and getattr(rec, "intro_capture", None) is not None and not rec.intro_capture:
                    rec.intro_capture.append([rec.item(it) for it in res.items])
                if rec.export_capture is not None and not subproof and not rec.export_capture:
                    from logic import logic
                    lines = []
                    for it in res.items:
                        triv = False
                        if it.rule == "sorry":
                            try:
                                triv = bool(logic.trivial_macro().can_eval(it.th.prop))
                            except Exception:  # noqa
                                triv = False
                        lines.append([rec.item(it), triv])
                    rec.export_capture.append(lines)
            except Exception:  # noqa
                rec.skipped += 1
            return res
        ProofTerm.export = export
        self._report(ctx)

    def _report(self, ctx):
        if self.problems and ctx is not None:
            ctx.broken("correspondence:%s:recorder" % ctx.prop.lower(), "; ".join(self.problems))

    def uninstall(self):
        try:
            from kernel.proofterm import ProofTerm
            from server import method
            for name, orig in self.orig.items():
                setattr(method.ProofState, name, orig)
            if getattr(self, "orig_export", None) is not None:
                ProofTerm.export = self.orig_export
        except Exception:  # noqa
            pass

    def method_record(self, name, step, before, nrec, target):
        """Method-level model (Holpy/C14/Model.lean): cut = add_line_before + set_line(sorry);
        forward steps = add_line_before + set_line; cases = apply_tactic with the fixed shape."""
        gid = [int(x) for x in str(step["goal_id"]).split(".")]
        after = self.state(target)
        if name == "revert_intro":
            if getattr(self, "revert_th", None) is None:
                return
            fact = [int(x) for x in step["fact_ids"][0].split(".")]
            op = ["revert", before, gid, fact, self.revert_th, self.rcode("assume"), self.rcode("intros")]
            self.method_records.append(("method:revert_intro", op, ["ok", after]))
            return
        if name == "introduction":
            cap, self.intro_capture = getattr(self, "intro_capture", None), None
            if not cap:
                self.skipped += 1
                return
            self.method_records.append(("method:introduction", ["intro", before, gid, cap[0]], ["ok", after]))
            return
        if name == "cases":
            new = [r for r in self.records[nrec:] if r[0] == "apply_tactic"]
            if len(new) != 1:
                return                       # the call was not sampled by the recorder
            cap = new[0][1][3]
            if len(cap) != 3 or cap[0][0][1] != 1 or cap[1][0][1] != 1 or cap[2][0][2] != [cap[0][0][0], cap[1][0][0]]:
                self.export_shape_mismatch.append((gid, "cases: not two gaps + conclusion"))
                return
            op = ["cases", before, gid, cap[2][0][1], cap[0][0][3], cap[1][0][3], cap[2][0][3], cap[0][1], cap[1][1]]
            self.method_records.append(("method:cases", op, ["ok", after]))
            return
        it = target.get_proof_item(tuple(gid))
        if name == "cut":
            op = ["cut", before, gid, self.th(it.th)]
            self.method_records.append(("method:cut", op, ["ok", after]))
        elif name in METHOD_FORWARD_CLOSE:
            op = ["forwardclose", before, gid, self.rcode(it.rule), [list(p.id) for p in it.prevs], self.th(it.th)]
            self.method_records.append(("method:forwardclose:" + name, op, ["ok", after]))
        else:
            op = ["forward", before, gid, self.rcode(it.rule), [list(p.id) for p in it.prevs], self.th(it.th)]
            self.method_records.append(("method:forward:" + name, op, ["ok", after]))

    @staticmethod
    def idl(x):
        from kernel.proof import ItemID
        t = ItemID(x).id
        assert all(isinstance(i, int) and i >= 0 for i in t)
        return list(t)

    def encode_args(self, name, st, a, kw):
        if name == "add_line_before":
            n = a[1] if len(a) > 1 else kw["n"]
            if n < 0:
                return None
            return [self.idl(a[0]), n]
        if name == "remove_line":
            return [self.idl(a[0])]
        if name == "set_line":
            return [self.idl(a[0]), self.rcode(a[1]), [self.idl(p) for p in (kw.get("prevs") or [])]]
        if name == "replace_id":
            return [self.idl(a[0]), self.idl(a[1])]
        if name == "apply_tactic":
            return [self.idl(a[0])]
        if name == "find_goal":
            return [self.th(a[0]), self.idl(a[1])]
        return None

    def finish(self, name, st, a, kw, before, args, res, cap):
        after = self.state(st)
        if name == "add_line_before":
            op = ["add", before] + args
        elif name == "remove_line":
            op = ["remove", before] + args
        elif name == "set_line":
            it = st.get_proof_item(tuple(args[0]))
            op = ["set", before] + args + [self.th(it.th)]       # the sequent the checker computed is an input
        elif name == "replace_id":
            op = ["replace", before] + args
        elif name == "apply_tactic":
            if not cap:
                self.skipped += 1
                return
            # hypothesis `exportedAt` of the C14 theorems: the exported lines are numbered id, id+1, ...
            gid = args[0]
            # and hypothesis `shapeOk` of apply_tactic_preserves_wf: no subproofs, citations admissible
            for k, ln in enumerate(cap[0]):
                if ln[0][0] != gid[:-1] + [gid[-1] + k] or ln[0][4] or ln[0][5] \
                        or not all(visible(tuple(p), tuple(ln[0][0])) for p in ln[0][2]):
                    self.export_shape_mismatch.append((gid, [(x[0][0], x[0][2]) for x in cap[0]]))
                    break
            op = ["tactic", before, args[0], cap[0]]
        elif name == "find_goal":
            op = ["find", before] + args
            after = ["ok", "N" if res is None else list(res.id)]
            self.records.append((name, op, after))
            return
        self.records.append((name, op, ["ok", after]))


def norm(x):
    """sexp.loads output / python structure -> comparable nested lists of strings."""
    if isinstance(x, bool):
        return "T" if x else "F"
    if isinstance(x, int):
        return str(x)
    if isinstance(x, str):
        return x
    return [norm(y) for y in x]


def py_wf(items):
    """The harness's own statement of numbering + citations on an encoded structure."""
    def rec(lst, pre):
        for k, it in enumerate(lst):
            iid, rule, prevs, th, hs, sub = it
            pos = pre + (k,)
            if tuple(iid) != pos:
                return False
            if not all(visible(tuple(p), tuple(iid)) for p in prevs):
                return False
            if not hs and sub:
                return False
            if not rec(sub, pos):
                return False
        return True
    return rec(items, ())


def mutate_structure(items, rng):
    """Adversarial variant of a real structure: one id or citation changed, or a line dropped."""
    items = copy.deepcopy(items)
    flat = []

    def rec(lst):
        for it in lst:
            flat.append((lst, it))
            rec(it[5])
    rec(items)
    if not flat:
        return items
    lst, it = rng.choice(flat)
    k = rng.randint(0, 3)
    if k == 0 and it[0]:
        it[0][-1] += rng.choice([1, 2])
    elif k == 1:
        it[2].append([rng.randint(0, 4) for _ in range(rng.randint(1, 3))])
    elif k == 2 and it[2]:
        it[2][0] = list(it[0])
    else:
        lst.remove(it)
    return items


def adversarial_primitives(ctx, recorder):
    """Direct calls of the structural primitives on copies of real states with ids the methods
    never pass: cited lines removed, lines that do not exist, citations that are not admissible.
    The model has to agree with the real ProofState outside the preconditions of the theorems too
    (this is what ties the counterexample theorems about `remove_line` to the code)."""
    from kernel.proof import ItemID
    rng = ctx.rng("adversarial-primitives")
    states = getattr(ctx, "adv_states", None) or []
    orig = recorder.orig
    if not all(k in orig for k in ("add_line_before", "remove_line", "set_line", "replace_id")):
        return []
    out = []
    for st in states:
        lines = walk(st)
        if not lines:
            continue
        for _ in range(ctx.scale(4, 12)):
            pos, it = rng.choice(lines)
            r = rng.random()
            if r < 0.15:
                pos = pos[:-1] + (pos[-1] + rng.randint(1, 3),)         # possibly beyond the end
            elif r < 0.2:
                pos = pos + (rng.randint(0, 2),)                        # inside a line without subproof?
            kind = rng.choice(["remove", "remove", "add", "set", "replace"])
            tgt = copy.copy(st)
            try:
                before = recorder.state(tgt)
            except Exception:  # noqa
                continue
            try:
                if kind == "remove":
                    op = ["remove", before, list(pos)]
                    orig["remove_line"](tgt, ItemID(pos))
                elif kind == "add":
                    n = rng.randint(0, 3)
                    op = ["add", before, list(pos), n]
                    orig["add_line_before"](tgt, ItemID(pos), n)
                elif kind == "set":
                    src = rng.choice(lines)[1]
                    if src.th is None:
                        continue
                    prevs = [rng.choice(lines)[0] for _ in range(rng.randint(0, 2))]
                    op = ["set", before, list(pos), recorder.rcode("sorry"), [list(p) for p in prevs], recorder.th(src.th)]
                    orig["set_line"](tgt, ItemID(pos), "sorry", prevs=[ItemID(p) for p in prevs], th=src.th)
                else:
                    other = rng.choice(lines)[0]
                    op = ["replace", before, list(pos), list(other)]
                    orig["replace_id"](tgt, ItemID(pos), ItemID(other))
                res = ["ok", recorder.state(tgt)]
            except Exception as e:  # noqa
                # structural failures are the model's error answers; a refusal by the re-check that
                # every primitive ends with (e.g. id != position since fix C02) is not modelled
                if type(e).__name__ in ("ProofStateException", "IndexError", "AttributeError"):
                    res = "error"
                else:
                    ctx.count("adversarial:refused-by-recheck:" + type(e).__name__)
                    continue
            out.append((op, res))
    return out


def correspondence(ctx, recorder, exe=None, id_cases=None):
    from kernel.proof import ItemID
    exe = exe or EXE
    rng = ctx.rng("ids")
    lines, expect, label = [], [], []
    # --- ItemID arithmetic on generated ids (shared prefixes on purpose)
    def rid():
        return [rng.randint(0, 3) for _ in range(rng.randint(1, 4))]
    for _ in range(ctx.scale(3000, 30000) if id_cases is None else id_cases):
        a = rid()
        b = rid()
        if rng.random() < 0.6:
            k = rng.randint(0, min(len(a), len(b)))
            b = a[:k] + b[k:]
            if not b:
                b = [0]
        n = rng.randint(0, 3)
        A, B = ItemID(tuple(a)), ItemID(tuple(b))
        lines.append(sexp.dumps(["incr", a, b, n]))
        expect.append(norm(list(A.incr_id_after(B, n).id)))
        label.append("itemid:incr_id_after")
        lines.append(sexp.dumps(["decr", a, b]))
        expect.append(norm(list(A.decr_id(B).id)))
        label.append("itemid:decr_id")
        lines.append(sexp.dumps(["incrid", a, n]))
        expect.append(norm(list(A.incr_id(n).id)))
        label.append("itemid:incr_id")
        lines.append(sexp.dumps(["dep", a, b]))
        expect.append(norm(bool(A.can_depend_on(B))))
        label.append("itemid:can_depend_on")
    # --- the primitives the real run performed
    if recorder.calls > 20 and not recorder.records:
        ctx.broken("correspondence:%s:recorder" % ctx.prop.lower(),
                   "%d primitive calls seen, none could be recorded (signature of the ProofState primitives changed?)" % recorder.calls)
    if recorder.export_shape_mismatch:
        ctx.broken("correspondence:%s:exported-ids" % ctx.prop.lower(),
                   "ProofTerm.export(prefix=id, subproof=False) did not deliver lines id, id+1, ... without subproofs and with "
                   "admissible citations (hypotheses `exportedAt` / `shapeOk` of the theorems): %s" % (recorder.export_shape_mismatch[:2],))
    wf_rng = ctx.rng("wf")
    for name, op, after in recorder.records:
        lines.append(sexp.dumps(op))
        expect.append(norm(after))
        label.append("op:" + name)
        if name != "find_goal" and wf_rng.random() < 0.3:
            st = after[1]
            lines.append(sexp.dumps(["wf", st]))
            expect.append(norm(py_wf(st)))
            label.append("wf:real")
            m = mutate_structure(st, wf_rng)
            lines.append(sexp.dumps(["wf", m]))
            expect.append(norm(py_wf(m)))
            label.append("wf:mutated")
    for lab, op, res in getattr(recorder, "method_records", []) + getattr(recorder, "import_records", []) \
            + getattr(recorder, "search_records", []):
        lines.append(sexp.dumps(op))
        expect.append(norm(res))
        label.append(lab)
    for op, res in getattr(recorder, "adversarial", []):
        lines.append(sexp.dumps(op))
        expect.append(norm(res))
        label.append("adversarial:" + op[0])
        if res != "error" and wf_rng.random() < 0.5:
            lines.append(sexp.dumps(["wf", res[1]]))
            expect.append(norm(py_wf(res[1])))
            label.append("wf:adversarial")
    out = ctx.lean_driver(exe, lines) if lines else []
    if out is None or len(out) != len(lines):
        ctx.broken("correspondence:%s:driver" % ctx.prop.lower(), "model driver unavailable or answered %s lines for %d" % (None if out is None else len(out), len(lines)))
        return
    ndis = 0
    for ln, exp, lab, got in zip(lines, expect, label, out):
        ctx.count("model:" + lab)
        try:
            g = norm(sexp.loads(got))
        except Exception:  # noqa
            g = got
        if exp == "error" and isinstance(g, list) and g and g[0] == "error":
            g = "error"
        if g != exp:
            ndis += 1
            if ndis <= 3:
                ctx.broken("correspondence:%s:%s" % (ctx.prop.lower(), lab), "input=%s impl=%s model=%s" % (ln[:600], str(exp)[:400], str(g)[:400]))
                ctx.coverage["disagreements_checked"] += 1
    ctx.coverage["model_comparisons"] = len(lines)
    ctx.coverage["primitive_calls_skipped"] = recorder.skipped
    ctx.log("correspondence: %d model answers compared, %d disagreements" % (len(lines), ndis))


# ====================================================================== main
def run(ctx):
    ctx.coverage["rule"] = (
        "goals: every theorem with recorded steps of the listed library theories (at its own point of the theory) and generated "
        "propositional/predicate goals in theory logic; sequences: recorded steps as they are, recorded steps with injected perturbations "
        "(repeat, other goal id, other facts, interleaved cut/cases/introduction/forall_elim/exists_elim/revert_intro/rewrite/apply_prev/"
        "apply_fact/new_var/inst_exists_goal and search_method suggestions with type-directed parameters; near-miss witness names for "
        "exists_elim; cut at non-gap lines followed by the suggested backward steps), random walks; every step on the "
        "live state or on copy.copy(state) (adopted or discarded). A case = one completed step judged by all invariants; non-trivial = at "
        "least two completed steps in the sequence; distinct by (goal, completed step sequence).")
    try:                               # `kill -USR1 <pid>` prints where a run is (diagnosis of hangs)
        import faulthandler
        import signal
        faulthandler.register(signal.SIGUSR1)
    except Exception:  # noqa
        pass
    proofs_ok = ctx.lean_props(PROPS, exes=[EXE])
    if ctx.tier == "thorough" and proofs_ok:
        ctx.lean_check_modules(PROPS)
    ctx.findings = ctx.findings + [dict(f, property="C13") for f in FINDINGS if not any(g["key"] == f["key"] for g in ctx.findings)]
    ctx.coverage["trusted_base"] += [
        "property oracle harness/props/c13.py: invariants evaluated on the real ProofState objects with holpy's own checker "
        "(theory.check_proof) as the judge of 'checkable'; independent visibility/numbering walk",
        "term printing/parsing (C07) for the export/import comparison"]
    ctx.assumptions += [
        "an operation that raises (AssertionError, TacticException, ParameterQueryException, CheckProofException, MatchException, ...) "
        "did not complete: nothing is claimed about the state it leaves; the harness continues from a rebuilt state (the web app edits copies)",
        "lines justified by the `z3` macro are accepted without calling Z3 (z3wrapper.check_z3 = False, as server/monitor.py does)",
        "copy isolation is checked on the real objects after every step; it is not a theorem (a pure model cannot exhibit sharing)"]
    recorder = Recorder(ctx.scale(3000, 40000), every=ctx.scale(5, 2))
    recorder.install(ctx)
    global IMPORT_ENCODER
    IMPORT_ENCODER = recorder
    ctx.adv_states = []
    try:
        oracle_streams(ctx, recorder)
    finally:
        recorder.uninstall()
    try:
        recorder.adversarial = adversarial_primitives(ctx, recorder)
    except Exception as e:  # noqa
        ctx.broken("correspondence:c13:adversarial", "could not run the adversarial primitive calls: %r" % e)
    correspondence(ctx, recorder)


def neutralise_z3(ctx):
    """A native Z3 call cannot be interrupted by the harness's time limit and its running time is
    not reproducible; like server/monitor.py the check runs with `z3wrapper.check_z3 = False`
    (a `z3` line is then accepted by method and checker alike; Z3's verdicts are C06's subject)."""
    try:
        from prover import z3wrapper
        z3wrapper.check_z3 = False
    except Exception:  # noqa
        pass


def oracle_streams(ctx, recorder=None):
    neutralise_z3(ctx)
    run_corpus(ctx)
    theories = THEORIES_QUICK if ctx.tier == "quick" else THEORIES_THOROUGH
    budget = {"logic_base": 14, "logic": 22, "function": 8, "list": 8, "hoare": 8, "nat": 22, "set": 14}
    nshown = 0
    for thy in theories:
        rng = ctx.rng("lib/" + thy)
        goals = []
        try:
            for item in theory_items(thy):
                if item.steps:
                    goals.append(Goal(thy, item.name, item.vars, item.prop, steps=item.steps))
                    # the theory is extended as the generator advances: run the goal now
                    g = goals[-1]
                    limit = budget.get(thy, 20) if ctx.tier == "quick" else 10 ** 6
                    pick = len(goals) <= limit or rng.random() < 0.06
                    if not pick:
                        continue
                    heavy = ctx.tier == "thorough" or len(goals) <= 8
                    run_recorded(ctx, g, rng, 0.0, 1.0 if heavy else 0.3, recorder)
                    run_recorded(ctx, g, rng, 0.35, 0.3, recorder)
                    if heavy or rng.random() < 0.3:
                        run_walk(ctx, g, rng, ctx.scale(6, 14), 0.3, recorder)
                    if nshown < 4 and len(g.steps) >= 3:
                        nshown += 1
                        ctx.sample({"goal": g.ident(), "steps": [clean_step(s) for s in g.steps[:4]]})
        except Timeout:
            ctx.count("timeout:theory:" + thy)
        except Exception as e:  # noqa   loading the theory itself failed (C12's subject)
            ctx.count("theory-load-fails:%s:%s" % (thy, type(e).__name__))
            ctx.log("theory %s could not be loaded: %s" % (thy, short(e)))
        ctx.log("theory %s: %d goals, %d cases so far" % (thy, len(goals), ctx.coverage["evaluations"]))
    # generated goals
    from logic import basic
    run_directed(ctx, ctx.rng("directed"), recorder)
    basic.load_theory("logic")
    rng = ctx.rng("generated")
    for g in gen_goals(rng, ctx.scale(40, 600)):
        try:
            g.init_state()
        except Exception:  # noqa
            ctx.count("generated:unparsable")
            continue
        run_walk(ctx, g, rng, ctx.scale(8, 16), 0.5, recorder)
    ctx.log("generated goals done: %d cases" % ctx.coverage["evaluations"])


def replay(ctx, rp):
    """Re-run one recorded failing sequence on the implementation; True if it still fails."""
    neutralise_z3(ctx)
    r = rp["replay"]
    goal = load_goal(r["goal"])
    rng = ctx.rng("replay")
    run_ = Runner(ctx, goal, rng, 1.0)
    for t in r["trail"]:
        run_.apply(t["step"], on_copy=t["on_copy"], adopt=t.get("adopt", True), source="replay")
    run_.check_frozen()
    for v in ctx.violations:
        print("still fails:", v[1][:400])
    return bool(ctx.violations)


MANIFEST = {
    "text": "Property oracle on the real server/method.py + server/server.py after every completed step of generated edit sequences "
            "(corpus of past failures first; recorded library steps, search_method suggestions, random perturbation incl. the same method "
            "again in the same scope; after every step, on discarded copies and with a random stream of their own: revert_intro of the "
            "assumption a structural method (exists_elim, induction, cases, introduction) just introduced, and every fact-taking method / "
            "search with a fact the gap may not cite - a line of a closed earlier sibling block, a later line, a deeper line - which must be "
            "refused; after every step that declared variables, exists_elim with a witness name that is already declared at the goal "
            "(preferably between the cited fact and the goal; also 12% of all generated exists_elim) - must be refused, a completed one is "
            "keyed recheck-fails:witness-name-already-declared; states whose hypotheses do not grow along the visible lines: cut aimed at "
            "a line that is not a gap, stating a goal built from the proposition of an earlier line with a hypothesis the new gap lacks, "
            "then every search_method suggestion for that gap; directed scenarios; live state or copy): contiguous numbering, every citation of every line earlier+visible by the "
            "harness's own reading (same or enclosing block, strictly earlier position), last line = stated goal (stated sequent and rule, "
            "compared after every completed step, and the re-check must return that sequent), full re-check with exactly the open gaps, acceptance with no_gaps when none is left, export->import identity, copy "
            "isolation (lines, variables, report; identity and content of every argument object; no Proof/ProofItem/prevs object shared with a "
            "copy). Lean: executable model of the proof tree and "
            "of add_line_before / remove_line / set_line / replace_id / find_goal / apply_tactic, of export_proof / parse_proof (structure "
            "only) and of the sharing between a state and its copy; tied to the code by replaying every recorded primitive call, adversarial "
            "primitive calls outside the preconditions, every export/import pair, the ItemID arithmetic and the heap effect of every "
            "operation applied to a copy. PROVED: edit_preserves_wf / edits_preserve_wf (all five operations keep ids = positions at every "
            "depth and citations within can_depend_on, under the preconditions the code establishes); wf_citation_resolves; goal_preserved "
            "(all five operations keep rule and sequent of the last top-level line under safeRunAll), apply_tactic_keeps_statement / "
            "apply_tactic_keeps_goal_line / tactics_preserve_goal (apply_tactic changes no top-level line other than its goal; after any "
            "sequence of tactic applications the last line still states the original goal; hypotheses: exported lines numbered id, id+1, .. "
            "- checked on every captured export - and the last line is not a gap); apply_tactic_keeps_statement_nested (goal at any depth: "
            "in the proof that contains the goal every other line keeps rule and sequent, in place; only the goal line is replaced by the "
            "surviving lines of the proof term); edit_frame (each of the five operations leaves every line that is neither in the proof "
            "containing its target nor below one of that proof's lines exactly as it was: id, rule, citations, sequent, subproof flag - "
            "other top-level lines, enclosing proofs incl. the owning subproof line, sibling subproofs); import_numbered (whatever parse_proof accepts has ids = "
            "positions); copy_isolated (operations that only attach fresh argument objects - all operations as coded - leave every earlier "
            "state unchanged) with in_place_update_not_isolated_counterexample; remove_line_cited_*_counterexample (remove_line does not "
            "check that the line is uncited) with remove_line_callers_establish_precondition (both callers do establish it: after "
            "replace_id's re-pointing, and after revert_intro's guard `not is_used` + its two set_line calls [revertIntroM, stream "
            "method:revert_intro], no line of the parent proof or below cites the line that remove_line then removes). "
            "export_import_id (importLines (exportLines s) = s for every proof, subproofs at any depth, whose ids equal positions and whose "
            "subproof lines have non-empty subproofs). PARTIAL / NOT proved: inside the proof an operation works in, edit_frame says nothing (there: the "
            "wf theorems and apply_tactic_keeps_statement_nested; that the primitives keep rule/sequent of the untouched lines of that "
            "proof is immediate from their definition and compared by the primitive stream, not a separate theorem); that the new "
            "conclusion line states a sequent proving the goal's is the hypothesis pt.th.can_prove(goal) asserted by fix C13-9, not a "
            "theorem; printed arguments/sequents are opaque (C07); copy isolation is proved for the aliasing model, the claim that the "
            "code only allocates is the `alias` stream.",
    "note": "Trusted: Lean kernel (propext/Classical.choice/Quot.sound), the harness (generators, invariants, recorder), holpy's own checker "
            "theory.check_proof as the judge of 'checkable', term printing/parsing for the export comparison, z3 checks switched off "
            "(z3wrapper.check_z3=False). Tactic bodies are not modelled (a tactic is the list of its exported lines).",
    "design_ref": "DESIGN.md 4/C13",
}
FINDINGS = [
    {"status": "known", "key": "import-fails:shadowed-variable",
     "what": "a proof in which `introduction` re-declares a variable of the context with another type (recorded steps of set.card_insert: "
             "names 'x, y, s' with s :: 'a set in the context) exports to a text server.parse_proof cannot read back (the name has one type per text)"},
    {"status": "known", "key": "import-fails:inst-tyinst-lost",
     "what": "the textual form of an Inst argument ({x: t, ...}) drops its type instantiation: a line `apply_theorem_for finite_empty, {}` "
             "(set.finite_subset after apply_backward_step finite_empty) is exported without 'a := 'a and fails its re-check after import"},
    {"status": "known", "key": "recheck-fails:assumption-cited-twice:revert_intro",
     "what": "revert_intro when introduction has identified two equal assumptions (generated goal C, steps cases A, cases A, introduction on "
             "`A --> A --> C`, revert_intro 0.3 fact 0.0): both citations of the assumption are dropped from the intros line and the state "
             "no longer re-checks (A --> C derived for the stated A --> A --> C)"},
    {"status": "known", "key": "recheck-fails:repeated-exists-elim:exists_elim",
     "what": "a second exists_elim in a scope that already has one (generated goal ~B --> (?x. Q x & Q x) --> ~B, exists_elim with names k at a "
             "later gap, then exists_elim with names k1 at an earlier gap): the intros line keeps a hypothesis Q k1 & Q k1 and the state "
             "does not re-check"},
    {"status": "fixed", "key": "import-fails:cases:TypeInferenceException:_Unspecified_type_Var(k,", "commit": "8d0afa4",
     "what": "get_vars(id) put the variable declared at line id in scope of a line inserted before it (nat.mult_1_right: new_var k at 0, "
             "cut `k` at 0): the export mentions k before its declaration and cannot be re-imported"},
    {"status": "fixed", "key": "recheck-fails:fact-with-foreign-hypothesis:apply_backward_step", "commit": "7a9753d",
     "what": "apply_backward_step with a fact that depends on a hypothesis the goal does not have replaced the goal line by one with a "
             "weaker sequent, after which the lines citing it did not re-check (corpus: (A --> B) --> ~B --> ~A, cut ~B at 2, revert_intro "
             "goal 3 fact 1, apply_backward_step negE_gen goal 2 fact 1); now refused by the tactic itself, in search and in apply"},
    {"status": "fixed", "key": "recheck-fails:fact-with-foreign-hypothesis:rewrite_goal_with_prev", "commit": "7a9753d",
     "what": "the same through rewrite_goal_with_prev (corpus: cut `~A <--> C` at 2, revert_intro goal 3 fact 1, rewrite_goal_with_prev "
             "goal 2 fact 1)"},
    {"status": "fixed", "key": "recheck-fails:fact-with-foreign-hypothesis:z3", "commit": "cbfaf14",
     "what": "the z3 method overwrote the goal line without its stated sequent; with a fact that depends on a hypothesis the goal lacks "
             "(corpus: perturbed replay of set.card_delete, goal 2.1, fact 2.0) the state no longer re-checked"},
    {"status": "fixed", "key": "import-fails:induction:TypeError:", "commit": "8aad925",
     "what": "a state with an apply_induct line (any use of the induction method, e.g. list.append_right_neutral) could not be re-imported: "
             "parser.parse_args had no case for Tuple[str, Term, Term]"},
    {"status": "fixed", "key": "recheck-fails:revert_intro:CheckProofException:_output_does_not", "commit": "e20167b",
     "what": "revert_intro on an assumption that is not the last one introduced / is used elsewhere / whose goal is not followed by intros "
             "left an uncheckable state (recorded proof of set.card_image_inj; logic_base.classical_cases goal 2 fact 0)"},
    {"status": "fixed", "key": "goal-changed:rewrite_fact_with_prev:last_line_is_`|-", "commit": "e61016c",
     "what": "rewrite_fact / rewrite_fact_with_prev / apply_forward_step with a proved line selected as goal deleted that line when an earlier "
             "line had the same sequent (nat.mult_eq_1: the final line disappeared)"},
    {"status": "fixed", "key": "recheck-fails:nat_norm:AssertionError:_nat_norm_macro:_normalization_is", "commit": "580dfe6",
     "what": "nat_norm method completed on equalities its macro cannot prove (nat_norm_macro.eval returned the goal unchecked)"},
    {"status": "fixed", "key": "recheck-fails:introduction:IndexError:_list_index_out", "commit": "4c6677c",
     "what": "introduction's already-proved loop removed the conclusion of the new subproof / replaced an assumption by a proved fact; "
             "a given name captured a free variable of the goal (nat.mult_eq_1 `!n. m * n = 1 ...` with name m)"},
    {"status": "fixed", "key": "recheck-fails:exists_elim:AssertionError:_intros_macro", "commit": "27f9eb0",
     "what": "exists_elim on a line that is not a gap (logic.right_or_exists_thm, goal 0.2.1 = `assume P`) added a hypothesis to assume lines"},
    {"status": "fixed", "key": "recheck-fails:rewrite_goal_with_prev:AssertionError:_export:_atom", "commit": "23d0687",
     "what": "rewrite_goal_with_prev with a fact like 0 = 0 left the goal unchanged and an uncheckable line (nat.lt_exp)"},
]
