"""C16 — Omega test and simplex give correct verdicts with valid witnesses / certificates.

Stages: (1) `combine_real_factoid` / `combine_dark_factoid` are translated from the current
prover/omega.py into lean/Holpy/C16/Gen.lean; Lean obligations (Holpy.C16.Props) + driver.
(2) correspondence: the real `prover.omega.solve_matrix` against the Lean model (verdict, witness,
derivation) on generated integer systems.  (3) property oracle on the implementation's own answers:
witnesses through the verified `checkWitness` and an independent Python evaluation, contradictions
through the verified `checkDeriv`, brute force over the box -6..6 and Z3 (LIA).  (4) simplex
(`prover.simplex.Simplex`, `branch_and_bound`, `prover.simplex_strict.Simplex`): witnesses
checked exactly (`checkWitnessQ`), "unsatisfiable" explanations turned into Farkas multipliers and
checked by the verified `checkFarkas`, verdicts compared with Z3 (LRA/LIA).  (5) `OmegaHOL.solve`
and `SimplexHOLWrapper` proof terms: accepted by `theory.check_proof`, conclude `false`,
hypotheses among the given constraints.
"""
import ast
import itertools
import json
import math
import os
from fractions import Fraction

from harness.common import sexp
from harness.common.ctx import Timeout, time_limit

EXE = "c16_model"
FUEL = 12
BOX = 6



# ------------------------------------------------------------------ translator (omega.combine_*_factoid -> Gen.lean)
# Tiny Python-AST -> Lean translator for the two pure shadow-combination functions of
# prover/omega.py (`combine_real_factoid`, `combine_dark_factoid`).  It never imports the code it
# translates.  Anything outside the subset raises Untranslatable (the check then reports the
# obligation as no longer checked; it never guesses).
#
# Subset: parameters (first: int, others: tuples of ints); statements `assert e[, msg]`,
# `x = e`, `x, y = e1, e2`, `x[k] = e`, `return Factoid(e)`; expressions over ints (+ - * unary -,
# `int(a / b)`, `gcd(a, b)`, `len(l)`, `l[e]`, comparisons, `and`), and one list form
# `[e for m, n in zip(l1, l2)]`.
class Untranslatable(Exception):
    pass


FUNCS = ["combine_real_factoid", "combine_dark_factoid"]


class Tr:
    def __init__(self, params):
        self.lists = set(params[1:])
        self.ints = {params[0]}

    # ---- expressions of type Int
    def int_expr(self, e):
        if isinstance(e, ast.Constant) and isinstance(e.value, int) and not isinstance(e.value, bool):
            return "(%d : Int)" % e.value
        if isinstance(e, ast.Name):
            if e.id in self.ints:
                return e.id
            raise Untranslatable("name %s is not a known int" % e.id)
        if isinstance(e, ast.UnaryOp) and isinstance(e.op, ast.USub):
            return "(-%s)" % self.int_expr(e.operand)
        if isinstance(e, ast.BinOp) and isinstance(e.op, (ast.Add, ast.Sub, ast.Mult)):
            op = {ast.Add: "+", ast.Sub: "-", ast.Mult: "*"}[type(e.op)]
            return "(%s %s %s)" % (self.int_expr(e.left), op, self.int_expr(e.right))
        if isinstance(e, ast.Subscript):
            return "(Py.idx %s %s)" % (self.list_expr(e.value), self.int_expr(e.slice))
        if isinstance(e, ast.Call) and isinstance(e.func, ast.Name) and not e.keywords:
            f = e.func.id
            if f == "gcd" and len(e.args) == 2:
                return "(Py.gcd %s %s)" % (self.int_expr(e.args[0]), self.int_expr(e.args[1]))
            if f == "len" and len(e.args) == 1:
                return "(Py.len %s)" % self.list_expr(e.args[0])
            if f == "int" and len(e.args) == 1 and isinstance(e.args[0], ast.BinOp) and isinstance(e.args[0].op, ast.Div):
                d = e.args[0]
                return "(Py.intDiv %s %s)" % (self.int_expr(d.left), self.int_expr(d.right))
        raise Untranslatable("int expression " + ast.dump(e)[:80])

    def list_expr(self, e):
        if isinstance(e, ast.Name) and e.id in self.lists:
            return e.id
        if isinstance(e, ast.ListComp) and len(e.generators) == 1:
            g = e.generators[0]
            if (not g.ifs and not g.is_async and isinstance(g.target, ast.Tuple) and len(g.target.elts) == 2
                    and all(isinstance(t, ast.Name) for t in g.target.elts)
                    and isinstance(g.iter, ast.Call) and isinstance(g.iter.func, ast.Name) and g.iter.func.id == "zip"
                    and len(g.iter.args) == 2 and not g.iter.keywords):
                a, b = (t.id for t in g.target.elts)
                if a in self.lists or b in self.lists or a == b:
                    raise Untranslatable("comprehension variable shadows a list")
                saved = set(self.ints)
                self.ints |= {a, b}
                body = self.int_expr(e.elt)
                self.ints = saved
                return "(List.zipWith (fun %s %s => %s) %s %s)" % (a, b, body, self.list_expr(g.iter.args[0]), self.list_expr(g.iter.args[1]))
        raise Untranslatable("list expression " + ast.dump(e)[:80])

    def bool_expr(self, e):
        if isinstance(e, ast.BoolOp) and isinstance(e.op, ast.And):
            return "(" + " && ".join(self.bool_expr(v) for v in e.values) + ")"
        if isinstance(e, ast.Compare) and len(e.ops) == 1:
            ops = {ast.Lt: "<", ast.Gt: ">", ast.LtE: "≤", ast.GtE: "≥", ast.Eq: "=", ast.NotEq: "≠"}
            if type(e.ops[0]) in ops:
                return "decide (%s %s %s)" % (self.int_expr(e.left), ops[type(e.ops[0])], self.int_expr(e.comparators[0]))
        raise Untranslatable("condition " + ast.dump(e)[:80])

    # ---- statements
    def assign(self, name, value, out):
        try:
            rhs = self.int_expr(value)
            kind = "int"
        except Untranslatable:
            rhs = self.list_expr(value)
            kind = "list"
        out.append("  let %s := %s" % (name, rhs))
        (self.ints if kind == "int" else self.lists).add(name)
        (self.lists if kind == "int" else self.ints).discard(name)

    def index_guards(self, st):
        """`l[e]` raises IndexError outside -len..len-1: one guard per statement, before the statement
        (every failure of the function is `none` and nothing has side effects, so hoisting is exact)."""
        bound = set()
        for n in ast.walk(st):
            if isinstance(n, ast.ListComp):
                for g in n.generators:
                    bound |= {x.id for x in ast.walk(g.target) if isinstance(x, ast.Name)}
        guards = []
        for n in ast.walk(st):
            if isinstance(n, ast.Subscript):
                if {x.id for x in ast.walk(n) if isinstance(x, ast.Name)} & bound:
                    raise Untranslatable("subscript depends on a comprehension variable")
                g = "Py.inRange %s %s" % (self.list_expr(n.value), self.int_expr(n.slice))
                if g not in guards:
                    guards.append(g)
        return guards

    def stmts(self, body):
        out = []
        for k, st in enumerate(body):
            if isinstance(st, ast.Expr) and isinstance(st.value, ast.Constant) and isinstance(st.value.value, str):
                continue  # docstring
            guards = self.index_guards(st)
            if guards:
                out.append("  if !(%s) then none else" % " && ".join(guards))
            if isinstance(st, ast.Assert):
                out.append("  if !%s then none else" % self.bool_expr(st.test))
            elif isinstance(st, ast.Assign) and len(st.targets) == 1:
                t = st.targets[0]
                if isinstance(t, ast.Name):
                    self.assign(t.id, st.value, out)
                elif isinstance(t, ast.Tuple) and isinstance(st.value, ast.Tuple) and len(t.elts) == len(st.value.elts) \
                        and all(isinstance(x, ast.Name) for x in t.elts):
                    names = [x.id for x in t.elts]
                    used = {n.id for v in st.value.elts for n in ast.walk(v) if isinstance(n, ast.Name)}
                    if used & set(names):
                        raise Untranslatable("simultaneous assignment reads its own targets")
                    for n, v in zip(names, st.value.elts):
                        self.assign(n, v, out)
                elif isinstance(t, ast.Subscript) and isinstance(t.value, ast.Name) and t.value.id in self.lists:
                    out.append("  let %s := Py.setIdx %s %s %s" % (t.value.id, t.value.id, self.int_expr(t.slice), self.int_expr(st.value)))
                else:
                    raise Untranslatable("assignment target " + ast.dump(t)[:80])
            elif isinstance(st, ast.Return):
                v = st.value
                if not (isinstance(v, ast.Call) and isinstance(v.func, ast.Name) and v.func.id == "Factoid" and len(v.args) == 1 and not v.keywords):
                    raise Untranslatable("return value " + ast.dump(v)[:80])
                if k != len(body) - 1:
                    raise Untranslatable("return is not the last statement")
                out.append("  Py.factoid %s" % self.list_expr(v.args[0]))
                return out
            else:
                raise Untranslatable("statement " + ast.dump(st)[:80])
        raise Untranslatable("function does not end in return")


def translate_combine(repo):
    with open(os.path.join(repo, "prover", "omega.py"), encoding="utf-8") as f:
        tree = ast.parse(f.read())
    found = {n.name: n for n in tree.body if isinstance(n, ast.FunctionDef) and n.name in FUNCS}
    lines = ["/- GENERATED by harness/props/c16.py (translate_combine) from prover/omega.py; do not edit. -/",
             "import Holpy.C16.Py", "namespace Holpy.C16.Gen", "open Holpy.C16", ""]
    for name in FUNCS:
        if name not in found:
            raise Untranslatable("function %s not found" % name)
        fn = found[name]
        a = fn.args
        if a.vararg or a.kwarg or a.kwonlyargs or a.defaults or a.posonlyargs or len(a.args) != 3:
            raise Untranslatable("signature of %s" % name)
        params = [x.arg for x in a.args]
        tr = Tr(params)
        body = tr.stmts(fn.body)
        lines.append("def %s (%s : Int) (%s %s : List Int) : Option (List Int) :=" % (name, params[0], params[1], params[2]))
        lines += body
        lines.append("")
    lines.append("end Holpy.C16.Gen")
    return "\n".join(lines) + "\n"


# ------------------------------------------------------------------ generators
def rand_row(rng, nv, K, sparsity=0.3, cK=None):
    cK = K if cK is None else cK
    return [0 if rng.random() < sparsity else rng.randint(-K, K) for _ in range(nv)] + [rng.randint(-cK, cK)]


def neg_row(r, shift=0):
    return [-c for c in r[:-1]] + [-r[-1] + shift]


def gen_system(rng):
    """One system (list of rows, each nv coefficients + constant) and the name of its shape."""
    nv = rng.randint(1, 5)
    nr = rng.randint(1, 8)
    shape = rng.choice(["plain", "plain", "sparse", "dense", "equalities", "parity", "dark", "dark", "unbounded",
                        "zero-rows", "duplicates", "boxed", "var0-exact", "nonunit-single", "bounds-last", "grey"])
    K = rng.choice([1, 2, 3, 4, 4])
    rows = []
    if shape == "plain":
        rows = [rand_row(rng, nv, K) for _ in range(nr)]
    elif shape == "sparse":
        rows = [rand_row(rng, nv, K, 0.6) for _ in range(nr)]
    elif shape == "dense":
        rows = [rand_row(rng, nv, K, 0.0) for _ in range(nr)]
    elif shape == "equalities":          # equalities as paired inequalities
        while len(rows) < nr:
            r = rand_row(rng, nv, K)
            rows += [r, neg_row(r)]
            if rng.random() < 0.5:
                rows.append(rand_row(rng, nv, K))
        rows = rows[:max(2, nr)]
    elif shape == "parity":              # a <= k*x+... <= a (+-1): rational but maybe no integer solutions
        while len(rows) < nr:
            r = rand_row(rng, nv, K)
            rows += [r, neg_row(r, rng.choice([0, 1, 1, 2, -1]))]
        rows = rows[:max(2, nr)]
    elif shape == "dark":                # no unit coefficients: inexact elimination (dark / grey shadows)
        nv = max(nv, 2)
        for _ in range(max(nr, 3)):
            rows.append([rng.choice([-4, -3, -2, 2, 3, 4]) if rng.random() < 0.8 else 0 for _ in range(nv)] + [rng.randint(-4, 4)])
        rows = rows[:8]
    elif shape == "unbounded":           # every variable bounded on one side only / free directions
        signs = [rng.choice([-1, 1]) for _ in range(nv)]
        for _ in range(nr):
            rows.append([0 if rng.random() < 0.3 else signs[i] * rng.randint(0, K) for i in range(nv)] + [rng.randint(-4, 4)])
    elif shape == "zero-rows":
        rows = [rand_row(rng, nv, K) for _ in range(nr)]
        for _ in range(rng.randint(1, 2)):
            rows.insert(rng.randint(0, len(rows)), [0] * nv + [rng.choice([-2, -1, 0, 0, 1, 3])])
        if rng.random() < 0.2:
            rows = [[0] * nv + [rng.randint(-2, 2)] for _ in range(rng.randint(1, 3))]
        rows = rows[:8]
    elif shape == "duplicates":
        rows = [rand_row(rng, nv, K) for _ in range(max(1, nr // 2))]
        while len(rows) < nr:
            r = list(rng.choice(rows))
            if rng.random() < 0.5:
                r[-1] += rng.choice([-1, 0, 1])       # same key, different constant
            if rng.random() < 0.2:
                r = [2 * c for c in r]                # a multiple of an earlier row
                r = [max(-4, min(4, c)) for c in r]
            rows.append(r)
    elif shape == "boxed":               # every variable in a small box + a few cuts: bounded problems
        for i in range(nv):
            lo, hi = sorted([rng.randint(-3, 3), rng.randint(-3, 3)])
            e = [0] * nv
            e[i] = 1
            rows.append(e + [-lo])
            rows.append([-c for c in e] + [hi])
        rng.shuffle(rows)
        rows = rows[:6]
        while len(rows) < 8 and rng.random() < 0.8:
            rows.append(rand_row(rng, nv, K))
    elif shape == "bounds-last":         # a few constraints over several variables first, then bounds x_i >= b / x_i <= b
        nv = max(nv, 2)
        for _ in range(rng.randint(1, 3)):
            rows.append(rand_row(rng, nv, K, 0.2))
        for i in rng.sample(range(nv), rng.randint(1, nv)):
            e = [0] * nv
            e[i] = rng.choice([1, 1, -1])
            rows.append(e + [rng.randint(-4, 4)])
            if rng.random() < 0.3:
                rows.append([-c for c in e] + [rng.randint(-4, 4)])
        rows = rows[:8]
        return [list(r) for r in rows], shape          # the order is the point: never shuffled
    elif shape == "grey":                # k <= a.x <= k+1 with non-unit a: real shadow true, dark shadow false (grey region)
        nv = max(nv, 2)
        a = [rng.choice([-5, -4, -3, -2, 2, 3, 4, 5]) if rng.random() < 0.8 else 0 for _ in range(nv)]
        if sum(1 for c in a if c) < 2:
            a[0], a[1] = 3, 5
        k = rng.randint(-3, 3)
        rows = [a + [-k], [-c for c in a] + [k + rng.choice([0, 1, 1, 2])]]
        while len(rows) < nr and rng.random() < 0.6:
            rows.append(rand_row(rng, nv, K))
    elif shape == "var0-exact":          # variable 0 has unit coefficients (omega.py treats index 0 as "no exact variable")
        nv = max(nv, 2)
        for _ in range(max(nr, 2)):
            r = [rng.choice([-4, -3, -2, 2, 3, 4, 0]) for _ in range(nv)] + [rng.randint(-4, 4)]
            r[0] = rng.choice([-1, 1, 1, -1, 0])
            rows.append(r)
    elif shape == "nonunit-single":      # single-variable rows with non-unit coefficients (need gcd tightening)
        for _ in range(nr):
            r = [0] * nv + [rng.randint(-4, 4)]
            r[rng.randrange(nv)] = rng.choice([-4, -3, -2, 2, 3, 4, 1, -1])
            rows.append(r)
        if rng.random() < 0.4:
            rows.append(rand_row(rng, nv, K))
    rows = [list(r) for r in rows][:8]
    if rng.random() < 0.15:
        rng.shuffle(rows)
    return rows, shape


def gen_small(rng):
    """small systems (1-3 variables, 2-4 rows, entries in -2..2), often contradictory pairs"""
    nv = rng.randint(1, 3)
    rows = [rand_row(rng, nv, 2, 0.3) for _ in range(rng.randint(1, 3))]
    if rng.random() < 0.7:
        r = rng.choice(rows)
        rows.append(neg_row(r, rng.choice([-1, -1, -2, 0])))
    rng.shuffle(rows)
    return rows, "small"


def gen_exhaustive(nv, max_rows, K, cK):
    """Every multiset of <= max_rows rows over nv variables, coefficients in -K..K, constants in -cK..cK."""
    rows = [list(r) for r in itertools.product(*([range(-K, K + 1)] * nv + [range(-cK, cK + 1)]))]
    for k in range(1, max_rows + 1):
        for combo in itertools.combinations_with_replacement(rows, k):
            yield [list(r) for r in combo]


# ------------------------------------------------------------------ independent oracles
def eval_row(r, val):
    return sum(c * val[i] for i, c in enumerate(r[:-1])) + r[-1]


_grids = {}


def brute_point(rows, box=BOX):
    """An integer point of the box [-box, box]^n satisfying every row, or None (numpy int64: exact here)."""
    import numpy as np
    nv = len(rows[0]) - 1
    if nv == 0:
        return () if all(r[-1] >= 0 for r in rows) else None
    g = _grids.get((nv, box))
    if g is None:
        axes = np.meshgrid(*[np.arange(-box, box + 1, dtype=np.int64)] * nv, indexing="ij")
        g = np.stack([a.ravel() for a in axes], axis=1)
        _grids[(nv, box)] = g
    ok = np.ones(len(g), dtype=bool)
    for r in rows:
        ok &= (g @ np.array(r[:-1], dtype=np.int64) + r[-1]) >= 0
        if not ok.any():
            return None
    pt = tuple(int(x) for x in g[int(np.argmax(ok))])
    assert all(eval_row(r, pt) >= 0 for r in rows)
    return pt


_z3 = None


def z3mod():
    global _z3
    if _z3 is None:
        import z3
        _z3 = z3
    return _z3


def z3_sat(rows, integer=True, strict=None):
    """True/False/None(unknown): does the system have an integer (or real) solution?"""
    z3 = z3mod()
    nv = len(rows[0]) - 1
    xs = [(z3.Int if integer else z3.Real)("x%d" % i) for i in range(nv)]
    s = z3.Solver()
    s.set("timeout", 20000)
    for k, r in enumerate(rows):
        e = z3.Sum([c * x for c, x in zip(r[:-1], xs)] + [z3.IntVal(r[-1])]) if nv else z3.IntVal(r[-1])
        s.add(e > 0 if (strict and strict[k]) else e >= 0)
    res = s.check()
    return True if res == z3.sat else False if res == z3.unsat else None


def replay_deriv(rows, d):
    """Independent replay of an omega derivation with the textbook rules (not the code under test):
    returns the derived row or None.  rc: the positive combination of a lower and an upper bound on
    x_i that cancels x_i, divided by the gcd of the two multipliers; gcd: division by the gcd of the
    variable coefficients, constant rounded down; dc: sum of the two rows."""
    tag = d[0]
    if tag == "asm":
        return list(d[1]) if list(d[1]) in [list(r) for r in rows] else None
    if tag == "rc":
        i, f1, f2 = d[1], replay_deriv(rows, d[2]), replay_deriv(rows, d[3])
        if f1 is None or f2 is None or len(f1) != len(f2) or not (0 <= i < len(f1) - 1) or not (f1[i] > 0 > f2[i]):
            return None
        g = math.gcd(f1[i], -f2[i])
        return [(-f2[i] // g) * m + (f1[i] // g) * n for m, n in zip(f1, f2)]
    if tag == "gcd":
        f = replay_deriv(rows, d[1])
        if f is None:
            return None
        g = 0
        for c in f[:-1]:
            g = math.gcd(g, c)
        if g <= 1:
            return None
        if any(c % g for c in f[:-1]):
            return None
        return [c // g for c in f[:-1]] + [f[-1] // g]       # // is floor division
    if tag == "dc":
        f1, f2 = replay_deriv(rows, d[1]), replay_deriv(rows, d[2])
        if f1 is None or f2 is None or len(f1) != len(f2):
            return None
        return [a + b for a, b in zip(f1, f2)]
    return None


def is_false_row(f):
    return f is not None and len(f) >= 1 and not any(f[:-1]) and f[-1] < 0


_reported = {}


def report(ctx, kind, key, what, replay, cap=4):
    """ctx.violation with at most `cap` replay files per kind of failure (the rest are only counted)."""
    ctx.count("violations:" + kind)
    n = _reported.get(kind, 0)
    if n >= cap:
        return
    if ctx.violation(kind + ":" + key, what, replay) == "new":
        _reported[kind] = n + 1


# ------------------------------------------------------------------ omega: implementation side
def deriv_sexp(d):
    n = type(d).__name__
    if n == "ASM":
        return ["asm", [int(c) for c in d.t.coeff]]
    if n == "RealCombine":
        return ["rc", int(d.i), deriv_sexp(d.deriv1), deriv_sexp(d.deriv2)]
    if n == "GCDCheck":
        return ["gcd", deriv_sexp(d.deriv)]
    if n == "DirectContr":
        return ["dc", deriv_sexp(d.deriv1), deriv_sexp(d.deriv2)]
    raise ValueError("unknown derivation node %s" % n)


def run_omega(omega, rows, limit=20):
    snapshot = json.dumps(rows)
    arg = [list(r) for r in rows]
    try:
        with time_limit(limit):
            res, val = omega.solve_matrix(arg)
    except Timeout:
        return ("timeout",)
    except RecursionError:
        return ("raise", "RecursionError")
    except Exception as e:  # noqa
        return ("raise", type(e).__name__)
    if json.dumps(arg) != snapshot:
        return ("input-modified",)
    if res == "SAT":
        if not all(type(k) is int and type(v) is int for k, v in val.items()):
            return ("sat-nonint", sorted((repr(k), repr(v)) for k, v in val.items()))
        return ("sat", sorted((int(k), int(v)) for k, v in val.items()))
    if res == "UNSAT":
        try:
            return ("contr", deriv_sexp(val.deriv))
        except Exception as e:  # noqa
            return ("contr-bad-deriv", repr(e))
    if res == "NOCONCL":
        return ("noconcl",)
    return ("other", repr(res))


ERRMAP = {"assertion": "AssertionError", "value": "ValueError", "type": "TypeError"}


def parse_omega_model(line):
    x = sexp.loads(line)
    if x == "bad-op":
        return ("bad-op",), None
    if x == "noconcl":
        return ("noconcl",), None
    if x[0] == "sat":
        return ("sat", sorted((int(k), int(v)) for k, v in x[1])), x[2] == "T"
    if x[0] == "contr":
        return ("contr", unsexp(x[1])), x[2] == "T"
    if x[0] == "error":
        return ("raise", ERRMAP.get(x[1], x[1])), None
    return ("?", line), None


def unsexp(x):
    """s-expression read back: atoms that are integers become ints (derivations, rows)."""
    if isinstance(x, list):
        return [unsexp(y) for y in x]
    try:
        return int(x)
    except ValueError:
        return x


def rows_key(rows):
    return json.dumps(rows, separators=(",", ":"))


def check_omega(ctx, omega, systems, label, use_z3=True, limit=20):
    """Correspondence + property oracle for a batch of systems (list of (rows, shape))."""
    impl = [run_omega(omega, rows, limit) for rows, _ in systems]
    lines = []
    for (rows, _), res in zip(systems, impl):
        lines.append(sexp.dumps(["omega", FUEL, rows]))
        if res[0] == "sat":
            nv = len(rows[0]) - 1
            d = dict(res[1])
            ok_keys = all(0 <= k < nv for k in d)
            lines.append(sexp.dumps(["witness", rows, [d.get(i, 0) for i in range(nv)] if ok_keys else []]))
        elif res[0] == "contr":
            lines.append(sexp.dumps(["deriv", rows, res[1]]))
    out = ctx.lean_driver(EXE, lines) if lines else []
    pos = 0
    ndis = 0
    for (rows, shape), res in zip(systems, impl):
        nv = len(rows[0]) - 1
        key = rows_key(rows)
        nontriv = len(rows) >= 2 and sum(1 for r in rows if any(r[:-1])) >= 2
        ctx.case(("omega", key), nontrivial=nontriv)
        ctx.count("omega:%s:%s" % (label, res[0] if res[0] != "raise" else "raise:" + res[1]))
        ctx.count("shape:" + shape)
        model_line = out[pos] if out is not None else None
        pos += 1
        cert_line = None
        if res[0] in ("sat", "contr"):
            cert_line = out[pos] if out is not None else None
            pos += 1
        # ---------------- property oracle on the implementation's answer
        if res[0] == "timeout":
            res2 = run_omega(omega, rows, 90)
            if res2[0] == "timeout":
                ctx.count("omega:timeout-confirmed")
                continue          # termination is not part of C16
            res = res2
        if res[0] in ("sat-nonint", "contr-bad-deriv", "other", "input-modified"):
            report(ctx, "omega:malformed-answer", key, "solve_matrix(%s) answered %s" % (rows, (res,)), {"kind": "omega", "rows": rows, "result": res})
            continue
        if res[0] == "sat":
            d = dict(res[1])
            bad_keys = [k for k in d if not (0 <= k < nv)]
            vals = [d.get(i, 0) for i in range(nv)]
            viol = [r for r in rows if eval_row(r, vals) < 0]
            lean_ok = None if cert_line is None else (cert_line.strip() == "T")
            if bad_keys or viol or lean_ok is False:
                report(ctx, "omega:bad-witness", key,
                              "solve_matrix(%s) = SAT %s but row %s evaluates below 0 (Lean checkWitness: %s)" % (rows, d, (viol or ["-"])[0], lean_ok),
                              {"kind": "omega", "rows": rows, "result": res})
            elif lean_ok is None:
                pass
            ctx.count("oracle:witness-checked")
        elif res[0] == "contr":
            pt = brute_point(rows)
            z = z3_sat(rows) if (use_z3 and pt is None) else None
            dv = None
            if cert_line is not None:
                c = sexp.loads(cert_line)
                dv = (c[0] == "T")
            if pt is not None or z is True:
                report(ctx, "omega:wrong-contradiction", key,
                              "solve_matrix(%s) = UNSAT but %s is an integer solution" % (rows, list(pt) if pt is not None else "Z3 finds one"),
                              {"kind": "omega", "rows": rows, "result": res, "solution": list(pt) if pt is not None else None})
            elif dv is False or not is_false_row(replay_deriv(rows, res[1])):
                report(ctx, "omega:bad-derivation", key,
                              "solve_matrix(%s) = UNSAT with a derivation that %s: %s" % (rows, "the verified checker rejects" if dv is False else "does not replay to 0 <= negative", sexp.dumps(res[1])),
                              {"kind": "omega", "rows": rows, "result": res})
            ctx.count("oracle:contradiction-checked")
            if z is not None:
                ctx.count("oracle:z3-lia")
        elif res[0] == "noconcl":
            ctx.count("omega:noconcl-truth:%s" % ("sat" if brute_point(rows) is not None else "no-point-in-box"))
        # ---------------- correspondence with the model
        if model_line is not None:
            m, flag = parse_omega_model(model_line)
            if m != res:
                ndis += 1
                if ndis <= 3:
                    ctx.broken("correspondence:c16:omega", "rows=%s impl=%s model=%s" % (rows, (res,), (m,)))
                    ctx.coverage["disagreements_checked"] += 1
            elif flag is False:
                # model agrees with the code but its own answer fails the verified checker
                ctx.broken("model-certificate:c16:omega", "rows=%s model answer %s fails its checker" % (rows, (m,)))
    return out is not None



# ------------------------------------------------------------------ simplex: implementation side
class BudgetDeque:
    """Stand-in for collections.deque inside prover.simplex.branch_and_bound: after `budget` node
    expansions the queue reports itself empty, so a run that would not terminate (unbounded
    relaxations) ends as 'gave up' instead of hanging; the bare `except:` in that loop would
    swallow a timeout exception."""
    budget = 400

    def __init__(self, items=()):
        from collections import deque
        self.d = deque(items)
        self.pops = 0
        self.exhausted = False
        BudgetDeque.last = self

    def __len__(self):
        if self.pops >= self.budget:
            self.exhausted = len(self.d) > 0
            return 0
        return len(self.d)

    def popleft(self):
        self.pops += 1
        return self.d.popleft()

    def appendleft(self, x):
        self.d.appendleft(x)


def build_ineqs(mod, rows, enc, strict=None):
    """Row r (sum c_i x_i + c0 >= 0, or > 0 when strict) as GreaterEq(jars(c), -c0) or, equivalently,
    LessEq(jars(-c), c0); zero coefficients are left out.  For simplex_strict the bounds are Pairs."""
    ineqs = []
    for k, r in enumerate(rows):
        st = bool(strict and strict[k])
        if enc[k]:
            jars = [mod.Jar(c, "x%d" % i) for i, c in enumerate(r[:-1]) if c != 0]
            b = -r[-1]
            ineqs.append(mod.GreaterEq(jars, mod.Pair(b, 1 if st else 0) if strict is not None else b))
        else:
            jars = [mod.Jar(-c, "x%d" % i) for i, c in enumerate(r[:-1]) if c != 0]
            b = r[-1]
            ineqs.append(mod.LessEq(jars, mod.Pair(b, -1 if st else 0) if strict is not None else b))
    return ineqs


def choose_enc(rng, rows):
    """per row: True = GreaterEq(jars(c), -c0), False = LessEq(jars(-c), c0).  A row +-x_i + c0 >= 0 is
    mostly written so that the coefficient is 1 (`x >= b` / `x <= b`: a bound asserted directly on
    the variable, which is non-basic, not on a slack variable)."""
    enc = []
    for r in rows:
        nz = [c for c in r[:-1] if c != 0]
        if len(nz) == 1 and abs(nz[0]) == 1 and rng.random() < 0.75:
            enc.append(nz[0] == 1)
        else:
            enc.append(rng.random() < 0.5)
    return enc


def find_atom_row(s, mod, is_upper, var, value):
    """index of an input inequality that asserted `var <= value` / `var >= value`."""
    for k, a in enumerate(s.atom):
        if a.var_name == var and isinstance(a, mod.leq_atom if is_upper else mod.geq_atom) and a[1] == value:
            return k
    return None


def farkas_from_explanation(s, mod, nrows):
    """Multipliers (one per input row) from Simplex.explaination(wrong_var): the bounds of the
    non-basic variables in the row of the conflicting basic variable, weighted by |a_ij|, plus
    the violated bound itself.  None if some bound is not an asserted atom."""
    xi = s.wrong_var
    expl = s.explaination(xi)
    lam = [Fraction(0)] * nrows
    coeffs = {}
    for jar in s.equality[xi]:
        coeffs[jar.var] = coeffs.get(jar.var, 0) + Fraction(jar.coeff)
    for a in expl[:-1]:
        k = find_atom_row(s, mod, isinstance(a, mod.leq_atom), a.var_name, a[1])
        if k is None:
            return None
        lam[k] += abs(coeffs.get(a.var_name, 0))
    a = expl[-1]
    k = find_atom_row(s, mod, isinstance(a, mod.leq_atom), a.var_name, a[1])
    if k is None:
        return None
    lam[k] += 1
    den = 1
    for x in lam:
        den = den * x.denominator // math.gcd(den, x.denominator)
    return [int(x * den) for x in lam]


def run_simplex(mod, rows, enc, limit=20):
    """(verdict, payload): ('sat', {var: Fraction}), ('unsat', multipliers or None), ('raise', name), ('timeout',).
    The verdict comes from the public behaviour (handle_assertion returns / raises UNSATException,
    AssertUpperException, AssertLowerException).  The Farkas multipliers are read from internals
    (wrong_var, explaination, equality, atom, bound); if that fails for any reason the certificate
    is simply missing (None) and the verdict is judged by Z3 instead."""
    s = mod.Simplex()
    last = {}
    try:
        s.add_ineqs(*build_ineqs(mod, rows, enc))
    except Exception as e:  # noqa
        return ("raise", type(e).__name__), s
    try:   # best effort: remember the last asserted bound (for the certificate of a direct bound conflict)
        orig_up, orig_lo = s.assert_upper, s.assert_lower

        def up(x, c):
            last["a"] = (True, x, c)
            return orig_up(x, c)

        def lo(x, c):
            last["a"] = (False, x, c)
            return orig_lo(x, c)
        s.assert_upper, s.assert_lower = up, lo
    except Exception:  # noqa
        pass
    try:
        with time_limit(limit):
            s.handle_assertion()
    except Timeout:
        return ("timeout",), s
    except mod.UNSATException:
        try:
            return ("unsat", farkas_from_explanation(s, mod, len(rows))), s
        except Exception:  # noqa
            return ("unsat", None), s
    except (mod.AssertUpperException, mod.AssertLowerException):
        try:
            is_up, x, c = last["a"]
            other = s.bound[x][0] if is_up else s.bound[x][1]
            k1 = find_atom_row(s, mod, is_up, x, c)
            k2 = find_atom_row(s, mod, not is_up, x, other)
            if k1 is None or k2 is None:
                return ("unsat", None), s
            lam = [0] * len(rows)
            lam[k1] += 1
            lam[k2] += 1
            return ("unsat", lam), s
        except Exception:  # noqa
            return ("unsat", None), s
    except Exception as e:  # noqa
        return ("raise", type(e).__name__), s
    val = {}
    for v, x in s.mapping.items():
        if v.startswith("x"):
            val[int(v[1:])] = Fraction(x)
    return ("sat", val), s


def qvec(val, nv):
    """rational assignment as integers over a common denominator"""
    xs = [Fraction(val.get(i, 0)) for i in range(nv)]
    den = 1
    for x in xs:
        den = den * x.denominator // math.gcd(den, x.denominator)
    return [int(x * den) for x in xs], den


def check_simplex(ctx, simplex, systems, label, encs=None):
    rng = ctx.rng("simplex-enc-" + label)
    runs = []
    lines = []
    for k, (rows, shape) in enumerate(systems):
        enc = encs[k] if encs is not None else choose_enc(rng, rows)
        res, s = run_simplex(simplex, rows, enc)
        if res[0] == "timeout":
            # "for every system" the procedure has to answer: confirm with a long limit, then it is a violation
            res, s = run_simplex(simplex, rows, enc, limit=90)
            if res[0] == "timeout":
                key = rows_key(rows) + "/" + "".join("g" if e else "l" for e in enc)
                report(ctx, "simplex:nontermination", key, "Simplex.handle_assertion() on %s (encoding %s) does not return within 90 s (check() keeps pivoting)"
                       % (rows, key.split("/")[1]), {"kind": "simplex", "rows": rows, "enc": enc, "result": "timeout"})
        runs.append((rows, enc, res))
        nv = len(rows[0]) - 1
        if res[0] == "sat":
            p, q = qvec(res[1], nv)
            lines.append(sexp.dumps(["witnessq", rows, p, q]))
        elif res[0] == "unsat" and res[1] is not None:
            lines.append(sexp.dumps(["farkas", rows, res[1]]))
    out = ctx.lean_driver(EXE, lines) if lines else []
    pos = 0
    for rows, enc, res in runs:
        nv = len(rows[0]) - 1
        key = rows_key(rows) + "/" + "".join("g" if e else "l" for e in enc)
        ctx.case(("simplex", key), nontrivial=len(rows) >= 2)
        ctx.count("simplex:%s:%s" % (label, res[0] if res[0] != "raise" else "raise:" + res[1]))
        rp = {"kind": "simplex", "rows": rows, "enc": enc, "result": repr(res)}
        if res[0] == "sat":
            lean_ok = None
            if out is not None:
                lean_ok = out[pos].strip() == "T"
                pos += 1
            xs = [res[1].get(i, Fraction(0)) for i in range(nv)]
            viol = [r for r in rows if sum(c * x for c, x in zip(r[:-1], xs)) + r[-1] < 0]
            if viol or lean_ok is False:
                report(ctx, "simplex:bad-witness", key, "Simplex on %s (encoding %s) is satisfiable with %s, but row %s is violated (Lean checkWitnessQ: %s)"
                       % (rows, key.split("/")[1], {k: str(v) for k, v in res[1].items()}, (viol or ["-"])[0], lean_ok), rp)
            ctx.count("oracle:simplex-witness-checked")
        elif res[0] == "unsat":
            lean_ok = None
            if res[1] is not None and out is not None:
                lean_ok = out[pos].strip() == "T"
                pos += 1
            if lean_ok is True:
                ctx.count("oracle:farkas-checked")
            else:
                # no certificate could be read (internals changed?) or it does not check: the verdict
                # itself is judged by Z3; only a wrong verdict is a violation
                z = z3_sat(rows, integer=False)
                ctx.count("oracle:z3-lra")
                ctx.count("simplex:unsat-certificate-%s" % ("missing" if res[1] is None else "rejected" if lean_ok is False else "unchecked"))
                if z is True:
                    report(ctx, "simplex:wrong-unsat", key, "Simplex on %s (encoding %s) answers unsatisfiable but Z3 (LRA) finds a solution (Farkas certificate: %s)"
                           % (rows, key.split("/")[1], "none extracted" if res[1] is None else "%s, rejected by checkFarkas" % (res[1],)), rp)
        elif res[0] == "timeout":
            ctx.count("simplex:timeout")


# ------------------------------------------------------------------ simplex: correspondence with the Lean model
def var_id(name):
    """variable numbering of the model: numeric order = Python's string order of the names"""
    if name.startswith("$"):
        return ord(name[1]) - ord("a")
    return 100 + int(name[1:])


def simplex_snapshot(s):
    return (sorted(var_id(v) for v in s.basic), {var_id(v): Fraction(x) for v, x in s.mapping.items()})


def run_simplex_trace(mod, rows, enc, limit=20):
    """One `Simplex()` object: add_ineqs, then handle_assertion; the state (basic set, mapping) is
    recorded after add_ineqs and after every check().  Reads internals (basic, mapping, atom,
    wrong_var): used for the correspondence with the model only."""
    s = mod.Simplex()
    s.add_ineqs(*build_ineqs(mod, rows, enc))
    init = simplex_snapshot(s)
    atoms = [("le" if isinstance(a, mod.leq_atom) else "ge", var_id(a.var_name), Fraction(a[1])) for a in s.atom]
    snaps, n = [], [0]
    orig_check, orig_up, orig_lo = s.check, s.assert_upper, s.assert_lower

    def check():
        r = orig_check()
        snaps.append(simplex_snapshot(s))
        return r

    def up(x, c):
        n[0] += 1
        return orig_up(x, c)

    def lo(x, c):
        n[0] += 1
        return orig_lo(x, c)
    s.check, s.assert_upper, s.assert_lower = check, up, lo
    try:
        with time_limit(limit):
            s.handle_assertion()
        outcome = ("sat",)
    except Timeout:
        outcome = ("timeout",)
    except mod.UNSATException:
        outcome = ("unsat", var_id(s.wrong_var))
    except (mod.AssertUpperException, mod.AssertLowerException):
        outcome = ("conflict", n[0] - 1)
    return outcome, atoms, init, snaps


def parse_simplex_model(line):
    x = sexp.loads(line)
    if x == "bad-op":
        return None
    oc = x[0]
    outcome = (oc,) if isinstance(oc, str) else (oc[0], int(oc[1]))
    atoms = [(k, int(v), Fraction(b)) for k, v, b in x[1]]
    states = [(sorted(int(b) for b in st[0]), {int(v): Fraction(q) for v, q in st[1]}) for st in x[2:]]
    return outcome, atoms, states[0], states[1:]


SIMPLEX_FUEL = 400


def check_simplex_model(ctx, simplex, systems, label):
    """Correspondence: the real Simplex object against the Lean model of it, step by step (the
    sequence of assertions of handle_assertion, state compared after every check()); and the
    per-step oracle: after every check() that answers SAT the current assignment satisfies the
    constraints asserted so far; an UNSAT / bound conflict at step k means the first k+1 constraints
    have no rational solution (Z3)."""
    rng = ctx.rng("simplex-model-enc-" + label)
    runs, lines = [], []
    for rows, shape in systems:
        enc = choose_enc(rng, rows)
        try:
            tr = run_simplex_trace(simplex, rows, enc)
        except Exception as e:  # noqa
            ctx.count("simplex-model:%s:raise:%s" % (label, type(e).__name__))
            continue
        runs.append((rows, enc, tr))
        qs = []
        for k, r in enumerate(rows):
            if enc[k]:
                qs.append(["ge", [[100 + i, c] for i, c in enumerate(r[:-1]) if c != 0], -r[-1]])
            else:
                qs.append(["le", [[100 + i, -c] for i, c in enumerate(r[:-1]) if c != 0], r[-1]])
        lines.append(sexp.dumps(["simplex", SIMPLEX_FUEL, qs]))
    out = ctx.lean_driver(EXE, lines) if lines else []
    # monitor of the no-repeat theorem (check_no_repeat_bland, proved in Lean for states with the invariant): on the model,
    # which is compared with the real code step by step here, no configuration repeats within a check()
    mon = ctx.lean_driver(EXE, [l.replace("(simplex ", "(norepeat ", 1) for l in lines]) if lines else []
    if mon is not None:
        for (rows, enc, _), ml in zip(runs, mon):
            x = sexp.loads(ml)
            if x == "bad-op":
                continue
            ctx.count("bland:no-repeat-checked")
            ctx.coverage["bland_max_pivots_in_one_check"] = max(ctx.coverage.get("bland_max_pivots_in_one_check", 0), int(x[1]))
            if x[0] != "T":
                ctx.broken("hypothesis:c16:BlandNoRepeat", "a configuration repeats within one check() of the model on rows=%s enc=%s" % (rows, enc))
    ndis = 0
    for idx, (rows, enc, (outcome, atoms, init, snaps)) in enumerate(runs):
        nv = len(rows[0]) - 1
        key = rows_key(rows) + "/" + "".join("g" if e else "l" for e in enc)
        ctx.case(("simplex-model", key), nontrivial=len(snaps) >= 2 and len(set(tuple(b) for b, _ in snaps)) >= 2)
        ctx.count("simplex-model:%s:%s" % (label, outcome[0]))
        npiv = sum(1 for a, b in zip([init] + snaps, snaps) if a[0] != b[0])
        ctx.count("simplex-model:steps-with-pivot", npiv)
        rp = {"kind": "simplex", "rows": rows, "enc": enc, "result": repr(outcome)}
        # ---- per-step oracle on the implementation
        if outcome[0] != "timeout":
            for k, (_, mp) in enumerate(snaps):
                if k == len(snaps) - 1 and outcome[0] == "unsat":
                    break
                xs = [mp.get(100 + i, Fraction(0)) for i in range(nv)]
                viol = [r for r in rows[:k + 1] if sum(c * x for c, x in zip(r[:-1], xs)) + r[-1] < 0]
                if viol:
                    report(ctx, "simplex:bad-intermediate-assignment", key, "Simplex on %s (encoding %s): after asserting constraint %d and check() = SAT "
                           "the assignment %s violates the asserted row %s" % (rows, key.split("/")[1], k, {i: str(x) for i, x in enumerate(xs)}, viol[0]), rp)
                    break
            if outcome[0] in ("unsat", "conflict"):
                k = len(snaps) - 1 if outcome[0] == "unsat" else outcome[1]
                if 0 <= k < len(rows) and z3_sat(rows[:k + 1], integer=False) is True:
                    report(ctx, "simplex:wrong-unsat", key, "Simplex on %s (encoding %s) reports a conflict after constraint %d although the constraints "
                           "asserted so far have a rational solution (Z3)" % (rows, key.split("/")[1], k), rp)
                ctx.count("oracle:z3-lra")
        # ---- correspondence
        if out is not None and outcome[0] != "timeout":
            m = parse_simplex_model(out[idx])
            if m != (outcome, atoms, init, snaps):
                ndis += 1
                if ndis <= 3:
                    where = "outcome" if m is None or m[0] != outcome else "atoms" if m[1] != atoms else "initial tableau" if m[2] != init else \
                        "state after check %d" % next((i for i, (a, b) in enumerate(zip(m[3], snaps)) if a != b), min(len(m[3]), len(snaps)))
                    ctx.broken("correspondence:c16:simplex", "rows=%s enc=%s differ at %s: impl=%s model=%s" % (rows, key.split("/")[1], where, (outcome,), (m[0] if m else None,)))
                    ctx.coverage["disagreements_checked"] += 1
    return out is not None


def run_bb(simplex, rows, enc):
    """branch_and_bound on a fresh Simplex; also returns the variables find_not_int_var chose (the
    oracle argument of the model), the full mapping it returned and the exceptions raised inside nodes."""
    s = simplex.Simplex()
    orig = simplex.deque
    simplex.deque = BudgetDeque
    picks, excs = [], []
    orig_find, orig_ha = simplex.Simplex.find_not_int_var, simplex.Simplex.handle_assertion

    def find(self):
        r = orig_find(self)
        if r is not None:
            picks.append(var_id(r[0]))
        return r

    def ha(self):
        try:
            return orig_ha(self)
        except Exception as e:  # noqa
            excs.append(type(e).__name__)
            raise
    simplex.Simplex.find_not_int_var, simplex.Simplex.handle_assertion = find, ha
    info = {"picks": picks, "excs": excs}
    try:
        s.add_ineqs(*build_ineqs(simplex, rows, enc))
        r = simplex.branch_and_bound(s, [], [])
    except Exception as e:  # noqa
        return ("raise", type(e).__name__), info
    finally:
        simplex.deque = orig
        simplex.Simplex.find_not_int_var, simplex.Simplex.handle_assertion = orig_find, orig_ha
    info["nodes"] = BudgetDeque.last.pops
    if BudgetDeque.last.exhausted:
        return ("gave-up",), info
    if isinstance(r, dict):
        info["mapping"] = {var_id(v): Fraction(x) for v, x in r.items()}
        return ("sat", {int(v[1:]): Fraction(x) for v, x in r.items() if v.startswith("x")}), info
    if isinstance(r, simplex.IntSimplexTree):
        return ("unsat",), info
    return ("other", repr(r)), info


def check_bb(ctx, simplex, systems, label):
    rng = ctx.rng("bb-enc-" + label)
    runs = []
    infos = []
    lines = []
    for rows, shape in systems:
        enc = choose_enc(rng, rows)
        res, info = run_bb(simplex, rows, enc)
        runs.append((rows, enc, res))
        infos.append(info)
        for e in info["excs"]:
            ctx.count("bb:node-exception:" + e)
            if e not in ("UNSATException", "AssertUpperException", "AssertLowerException"):
                # the bare `except:` would treat this node as infeasible: not covered by the model
                ctx.count("bb:node-exception-not-modelled")
        if res[0] == "sat":
            nv = len(rows[0]) - 1
            ok = all(x.denominator == 1 for x in res[1].values())
            lines.append(sexp.dumps(["witness", rows, [int(res[1].get(i, 0)) for i in range(nv)] if ok else []]))
    out = ctx.lean_driver(EXE, lines) if lines else []
    # correspondence with the model of the search loop (the variables the real run branched on are the oracle)
    mlines = []
    for (rows, enc, res), info in zip(runs, infos):
        qs = []
        for k, r in enumerate(rows):
            if enc[k]:
                qs.append(["ge", [[100 + i, c] for i, c in enumerate(r[:-1]) if c != 0], -r[-1]])
            else:
                qs.append(["le", [[100 + i, -c] for i, c in enumerate(r[:-1]) if c != 0], r[-1]])
        mlines.append(sexp.dumps(["bb", SIMPLEX_FUEL, BudgetDeque.budget, info["picks"], qs]))
    mout = ctx.lean_driver(EXE, mlines) if mlines else []
    ndis = 0
    for idx, ((rows, enc, res), info) in enumerate(zip(runs, infos)):
        if mout is None or res[0] in ("raise", "other"):
            continue
        x = sexp.loads(mout[idx])
        if x == "bad-op":
            m = ("bad-op",)
        else:
            kind = x[0] if isinstance(x[0], str) else x[0][0]
            m = ({"found": "sat", "none": "unsat", "gaveup": "gave-up"}.get(kind, kind), int(x[1]),
                 {int(v): Fraction(q) for v, q in x[0][1]} if kind == "found" else None)
        impl = (res[0], info.get("nodes"), info.get("mapping"))
        ctx.count("bb-model:branchings", len(info["picks"]))
        if m != impl:
            ndis += 1
            if ndis <= 3:
                ctx.broken("correspondence:c16:bb", "rows=%s enc=%s picks=%s impl=%s model=%s" % (
                    rows, "".join("g" if e else "l" for e in enc), info["picks"], impl[:2], m[:2]))
                ctx.coverage["disagreements_checked"] += 1
    pos = 0
    for rows, enc, res in runs:
        nv = len(rows[0]) - 1
        key = rows_key(rows) + "/" + "".join("g" if e else "l" for e in enc)
        ctx.case(("bb", key), nontrivial=len(rows) >= 2)
        ctx.count("bb:%s:%s" % (label, res[0] if res[0] != "raise" else "raise:" + res[1]))
        rp = {"kind": "bb", "rows": rows, "enc": enc, "result": repr(res)}
        if res[0] == "sat":
            lean_ok = None
            if out is not None:
                lean_ok = out[pos].strip() == "T"
                pos += 1
            xs = [res[1].get(i, Fraction(0)) for i in range(nv)]
            nonint = [x for x in xs if x.denominator != 1]
            viol = [r for r in rows if sum(c * x for c, x in zip(r[:-1], xs)) + r[-1] < 0]
            if nonint or viol or lean_ok is False:
                report(ctx, "bb:bad-witness", key, "branch_and_bound on %s returns %s: %s" % (rows, {k: str(v) for k, v in res[1].items()},
                       "not integral" if nonint else "row %s violated" % (viol or ["-"])[0]), rp)
            ctx.count("oracle:bb-witness-checked")
        elif res[0] == "unsat":
            pt = brute_point(rows)
            z = z3_sat(rows) if pt is None else True
            ctx.count("oracle:z3-lia")
            if z is True:
                report(ctx, "bb:wrong-unsat", key, "branch_and_bound on %s (encoding %s) finds no integer solution but %s is one"
                       % (rows, key.split("/")[1], list(pt) if pt is not None else "Z3 finds one"), rp)


# ------------------------------------------------------------------ simplex_strict: delta-rationals
def check_delta(ctx, strict_mod, n):
    """`Pair.__le__`, `binary_delta`, `multi_delta` of simplex_strict.py against the Lean model, and the
    property itself on the implementation's answers: the delta returned is positive and every
    comparison p1 <= p2 of the list holds for the rationals x + y*delta."""
    rng = ctx.rng("delta")

    def frac():
        return Fraction(rng.randint(-6, 6), rng.choice([1, 1, 2, 3]))
    cases, lines = [], []
    for _ in range(n):
        ps = []
        for _ in range(rng.randint(0, 5)):
            a, b = (frac(), frac()), (frac(), frac())
            if rng.random() < 0.3:
                b = (a[0], frac())                       # equal standard parts
            if rng.random() < 0.15:
                a, b = b, a
            ps.append((a, b))
        cases.append(ps)
        lines.append(sexp.dumps(["delta", [[str(a[0]), str(a[1]), str(b[0]), str(b[1])] for a, b in ps]]))
    out = ctx.lean_driver(EXE, lines) if lines else []
    ndis = 0
    for idx, ps in enumerate(cases):
        pairs = [(strict_mod.Pair(*a), strict_mod.Pair(*b)) for a, b in ps]
        key = json.dumps([[str(x) for x in a + b] for a, b in ps])
        ctx.case(("delta", key), nontrivial=len(ps) >= 2)
        try:
            md = Fraction(strict_mod.multi_delta(*pairs))
            bds = [Fraction(strict_mod.binary_delta(p1, p2)) if p1 <= p2 else None for p1, p2 in pairs]
        except Exception as e:  # noqa
            ctx.count("delta:raise:" + type(e).__name__)
            continue
        ctx.count("delta:cases")
        bad = md <= 0 or any(p1 <= p2 and not (a[0] + a[1] * md <= b[0] + b[1] * md) for (p1, p2), (a, b) in zip(pairs, ps))
        if bad:
            report(ctx, "strict:bad-delta", key, "multi_delta of %s returns %s, for which a comparison p1 <= p2 of the list fails (or it is not positive)" % (key, md),
                   {"kind": "delta", "pairs": key})
        if out is not None:
            x = sexp.loads(out[idx])
            m = (Fraction(x[0]), [None if b == "none" else Fraction(b) for b in x[1:]]) if x != "bad-op" else None
            if m != (md, bds):
                ndis += 1
                if ndis <= 3:
                    ctx.broken("correspondence:c16:delta", "pairs=%s impl=%s model=%s" % (key, (str(md), [str(b) for b in bds]), m and (str(m[0]), [str(b) for b in m[1]])))


# ------------------------------------------------------------------ simplex_strict.Simplex: correspondence with the Lean model
def check_strict_model(ctx, strict_mod, systems, label):
    """The real `simplex_strict.Simplex` against the Lean model of it (StrictSimplexModel), step by
    step as for the non-strict solver; values are delta-rationals (x, y)."""
    rng = ctx.rng("strict-model-" + label)
    runs, lines = [], []
    for rows, shape in systems:
        enc = choose_enc(rng, rows)
        strict = [rng.random() < 0.4 for _ in rows]
        s = strict_mod.Simplex()
        try:
            s.add_ineqs(*build_ineqs(strict_mod, rows, enc, strict))
        except Exception as e:  # noqa
            ctx.count("strict-model:raise:" + type(e).__name__)
            continue

        def snap():
            return (sorted(var_id(v) for v in s.basic), {var_id(v): (Fraction(p.x), Fraction(p.y)) for v, p in s.mapping.items()})
        init = snap()
        atoms = [("le" if isinstance(a, strict_mod.leq_atom) else "ge", var_id(a.var_name), (Fraction(a[1].x), Fraction(a[1].y))) for a in s.atom]
        snaps, n = [], [0]
        orig_check, orig_up, orig_lo = s.check, s.assert_upper, s.assert_lower

        def check():
            r = orig_check()
            snaps.append(snap())
            return r

        def up(x, c):
            n[0] += 1
            return orig_up(x, c)

        def lo(x, c):
            n[0] += 1
            return orig_lo(x, c)
        s.check, s.assert_upper, s.assert_lower = check, up, lo
        try:
            with time_limit(20):
                s.handle_assertion()
            outcome = ("sat",)
        except Timeout:
            outcome = ("timeout",)
        except strict_mod.UNSATException:
            outcome = ("unsat", var_id(s.wrong_var))
        except (strict_mod.AssertUpperException, strict_mod.AssertLowerException):
            outcome = ("conflict", n[0] - 1)
        except Exception as e:  # noqa
            ctx.count("strict-model:raise:" + type(e).__name__)
            continue
        runs.append((rows, enc, strict, (outcome, atoms, init, snaps)))
        qs = []
        for k, r in enumerate(rows):
            st = strict[k]
            if enc[k]:
                qs.append(["ge", [[100 + i, c] for i, c in enumerate(r[:-1]) if c != 0], str(-r[-1]), "1" if st else "0"])
            else:
                qs.append(["le", [[100 + i, -c] for i, c in enumerate(r[:-1]) if c != 0], str(r[-1]), "-1" if st else "0"])
        lines.append(sexp.dumps(["ssimplex", SIMPLEX_FUEL, qs]))
    out = ctx.lean_driver(EXE, lines) if lines else []
    ndis = 0
    for idx, (rows, enc, strict, impl) in enumerate(runs):
        ctx.case(("strict-model", rows_key(rows), tuple(enc), tuple(strict)), nontrivial=len(impl[3]) >= 2)
        ctx.count("strict-model:%s:%s" % (label, impl[0][0]))
        if out is None or impl[0][0] == "timeout":
            continue
        x = sexp.loads(out[idx])
        if x == "bad-op":
            m = None
        else:
            oc = x[0]
            states = [(sorted(int(b) for b in st[0]), {int(v): (Fraction(a), Fraction(b)) for v, a, b in st[1]}) for st in x[2:]]
            m = ((oc,) if isinstance(oc, str) else (oc[0], int(oc[1])), [(k, int(v), (Fraction(a), Fraction(b))) for k, v, a, b in x[1]], states[0], states[1:])
        if m != impl:
            ndis += 1
            if ndis <= 3:
                ctx.broken("correspondence:c16:strict-simplex", "rows=%s enc=%s strict=%s impl=%s model=%s" % (rows, enc, strict, (impl[0],), (m[0] if m else None,)))
                ctx.coverage["disagreements_checked"] += 1


def run_strict(strict_mod, rows, enc, strict):
    s = strict_mod.Simplex()
    try:
        s.add_ineqs(*build_ineqs(strict_mod, rows, enc, strict))
        with time_limit(20):
            s.handle_assertion()
    except Timeout:
        return ("timeout",)
    except (strict_mod.UNSATException, strict_mod.AssertUpperException, strict_mod.AssertLowerException):
        return ("unsat",)
    except Exception as e:  # noqa
        return ("raise", type(e).__name__)
    return ("sat", {int(v[1:]): (Fraction(p.x), Fraction(p.y)) for v, p in s.mapping.items() if v.startswith("x")})


def check_strict(ctx, strict_mod, systems, label):
    rng = ctx.rng("strict-" + label)
    for rows, shape in systems:
        nv = len(rows[0]) - 1
        enc = choose_enc(rng, rows)
        strict = [rng.random() < 0.4 for _ in rows]
        res = run_strict(strict_mod, rows, enc, strict)
        key = rows_key(rows) + "/" + "".join(("G" if st else "g") if e else ("L" if st else "l") for e, st in zip(enc, strict))
        ctx.case(("strict", key), nontrivial=len(rows) >= 2 and any(strict))
        ctx.count("strict:%s:%s" % (label, res[0] if res[0] != "raise" else "raise:" + res[1]))
        rp = {"kind": "strict", "rows": rows, "enc": enc, "strict": strict, "result": repr(res)}
        if res[0] == "sat":
            # value of row k is P + Q*delta; infinitesimal delta: need (P, Q) >= (0, 0) lexicographically, > for strict rows
            bad = None
            delta = Fraction(1)
            for r, st in zip(rows, strict):
                P = sum(c * res[1].get(i, (0, 0))[0] for i, c in enumerate(r[:-1])) + r[-1]
                Q = sum(c * res[1].get(i, (0, 0))[1] for i, c in enumerate(r[:-1]))
                if P < 0 or (P == 0 and (Q < 0 or (st and Q == 0))):
                    bad = r
                    break
                if Q < 0:
                    delta = min(delta, P / (-Q) / 2)
            if bad is None:
                xs = [res[1].get(i, (Fraction(0), Fraction(0))) for i in range(nv)]
                xs = [a + b * delta for a, b in xs]
                for r, st in zip(rows, strict):
                    v = sum(c * x for c, x in zip(r[:-1], xs)) + r[-1]
                    if v < 0 or (st and v == 0):
                        bad = r
            if bad is not None:
                report(ctx, "strict:bad-witness", key, "simplex_strict on %s (strict rows %s) is satisfiable with %s but row %s fails for every small delta > 0"
                       % (rows, strict, {k: (str(a), str(b)) for k, (a, b) in res[1].items()}, bad), rp)
            ctx.count("oracle:strict-witness-checked")
        elif res[0] == "unsat":
            z = z3_sat(rows, integer=False, strict=strict)
            ctx.count("oracle:z3-lra")
            if z is True:
                report(ctx, "strict:wrong-unsat", key, "simplex_strict on %s (strict rows %s) answers unsatisfiable but Z3 (LRA) finds a solution" % (rows, strict), rp)


# ------------------------------------------------------------------ OmegaHOL proof terms
def row_term(term, xs, r):
    """0 <= c1 * x1 + ... + c0 in omega normal form (zero summands and a zero constant left out)."""
    s = [term.Int(c) * v for c, v in zip(r[:-1], xs) if c != 0]
    if r[-1] != 0 or not s:
        s.append(term.Int(r[-1]))
    return term.less_eq(term.IntType)(term.Int(0), sum(s[1:], s[0]))


def row_term_form(term, xs, r, rng):
    """The constraint sum c_i x_i + c0 >= 0 written as an integer inequality in one of the surface forms
    OmegaHOL accepts: its own normal form, or positive monomials on one side and negative ones on the
    other with >=, <=, > or <, the constant on either side, unit coefficients written or left out,
    or a difference compared with 0."""
    Int, T = term.Int, term.IntType
    form = rng.choice(["normal", "ge", "le", "gt", "lt", "minus", "ge", "lt"])
    if form == "normal":
        return row_term(term, xs, r), form

    def mono(c, v):
        return v if (c == 1 and rng.random() < 0.6) else Int(c) * v
    L = [mono(c, v) for c, v in zip(r[:-1], xs) if c > 0]
    R = [mono(-c, v) for c, v in zip(r[:-1], xs) if c < 0]
    cl, cr = (r[-1], 0) if rng.random() < 0.5 else (0, -r[-1])      # L + cl >= R + cr
    if form in ("gt", "lt"):
        cr -= 1                                                      # a >= b  iff  a > b - 1

    def side(ts, k):
        ts = list(ts)
        if k != 0 or not ts:
            ts.append(Int(k))
        return sum(ts[1:], ts[0])
    lhs, rhs = side(L, cl), side(R, cr)
    if form == "ge":
        return term.greater_eq(T)(lhs, rhs), form
    if form == "le":
        return term.less_eq(T)(rhs, lhs), form
    if form == "gt":
        return term.greater(T)(lhs, rhs), form
    if form == "lt":
        return term.less(T)(rhs, lhs), form
    return term.greater_eq(T)(lhs - rhs, Int(0)), form


def eval_int_term(t, env):
    """value of an integer term / truth of a comparison built by row_term_form (own evaluator)"""
    if t.is_number():
        return t.dest_number()
    if t.is_var():
        return env[t.name]
    if t.is_plus():
        return eval_int_term(t.arg1, env) + eval_int_term(t.arg, env)
    if t.is_minus():
        return eval_int_term(t.arg1, env) - eval_int_term(t.arg, env)
    if t.is_uminus():
        return -eval_int_term(t.arg, env)
    if t.is_times():
        return eval_int_term(t.arg1, env) * eval_int_term(t.arg, env)
    a, b = eval_int_term(t.arg1, env), eval_int_term(t.arg, env)
    if t.is_less_eq():
        return a <= b
    if t.is_less():
        return a < b
    if t.is_greater_eq():
        return a >= b
    if t.is_greater():
        return a > b
    raise ValueError("unexpected term %s" % t)


def check_omega_hol(ctx, systems, label):
    from kernel import term, theory, report as kreport
    from kernel.proofterm import ProofTerm
    from logic import context
    from prover import omega
    context.set_context('int')
    allx = term.IntVars('x0 x1 x2 x3 x4')
    frng = ctx.rng("omegahol-forms-" + label)
    for rows, shape in systems:
        nv = len(rows[0]) - 1
        xs = list(allx[:nv])
        built = [row_term_form(term, xs, r, frng) for r in rows]
        given = [g for g, _ in built]
        forms = [f for _, f in built]
        for f in forms:
            ctx.count("omegahol-form:" + f)
        # the harness' own translation must be right: compare term and row at a few points
        for _ in range(4):
            pt0 = [frng.randint(-5, 5) for _ in range(nv)]
            env = {"x%d" % i: pt0[i] for i in range(nv)}
            for g, r in zip(given, rows):
                assert eval_int_term(g, env) == (eval_row(r, pt0) >= 0), ("harness: term/row mismatch", str(g), r)
        key = rows_key(rows) + "/" + ",".join(forms)
        ctx.case(("omegahol", key), nontrivial=len(rows) >= 2)
        rp = {"kind": "omegahol", "rows": rows, "given": [str(g) for g in given]}
        try:
            with time_limit(120):
                h = omega.OmegaHOL(list(given))
                res = h.solve()
        except Timeout:
            ctx.count("omegahol:%s:timeout" % label)
            continue
        except Exception as e:  # noqa
            ctx.count("omegahol:%s:raise:%s" % (label, type(e).__name__))
            # a contradiction was found but no proof could be built
            st = run_omega(omega, rows)
            if st[0] == "contr":
                report(ctx, "omegahol:no-proof", key, "OmegaHOL.solve() raises %s on the contradictory system %s instead of returning a proof" % (type(e).__name__, rows), rp)
            continue
        if isinstance(res, ProofTerm):
            ctx.count("omegahol:%s:proof" % label)
            try:
                with time_limit(300):
                    rpt = kreport.ProofReport()
                    th = theory.check_proof(res.export(), rpt)
            except Timeout:
                ctx.count("omegahol:check-timeout")
                continue
            except Exception as e:  # noqa
                report(ctx, "omegahol:proof-rejected", key, "proof term of OmegaHOL.solve() for %s is rejected by check_proof: %s %s" % (rows, type(e).__name__, str(e)[:200]), rp)
                continue
            if len(rpt.gaps) > 0:
                report(ctx, "omegahol:proof-has-gaps", key, "proof of OmegaHOL.solve() for %s has gaps" % rows, rp)
            if th.prop != term.false:
                report(ctx, "omegahol:not-false", key, "OmegaHOL.solve() for %s concludes %s instead of false" % ([str(g) for g in given], th.prop), rp)
            foreign = [str(h) for h in th.hyps if h not in given]
            if foreign:
                report(ctx, "omegahol:foreign-hypothesis", key, "proof of OmegaHOL.solve() for the given constraints %s has hypotheses that are not among them: %s"
                       % ([str(g) for g in given], foreign), rp)
            # the verdict itself
            pt = brute_point(rows)
            if pt is not None:
                report(ctx, "omegahol:wrong-contradiction", key, "OmegaHOL.solve() proves false from %s but %s satisfies every constraint" % (rows, list(pt)), rp)
        elif isinstance(res, dict):
            ctx.count("omegahol:%s:sat" % label)
            # OmegaHOL numbers the variables that occur (plus pseudo-variables for constants) in term order
            vals = [0] * nv
            for i, val in res.items():
                if 0 <= i < len(h.vars) and h.vars[i] in xs:
                    vals[xs.index(h.vars[i])] = val
            if any(eval_row(r, vals) < 0 for r in rows):
                report(ctx, "omegahol:bad-witness", key, "OmegaHOL.solve() for %s returns %s which violates a constraint" % (rows, res), rp)
        else:
            ctx.count("omegahol:%s:noconcl" % label)


def check_simplex_hol(ctx, systems, label):
    """SimplexHOLWrapper.handle_assertion(): an 'unsatisfiable' answer is a proof term of
    `hyps |- false`; it must check and its hypotheses must be (the HOL form of) given constraints."""
    from kernel import theory, report as kreport
    from kernel.proofterm import ProofTerm
    from kernel.term import false
    from data import real
    from logic import context
    from prover import simplex
    context.set_context('real')          # the OmegaHOL stream switched the global theory to 'int'
    rng = ctx.rng("simplexhol-enc-" + label)
    for rows, shape in systems:
        rows = [r for r in rows if any(r[:-1])]          # the wrapper cannot express constant rows
        if not rows:
            continue
        nv = len(rows[0]) - 1
        enc = choose_enc(rng, rows)
        key = rows_key(rows) + "/" + "".join("g" if e else "l" for e in enc)
        ctx.case(("simplexhol", key), nontrivial=len(rows) >= 2)
        rp = {"kind": "simplexhol", "rows": rows, "enc": enc}
        try:
            with time_limit(120):
                w = simplex.SimplexHOLWrapper()
                w.add_ineqs(build_ineqs(simplex, rows, enc))
                res = w.handle_assertion()
        except Timeout:
            ctx.count("simplexhol:%s:timeout" % label)
            continue
        except Exception as e:  # noqa
            ctx.count("simplexhol:%s:raise:%s" % (label, type(e).__name__))
            continue
        if not isinstance(res, ProofTerm):
            ctx.count("simplexhol:%s:sat" % label)
            xs = [Fraction(res.get("x%d" % i, 0)) for i in range(nv)]
            viol = [r for r in rows if sum(c * x for c, x in zip(r[:-1], xs)) + r[-1] < 0]
            if viol:
                report(ctx, "simplexhol:bad-witness", key, "SimplexHOLWrapper on %s (encoding %s) returns the assignment %s which violates row %s"
                       % (rows, key.split("/")[1], {k: str(v) for k, v in res.items()}, viol[0]), rp)
            continue
        ctx.count("simplexhol:%s:proof" % label)
        try:
            with time_limit(300):
                rpt = kreport.ProofReport()
                th = theory.check_proof(res.export(), rpt)
        except Timeout:
            ctx.count("simplexhol:check-timeout")
            continue
        except Exception as e:  # noqa
            report(ctx, "simplexhol:proof-rejected", key, "proof term of SimplexHOLWrapper for %s is rejected by check_proof: %s %s" % (rows, type(e).__name__, str(e)[:200]), rp)
            continue
        if len(rpt.gaps) > 0 or th.prop != false:
            report(ctx, "simplexhol:not-false", key, "SimplexHOLWrapper proof for %s concludes %s (gaps: %d)" % (rows, th.prop, len(rpt.gaps)), rp)
        foreign = []
        for h in th.hyps:
            try:
                row = [Fraction(0)] * (nv + 1)
                for t in simplex.dest_plus(h.arg1):
                    c, x = (real.real_eval(t.arg1), t.arg) if t.is_times() else (1, t)
                    row[int(x.name[1:])] += Fraction(c)
                b = Fraction(real.real_eval(h.arg))
                if h.is_greater_eq():
                    row[-1] = -b
                elif h.is_less_eq():
                    row = [-c for c in row[:-1]] + [b]
                else:
                    raise ValueError("not an inequality")
                if [int(c) if c.denominator == 1 else c for c in row] not in rows:
                    foreign.append(str(h))
            except Exception:  # noqa
                foreign.append(str(h))
        if foreign:
            report(ctx, "simplexhol:foreign-hypothesis", key, "SimplexHOLWrapper proof for %s uses hypotheses that are not given constraints: %s" % (rows, foreign), rp)
        if z3_sat(rows, integer=False) is True:
            report(ctx, "simplexhol:wrong-unsat", key, "SimplexHOLWrapper proves false from %s, which Z3 (LRA) finds satisfiable" % rows, rp)


# ------------------------------------------------------------------ the HOL macros (simplex_macro, strict_simplex_macro, integer_simplex)
def check_macros(ctx, systems, label):
    """`SimplexMacro`, `StrictSimplexMacro`, `IntegerSimplexMacro`.get_proof_term on the constraints
    written as HOL terms over variables x_0, x_1, ... (names that collide with the macros' internal
    renaming on purpose).  A returned proof term must be accepted by theory.check_proof, conclude
    false, have every hypothesis literally among the given terms, and the system must indeed be
    unsatisfiable (Z3); a returned assignment must satisfy the constraints.  An exception is no
    answer (counted)."""
    from logic import context
    from syntax.parser import parse_term
    from kernel import theory, report as kreport
    from kernel.proofterm import ProofTerm
    from kernel.term import false
    from prover import simplex, simplex_strict
    rng = ctx.rng("macros-" + label)

    def row_str(r, op):
        ts = [("x_%d" % i if c == 1 else "%d * x_%d" % (c, i)) for i, c in enumerate(r[:-1]) if c != 0]
        return " + ".join(ts) + " %s %d" % (op, -r[-1])
    for kind in ("real", "strict", "int"):
        context.set_context('real', vars={"x_%d" % i: ('int' if kind == "int" else 'real') for i in range(5)})
        for rows, shape in systems:
            rows = [r for r in rows if any(r[:-1])]
            if not rows:
                continue
            nv = len(rows[0]) - 1
            strict = [kind == "strict" and rng.random() < 0.5 for _ in rows]
            strs = [row_str(r, ">" if st else ">=") for r, st in zip(rows, strict)]
            key = kind + ":" + json.dumps(strs)
            ctx.case(("macro", key), nontrivial=len(rows) >= 2)
            rp = {"kind": "macro", "macro": kind, "rows": rows, "strict": strict, "terms": strs}
            orig_deque = simplex.deque
            simplex.deque = BudgetDeque          # integer_simplex runs branch_and_bound, whose bare `except:` swallows a timeout
            try:
                with time_limit(120):
                    tms = [parse_term(t) for t in strs]
                    if kind == "real":
                        res = simplex.SimplexMacro().get_proof_term(args=tms)
                    elif kind == "strict":
                        res = simplex_strict.StrictSimplexMacro().get_proof_term(args=tms)
                    else:
                        res = simplex.IntegerSimplexMacro().get_proof_term(args=tms)
                        if BudgetDeque.last.exhausted:
                            ctx.count("macro:int:gave-up")
                            continue
            except Timeout:
                ctx.count("macro:%s:timeout" % kind)
                continue
            except Exception as e:  # noqa
                ctx.count("macro:%s:raise:%s" % (kind, type(e).__name__))
                continue
            finally:
                simplex.deque = orig_deque
            if isinstance(res, ProofTerm):
                ctx.count("macro:%s:proof" % kind)
                try:
                    with time_limit(300):
                        rpt = kreport.ProofReport()
                        th = theory.check_proof(res.export(), rpt)
                except Timeout:
                    continue
                except Exception as e:  # noqa
                    report(ctx, "macro:proof-rejected", key, "%s macro on %s returns a proof term that check_proof rejects: %s %s" % (kind, strs, type(e).__name__, str(e)[:150]), rp)
                    continue
                if th.prop != false or len(rpt.gaps) > 0:
                    report(ctx, "macro:not-false", key, "%s macro on %s concludes %s (gaps %d)" % (kind, strs, th.prop, len(rpt.gaps)), rp)
                foreign = [str(h) for h in th.hyps if h not in tms]
                if foreign:
                    report(ctx, "macro:foreign-hypothesis", key, "%s macro on the given constraints %s returns a theorem with hypotheses that are not among them: %s" % (kind, strs, foreign), rp)
                if z3_sat(rows, integer=(kind == "int"), strict=strict) is True:
                    report(ctx, "macro:wrong-unsat", key, "%s macro proves false from %s, which Z3 finds satisfiable" % (kind, strs), rp)
            elif isinstance(res, dict):
                ctx.count("macro:%s:sat" % kind)
            else:
                ctx.count("macro:%s:other" % kind)


# ------------------------------------------------------------------ main
def run(ctx):
    ctx.coverage["rule"] = (
        "integer systems, rows c1..cn,c0 meaning sum ci*xi + c0 >= 0: random with 1-5 variables, 1-8 rows, entries in -4..4 in "
        "16 shapes (plain/sparse/dense, equalities as paired inequalities, parity pairs, no-unit-coefficient 'dark' systems, 'grey' "
        "pairs k <= a.x <= k+1 with coefficients up to 5 whose dark shadow is false, one-sided (unbounded) systems, constant rows, "
        "duplicate/parallel rows, boxed, multi-variable constraints followed by single-variable bounds (order kept), unit coefficients "
        "on variable 0, non-unit single-variable rows); simplex encodings choose GreaterEq/LessEq per row, unit bounds mostly as atoms "
        "x >= b / x <= b; OmegaHOL inputs in 6 surface forms (normal form, >=, <=, >, <, difference >= 0; constant on either side; "
        "unit coefficients written or not); "
        "thorough: every multiset of <=3 rows over 2 variables with coefficients in -2..2 and constants in -1..1. Non-trivial = at least two rows with a variable; "
        "distinct by the row lists.")
    try:
        gen = translate_combine(ctx.repo)
        if ctx.write_if_changed("Holpy/C16/Gen.lean", gen):
            ctx.log("Gen.lean regenerated (changed)")
    except Exception as e:  # noqa
        ctx.broken("translate:c16:combine_factoid", "untranslatable: %r" % e)
    proofs_ok = ctx.lean_props(["Holpy.C16.Props", "Holpy.C16.PropsSimplex", "Holpy.C16.PropsStrict"], exes=[EXE])
    if ctx.tier == "thorough" and proofs_ok:
        ctx.lean_check_modules(["Holpy.C16.Props", "Holpy.C16.PropsSimplex", "Holpy.C16.PropsStrict"])
    ctx.coverage["trusted_base"] += [
        "translator of omega.combine_real_factoid / combine_dark_factoid (Python AST -> Gen.lean, harness/props/c16.py)",
        "correspondence harness (generators, derivation/witness serialisation, rows -> GreaterEq/LessEq encoding, explanation -> Farkas multipliers)",
        "Z3 (LIA/LRA) and the box -6..6 as supporting oracles where no certificate exists; kernel.theory.check_proof for proof terms",
        "exact integer division in the model in place of Python's float division (agree below 2^53); CPython hash(-1)=hash(-2) as the only bucket collision"]
    ctx.coverage["trusted_base"] += [
        "simplex model: variables are numbered so that numeric order = Python's string order of the names ($a$.. < x0..); sets/dicts of "
        "simplex.py are modelled by order-independent folds (update over all rows, greatest violated basic variable)"]
    ctx.assumptions += [
        "simplex theorems are about the model of Simplex (fixes C16-2 included) under InputOK: each constraint mentions a variable once, "
        "problem variables numbered above the slack variables; termination of each check() is proved (check_terminates_bland), the whole-run theorems are stated for every fuel",
        "omega_contr_sound / omega_sat_sound are about the model of solve_matrix with fix C16-1, for matrices whose rows have one width; "
        "the model is tied to the code by translation of the two combine functions and by differential runs",
        "the simplex algorithm is not modelled; its answers are judged per run by verified certificate checkers, Z3 and brute force",
        "exceptions / NOCONCL / 'gave up' are no answers and are only counted; termination is not part of C16"]
    from prover import omega
    corpus = load_corpus(ctx)
    check_omega(ctx, omega, [(r, "corpus") for r in corpus], "corpus")
    rng = ctx.rng("omega")
    systems = [gen_system(rng) for _ in range(ctx.scale(4000, 30000))]
    for s in systems[:3]:
        ctx.sample({"rows": s[0], "shape": s[1]})
    have_model = True
    for i in range(0, len(systems), 10000):
        have_model = check_omega(ctx, omega, systems[i:i + 10000], "random") and have_model
    if not have_model:
        ctx.broken("correspondence:c16:driver", "model driver unavailable")
    ctx.log("omega random stream done (%d systems)" % len(systems))
    if ctx.tier == "thorough":
        batch = []
        for rows in gen_exhaustive(2, 3, 2, 1):
            batch.append((rows, "exhaustive"))
            if len(batch) >= 20000:
                check_omega(ctx, omega, batch, "exhaustive", use_z3=False)
                batch = []
        if batch:
            check_omega(ctx, omega, batch, "exhaustive", use_z3=False)
        ctx.coverage["exhaustive"] = False
        ctx.log("omega exhaustive stream done")
        ctx.coverage["exhaustive_subspace"] = "solve_matrix on every multiset of <=3 rows over 2 variables with coefficients in -2..2 and constants in -1..1 (75 rows, 76075 systems)"
    # 4. simplex / branch and bound / strict simplex
    from prover import simplex, simplex_strict
    rng = ctx.rng("simplex")
    sys2 = [gen_system(rng) for _ in range(ctx.scale(1500, 10000))]
    scorp = load_simplex_corpus(ctx)
    check_simplex(ctx, simplex, [(c["rows"], "corpus") for c in scorp], "corpus", encs=[c["enc"] for c in scorp])
    check_simplex(ctx, simplex, sys2, "random")
    check_simplex_model(ctx, simplex, sys2, "random")
    ctx.log("simplex stream done (%d)" % len(sys2))
    hh = ctx.coverage["histogram"]
    ctx.coverage["simplex_unsat_certified_by_checkFarkas"] = "%d of %d 'unsatisfiable' answers (the others judged by Z3)" % (
        hh.get("oracle:farkas-checked", 0), hh.get("simplex:random:unsat", 0))
    rng = ctx.rng("bb")
    sys3 = [gen_system(rng) for _ in range(ctx.scale(600, 4000))]
    check_bb(ctx, simplex, sys3, "random")
    ctx.log("branch-and-bound stream done (%d)" % len(sys3))
    rng = ctx.rng("strict")
    sys4 = [gen_system(rng) for _ in range(ctx.scale(800, 5000))]
    check_strict(ctx, simplex_strict, sys4, "random")
    check_strict_model(ctx, simplex_strict, sys4, "random")
    check_delta(ctx, simplex_strict, ctx.scale(2000, 30000))
    ctx.log("strict simplex stream done (%d)" % len(sys4))
    # 5. proof terms
    rng = ctx.rng("omegahol")
    sys5 = [gen_system(rng) for _ in range(ctx.scale(400, 1500))]
    check_omega_hol(ctx, sys5, "random")
    ctx.log("OmegaHOL stream done (%d)" % len(sys5))
    rng = ctx.rng("simplexhol")
    # the proof-producing wrapper fails (by its own exceptions) on most larger systems; small ones reach the proof code
    sys6 = [gen_small(rng) for _ in range(ctx.scale(400, 3000))] + [gen_system(rng) for _ in range(ctx.scale(200, 1500))]
    check_simplex_hol(ctx, sys6, "random")
    ctx.log("SimplexHOLWrapper stream done (%d)" % len(sys6))
    rng = ctx.rng("macros")
    sys7 = [gen_small(rng) for _ in range(ctx.scale(80, 400))]
    check_macros(ctx, sys7, "random")
    ctx.log("HOL macro stream done (3 x %d)" % len(sys7))


def load_simplex_corpus(ctx):
    p = os.path.join(ctx.verif, "corpus", "c16_simplex.json")
    if os.path.exists(p):
        with open(p) as f:
            return json.load(f)
    return []


def load_corpus(ctx):
    p = os.path.join(ctx.verif, "corpus", "c16.json")
    if os.path.exists(p):
        with open(p) as f:
            return [[[int(c) for c in r] for r in rows] for rows in json.load(f)]
    return []


def replay(ctx, rp):
    from prover import omega
    r = rp["replay"]
    rows = [[int(c) for c in row] for row in r["rows"]]
    if r.get("kind") == "omega":
        check_omega(ctx, omega, [(rows, "replay")], "replay", limit=90)
    elif r.get("kind") in ("simplex", "bb", "strict"):
        from prover import simplex, simplex_strict
        # the recorded encoding is re-used by re-seeding is not possible; try both encodings of every row
        for _ in range(1 if len(rows) > 6 else 8):
            if r["kind"] == "simplex":
                if r.get("enc") and len(r["enc"]) == len(rows):
                    if _ == 0:
                        check_simplex(ctx, simplex, [(rows, "replay")], "replay", encs=[[bool(e) for e in r["enc"]]])
                    continue
                check_simplex(ctx, simplex, [(rows, "replay")], "replay%d" % _)
            elif r["kind"] == "bb":
                check_bb(ctx, simplex, [(rows, "replay")], "replay%d" % _)
            else:
                check_strict(ctx, simplex_strict, [(rows, "replay")], "replay%d" % _)
    elif r.get("kind") == "macro":
        for _ in range(6):
            check_macros(ctx, [(rows, "replay")], "replay%d" % _)
    elif r.get("kind") == "omegahol":
        for _ in range(8):               # the surface forms of the constraints are drawn again
            check_omega_hol(ctx, [(rows, "replay")], "replay%d" % _)
    elif r.get("kind") == "simplexhol":
        for _ in range(1 if len(rows) > 6 else 8):
            check_simplex_hol(ctx, [(rows, "replay")], "replay%d" % _)
    for v in ctx.violations:
        print("still fails:", v[1])
    return bool(ctx.violations)


MANIFEST = {
    "text": "Lean theorems: (a) verified certificate checkers usable on any solver's answer - checkWitness_sound / checkWitnessQ_sound "
            "(an accepted integer / rational assignment satisfies every row), checkFarkas_sound (accepted non-negative multipliers prove "
            "that no rational solution exists), checkDeriv_sound (an accepted Omega derivation - assumptions, real-shadow combination as "
            "translated from omega.py, gcd division with the constant rounded down, sum of two rows - proves that no integer solution "
            "exists), dark_shadow_sound (the dark-shadow lemma for the combine_dark_factoid translated from omega.py); (b) about an "
            "executable model of solve_matrix/solve (all four modes, redundant-variable elimination, exact/dark elimination with gcd "
            "tightening, one-variable analysis, back-substitution), for every matrix of rows of one width and every fuel: "
            "omega_contr_sound / omega_contr_no_solution (a Contr answer carries a derivation the checker accepts, so there is no integer "
            "solution; contradictions found in dark mode are never returned) and omega_sat_sound (a Satisfiable answer satisfies every "
            "input row). The model is tied to prover/omega.py by regenerating combine_real_factoid/combine_dark_factoid from the source "
            "on every run and by "
            "differential runs (verdict, witness dict, derivation tree) on generated systems; besides, every answer of the real code is "
            "judged at run time: SAT witnesses by the verified checkWitness and an independent evaluation, contradictions by the verified checkDeriv, an independent replay, brute force and Z3. (c) about an executable model "
            "of prover/simplex.py's Simplex class (add_ineq, update, pivot, pivotAndUpdate, assert_upper/lower, check with the variable choice as coded, "
            "handle_assertion; exact rationals), tied to the code by replaying the same assertion sequences and comparing verdict, mapping and "
            "basic set after every check(): pivot_preserves_rows / pivot_preserves_wf (a pivot keeps the solution set of the row equations and "
            "the well-formedness of the tableau), update_preserves_rows / pivotAndUpdate_preserves_rows (mapping stays a solution of the rows), "
            "check_sat_sound (check = SAT: mapping satisfies rows and all bounds), check_unsat_sound (check = UNSAT: rows + bounds have no "
            "rational solution; the stuck row is the Farkas-style explanation), handle_assertion_sat_sound / handle_assertion_unsat_sound, and "
            "end to end simplex_sat_sound / simplex_unsat_sound (Simplex(); add_ineqs(qs); handle_assertion(): no exception => mapping satisfies "
            "every given constraint except the ignored form 0*x ~ b; UNSATException / AssertUpper/LowerException => qs has no rational "
            "solution); about the model of branch_and_bound's search loop (queue, all_integer, the variables find_not_int_var picked in the "
            "real run as an oracle argument, UNSAT/Assert exceptions close a node; tied by its own correspondence stream: result, node "
            "count, returned mapping): branch_covers_integers, bb_sat_sound (a returned mapping is an integer solution of the original "
            "constraints), bb_unsat_sound_partial (the loop ending with an empty queue means there is no integer solution - only for runs "
            "within the node budget in which no check() hits the fuel; other exceptions inside a node, which the bare except would also "
            "treat as 'infeasible', are not modelled: none occurs, the harness counts them). All for every fuel; termination of check IS proved (see below). The pinned code (last violated basic variable, first "
            "suitable non-basic one) does cycle: a search over 3.3 million random degenerate systems found inputs on which handle_assertion "
            "never returns (one with 4 variables and 8 rows); fix C16-5 makes the choice Bland's rule, the model follows it, a confirmed "
            "time-out of handle_assertion is now a violation (simplex:nontermination), and 1.4 million further random systems showed no cycle "
            "with the fix (and termination under the fixed rule is now a Lean theorem, check_terminates_bland); the outcome 'fuel' of the model claims nothing. NOT modelled / not proved: termination of branch_and_bound "
            "(node budget; 'gave up' is no answer); of simplex_strict only the delta-rationals are modelled (Pair.__le__, binary_delta, "
            "multi_delta; own correspondence stream): strict_delta_sound (multi_delta is positive and makes every comparison p1 <= p2 of "
            "pairs true for the rationals x + y*delta) and strict_sat_sound_partial (IF a delta-assignment satisfies all constraints "
            "lexicographically THEN x + y*multi_delta satisfies them, strict ones strictly; that the strict solver establishes the "
            "premise was not proved then); the strict Simplex class IS now modelled too (same tableau, delta-rational values and bounds, "
            "operations componentwise over the rational model; own step-by-step correspondence stream) with strict_check_sat_sound / "
            "strict_check_unsat_sound (check(): SAT => both components of mapping satisfy the rows and every variable is within its "
            "bounds in the delta-order; UNSAT => rows + bounds have no delta-rational solution) and strict_handle_assertion_sat_sound / "
            "strict_handle_assertion_unsat_sound (the same through handle_assertion, for the asserted atoms). and, through add_ineqs, strict_sat_sound / strict_unsat_sound for whole runs (no exception => x + y*multi_delta satisfies "
            "every given constraint, strict ones strictly; UNSATException / refused assertion => the constraints have no rational solution); "
            "strict_sat_sound_partial remains as the lemma it is built on; NOT modelled: the strict "
            "proof-producing wrapper (its answers: Z3 and exact witness evaluation), the "
            "proof-producing wrappers and the macros simplex_macro / strict_simplex_macro / integer_simplex (every proof term they return "
            "is checked by theory.check_proof: concludes false, no gaps, hypotheses literally among the given terms; Z3 confirms the verdict). "
            "Termination of check under Bland's rule: check is shown to be the iteration of an explicit step (check_unfolds_step); "
            "configurations (basic / at lower / at upper / elsewhere per variable) are finite with the explicit bound confBound = 4^#occurrences; "
            "check_terminates_of_no_repeat: if no configuration repeats along the run, check answers within confBound+1 steps; "
            "check_no_repeat_bland: under Bland's rule (fix C16-5, as modelled by step) NO configuration repeats along a run of check from a state "
            "with the tableau invariant - Dutertre/de Moura's anti-cycling argument, now PROVED in Lean (bland_core_low/high: the sign contradiction between "
            "the row with which the largest status-changing variable enters and the state in which it leaves; seg_no_repeat: the bookkeeping over a run segment, "
            "including the wrap-around case in which the variable enters before it leaves); hence check_terminates_bland (check answers within confBound+1 pivots on every "
            "state with the invariant and every larger fuel gives the same answer - no hypothesis left) and check_total_correct (with fuel > confBound: SAT with a mapping satisfying rows and "
            "bounds, or UNSAT and rows + bounds have no rational solution). The model's no-repeat monitor still runs on every model run that is compared step by step with the real code "
            "(a repeat would now contradict a theorem, i.e. indicate a broken invariant or driver). NOT proved: a fuel-free restatement of the whole-run theorems "
            "(handle_assertion / run / branch_and_bound take one fuel for all their check() calls; each call terminates by check_terminates_bland, but the uniform bound over the "
            "successive tableaux was not assembled), termination of branch_and_bound (not part of the property); traj_preserves_inv / step_changes_only_entering / "
            "repair_step_changes_configuration / bland_leaving_is_smallest are lemmas of the argument kept as pinned theorems; completeness of the Omega test for exact eliminations was not attempted. In addition every answer of the real Simplex is judged per run: "
            "witnesses go through checkWitness(Q), 'unsatisfiable' answers are certified by checkFarkas whenever Farkas multipliers "
            "can be read from the solver's explanation (internal fields; if not, or if they do not check, the verdict is decided by Z3 - only "
            "a wrong verdict is a violation), branch-and-bound / strict verdicts are compared with Z3 and brute force. OmegaHOL "
            "and SimplexHOLWrapper proof terms are checked by theory.check_proof (conclusion false, no gaps, every hypothesis literally one of the given constraints; "
            "OmegaHOL is given the constraints in varied surface forms, not only in its own normal form).",
    "note": "Trusted: Lean kernel, propext/Classical.choice/Quot.sound; the Python-AST translator of the two combine functions; the harness "
            "generators and encoders (rows -> GreaterEq/LessEq, explanation -> multipliers); Z3 and the box -6..6 as supporting oracles for "
            "verdicts without certificate (branch and bound 'no integer solution', strict simplex 'unsatisfiable'); float divisions of "
            "omega.py are modelled as exact integer divisions (agree below 2^53); CPython's hash of small-int tuples (bucket order of "
            "the database) is modelled by hash(-1)=hash(-2) only; the 'direct contradiction' lookup in extend_cross_product compares "
            "with the un-negated key and is unreachable under that hash model, so it is omitted from the model. Termination of "
            "branch_and_bound is not part of the property (node budget, 'gave up' is no answer).",
    "design_ref": "DESIGN.md 4/C16",
}
FINDINGS = [
    {"status": "fixed", "key": "macro:foreign-hypothesis", "commit": "48c1906",
     "what": "simplex_macro on [-1 * x_1 + -2 * x_2 >= -1, x_1 + 2 * x_2 >= 2] returned x_2 + 2 * x_2 >= 2, -1 * x_2 + -2 * x_2 >= -1 |- false: "
             "term_to_ineq renames variables to x_0, x_1, ... and translates back one variable after the other, so given variables with such "
             "names are conflated (hypotheses are not the given constraints, or the back translation fails)"},
    {"status": "fixed", "key": "simplex:nontermination:[[2,3,-2,0,0],[-1,-1,-1,-4,-1],[-4,-3,-1,4,2],[-3,2,-3,-2,1],[1,0,2,1,0],[1,-2,-1,2,2],[-3,1,0,1,0],[2,0,1,1,0]]/glllllgg",
     "commit": "a056458",
     "what": "Simplex.check() repaired the LAST violated basic variable with the FIRST suitable non-basic one and cycles: "
             "handle_assertion() never returns on this 4-variable, 8-row system (176000 pivots in 60 s), nor on a satisfiable 5-variable 13-row "
             "system; found by a search over 3.3 million random degenerate systems; fixed by Bland's rule (smallest violated basic variable)"},
    {"status": "fixed", "key": "omega:bad-witness:[[2,-1],[-2,1]]", "commit": "0df13d5",
     "what": "solve_matrix([[2,-1],[-2,1]]) = SAT {0: 1}: input rows were not gcd-normalised although solve/one_var_analysis assume it; "
             "also wrong UNSAT ([[-1,1],[2,-2],[1,-1]]), false constant rows ignored ([[1,0],[0,-1]] = SAT), TypeError on constant-only systems"},
    {"status": "fixed", "key": "bb:wrong-unsat:[[-3,-3,4],[0,-2,3]]/gg", "commit": "7de0de5",
     "what": "Simplex.add_ineq left the slack variable of a non-unit single-variable constraint without a value when the variable was "
             "already known (KeyError in check); branch_and_bound swallows the error and reports 'no integer solution' for "
             "-3x-3y+4>=0, -2y+3>=0"},
    {"status": "fixed", "key": "simplexhol:bad-witness:[[2,0,-1],[0,2,-2],[-2,0,-1]]/gll", "commit": "a2a285c",
     "what": "SimplexHOLWrapper.add_ineq named the slack variable after Simplex.index-1 although Simplex re-uses the slack of an equal "
             "linear form: 2*x0>=1, 2*x1>=2, 2*x0<=-1 was answered satisfiable with x0=1/2 (bound asserted on the wrong variable)"},
    {"status": "fixed", "key": "omegahol:foreign-hypothesis", "commit": "4af4c10",
     "what": "OmegaHOL.solve() returned the contradiction from the omega normal forms of the given inequalities, not from the given "
             "ones: [x < y, y < x] gave 0 <= -1*x + 1*y + -1, 0 <= 1*x + -1*y + -1 |- false; even 0 <= x came back as 0 <= 1 * x"},
]
