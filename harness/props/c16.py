"""C16 — Omega test and simplex give correct verdicts with valid witnesses / certificates.

Stages: (1) `combine_real_factoid` / `combine_dark_factoid` are translated from the current
prover/omega.py into lean/Holpy/C16/Gen.lean; Lean obligations (Holpy.C16.Props) + driver.
(2) correspondence: the real `prover.omega.solve_matrix` against the Lean model (verdict, witness,
derivation) on generated integer systems.  (3) property oracle on the implementation's own answers:
witnesses through the verified `checkWitness` and an independent Python evaluation, contradictions
through the verified `checkDeriv`, brute force over the box -6..6 and Z3 (LIA).  (4) simplex
(`prover.simplex.Simplex`, `branch_and_bound`, `prover.simplex_strict.Simplex`): witnesses
checked exactly (`checkWitnessQ`), "unsatisfiable" explanations turned into Farkas multipliers and
checked by the verified `checkFarkas`, verdicts compared with Z3 (LRA/LIA).  (5) `OmegaHOL.solve`
and `SimplexHOLWrapper` proof terms: accepted by `theory.check_proof`, conclude `false`,
hypotheses among the given constraints.
"""
import itertools
import json
import math
import os
from fractions import Fraction

from harness.common import sexp
from harness.common.ctx import Timeout, time_limit
from harness.props import c16_translate

EXE = "c16_model"
FUEL = 12
BOX = 6


# ------------------------------------------------------------------ generators
def rand_row(rng, nv, K, sparsity=0.3, cK=None):
    cK = K if cK is None else cK
    return [0 if rng.random() < sparsity else rng.randint(-K, K) for _ in range(nv)] + [rng.randint(-cK, cK)]


def neg_row(r, shift=0):
    return [-c for c in r[:-1]] + [-r[-1] + shift]


def gen_system(rng):
    """One system (list of rows, each nv coefficients + constant) and the name of its shape."""
    nv = rng.randint(1, 5)
    nr = rng.randint(1, 8)
    shape = rng.choice(["plain", "plain", "sparse", "dense", "equalities", "parity", "dark", "dark", "unbounded",
                        "zero-rows", "duplicates", "boxed", "var0-exact", "nonunit-single"])
    K = rng.choice([1, 2, 3, 4, 4])
    rows = []
    if shape == "plain":
        rows = [rand_row(rng, nv, K) for _ in range(nr)]
    elif shape == "sparse":
        rows = [rand_row(rng, nv, K, 0.6) for _ in range(nr)]
    elif shape == "dense":
        rows = [rand_row(rng, nv, K, 0.0) for _ in range(nr)]
    elif shape == "equalities":          # equalities as paired inequalities
        while len(rows) < nr:
            r = rand_row(rng, nv, K)
            rows += [r, neg_row(r)]
            if rng.random() < 0.5:
                rows.append(rand_row(rng, nv, K))
        rows = rows[:max(2, nr)]
    elif shape == "parity":              # a <= k*x+... <= a (+-1): rational but maybe no integer solutions
        while len(rows) < nr:
            r = rand_row(rng, nv, K)
            rows += [r, neg_row(r, rng.choice([0, 1, 1, 2, -1]))]
        rows = rows[:max(2, nr)]
    elif shape == "dark":                # no unit coefficients: inexact elimination (dark / grey shadows)
        nv = max(nv, 2)
        for _ in range(max(nr, 3)):
            rows.append([rng.choice([-4, -3, -2, 2, 3, 4]) if rng.random() < 0.8 else 0 for _ in range(nv)] + [rng.randint(-4, 4)])
        rows = rows[:8]
    elif shape == "unbounded":           # every variable bounded on one side only / free directions
        signs = [rng.choice([-1, 1]) for _ in range(nv)]
        for _ in range(nr):
            rows.append([0 if rng.random() < 0.3 else signs[i] * rng.randint(0, K) for i in range(nv)] + [rng.randint(-4, 4)])
    elif shape == "zero-rows":
        rows = [rand_row(rng, nv, K) for _ in range(nr)]
        for _ in range(rng.randint(1, 2)):
            rows.insert(rng.randint(0, len(rows)), [0] * nv + [rng.choice([-2, -1, 0, 0, 1, 3])])
        if rng.random() < 0.2:
            rows = [[0] * nv + [rng.randint(-2, 2)] for _ in range(rng.randint(1, 3))]
        rows = rows[:8]
    elif shape == "duplicates":
        rows = [rand_row(rng, nv, K) for _ in range(max(1, nr // 2))]
        while len(rows) < nr:
            r = list(rng.choice(rows))
            if rng.random() < 0.5:
                r[-1] += rng.choice([-1, 0, 1])       # same key, different constant
            if rng.random() < 0.2:
                r = [2 * c for c in r]                # a multiple of an earlier row
                r = [max(-4, min(4, c)) for c in r]
            rows.append(r)
    elif shape == "boxed":               # every variable in a small box + a few cuts: bounded problems
        for i in range(nv):
            lo, hi = sorted([rng.randint(-3, 3), rng.randint(-3, 3)])
            e = [0] * nv
            e[i] = 1
            rows.append(e + [-lo])
            rows.append([-c for c in e] + [hi])
        rng.shuffle(rows)
        rows = rows[:6]
        while len(rows) < 8 and rng.random() < 0.8:
            rows.append(rand_row(rng, nv, K))
    elif shape == "var0-exact":          # variable 0 has unit coefficients (omega.py treats index 0 as "no exact variable")
        nv = max(nv, 2)
        for _ in range(max(nr, 2)):
            r = [rng.choice([-4, -3, -2, 2, 3, 4, 0]) for _ in range(nv)] + [rng.randint(-4, 4)]
            r[0] = rng.choice([-1, 1, 1, -1, 0])
            rows.append(r)
    elif shape == "nonunit-single":      # single-variable rows with non-unit coefficients (need gcd tightening)
        for _ in range(nr):
            r = [0] * nv + [rng.randint(-4, 4)]
            r[rng.randrange(nv)] = rng.choice([-4, -3, -2, 2, 3, 4, 1, -1])
            rows.append(r)
        if rng.random() < 0.4:
            rows.append(rand_row(rng, nv, K))
    rows = [list(r) for r in rows][:8]
    if rng.random() < 0.15:
        rng.shuffle(rows)
    return rows, shape


def gen_exhaustive(nv, max_rows, K):
    """Every multiset of <= max_rows rows over nv variables with all entries in -K..K."""
    rows = [list(r) for r in itertools.product(range(-K, K + 1), repeat=nv + 1)]
    for k in range(1, max_rows + 1):
        for combo in itertools.combinations_with_replacement(rows, k):
            yield [list(r) for r in combo]


# ------------------------------------------------------------------ independent oracles
def eval_row(r, val):
    return sum(c * val[i] for i, c in enumerate(r[:-1])) + r[-1]


def brute_point(rows, box=BOX):
    """An integer point of the box satisfying every row, or None."""
    nv = len(rows[0]) - 1
    for pt in itertools.product(range(-box, box + 1), repeat=nv):
        if all(eval_row(r, pt) >= 0 for r in rows):
            return pt
    return None


_z3 = None


def z3mod():
    global _z3
    if _z3 is None:
        import z3
        _z3 = z3
    return _z3


def z3_sat(rows, integer=True, strict=None):
    """True/False/None(unknown): does the system have an integer (or real) solution?"""
    z3 = z3mod()
    nv = len(rows[0]) - 1
    xs = [(z3.Int if integer else z3.Real)("x%d" % i) for i in range(nv)]
    s = z3.Solver()
    s.set("timeout", 20000)
    for k, r in enumerate(rows):
        e = z3.Sum([c * x for c, x in zip(r[:-1], xs)] + [z3.IntVal(r[-1])]) if nv else z3.IntVal(r[-1])
        s.add(e > 0 if (strict and strict[k]) else e >= 0)
    res = s.check()
    return True if res == z3.sat else False if res == z3.unsat else None


# ------------------------------------------------------------------ omega: implementation side
def deriv_sexp(d):
    n = type(d).__name__
    if n == "ASM":
        return ["asm", [int(c) for c in d.t.coeff]]
    if n == "RealCombine":
        return ["rc", int(d.i), deriv_sexp(d.deriv1), deriv_sexp(d.deriv2)]
    if n == "GCDCheck":
        return ["gcd", deriv_sexp(d.deriv)]
    if n == "DirectContr":
        return ["dc", deriv_sexp(d.deriv1), deriv_sexp(d.deriv2)]
    raise ValueError("unknown derivation node %s" % n)


def run_omega(omega, rows, limit=20):
    snapshot = json.dumps(rows)
    arg = [list(r) for r in rows]
    try:
        with time_limit(limit):
            res, val = omega.solve_matrix(arg)
    except Timeout:
        return ("timeout",)
    except RecursionError:
        return ("raise", "RecursionError")
    except Exception as e:  # noqa
        return ("raise", type(e).__name__)
    if json.dumps(arg) != snapshot:
        return ("input-modified",)
    if res == "SAT":
        if not all(type(k) is int and type(v) is int for k, v in val.items()):
            return ("sat-nonint", sorted((repr(k), repr(v)) for k, v in val.items()))
        return ("sat", sorted((int(k), int(v)) for k, v in val.items()))
    if res == "UNSAT":
        try:
            return ("contr", deriv_sexp(val.deriv))
        except Exception as e:  # noqa
            return ("contr-bad-deriv", repr(e))
    if res == "NOCONCL":
        return ("noconcl",)
    return ("other", repr(res))


ERRMAP = {"assertion": "AssertionError", "value": "ValueError", "type": "TypeError"}


def parse_omega_model(line):
    x = sexp.loads(line)
    if x == "bad-op":
        return ("bad-op",), None
    if x == "noconcl":
        return ("noconcl",), None
    if x[0] == "sat":
        return ("sat", sorted((int(k), int(v)) for k, v in x[1])), x[2] == "T"
    if x[0] == "contr":
        return ("contr", unsexp(x[1])), x[2] == "T"
    if x[0] == "error":
        return ("raise", ERRMAP.get(x[1], x[1])), None
    return ("?", line), None


def unsexp(x):
    """s-expression read back: atoms that are integers become ints (derivations, rows)."""
    if isinstance(x, list):
        return [unsexp(y) for y in x]
    try:
        return int(x)
    except ValueError:
        return x


def rows_key(rows):
    return json.dumps(rows, separators=(",", ":"))


def check_omega(ctx, omega, systems, label, use_z3=True, limit=20):
    """Correspondence + property oracle for a batch of systems (list of (rows, shape))."""
    impl = [run_omega(omega, rows, limit) for rows, _ in systems]
    lines = []
    for (rows, _), res in zip(systems, impl):
        lines.append(sexp.dumps(["omega", FUEL, rows]))
        if res[0] == "sat":
            nv = len(rows[0]) - 1
            d = dict(res[1])
            ok_keys = all(0 <= k < nv for k in d)
            lines.append(sexp.dumps(["witness", rows, [d.get(i, 0) for i in range(nv)] if ok_keys else []]))
        elif res[0] == "contr":
            lines.append(sexp.dumps(["deriv", rows, res[1]]))
    out = ctx.lean_driver(EXE, lines) if lines else []
    pos = 0
    ndis = 0
    for (rows, shape), res in zip(systems, impl):
        nv = len(rows[0]) - 1
        key = rows_key(rows)
        nontriv = len(rows) >= 2 and sum(1 for r in rows if any(r[:-1])) >= 2
        ctx.case(("omega", key), nontrivial=nontriv)
        ctx.count("omega:%s:%s" % (label, res[0] if res[0] != "raise" else "raise:" + res[1]))
        ctx.count("shape:" + shape)
        model_line = out[pos] if out is not None else None
        pos += 1
        cert_line = None
        if res[0] in ("sat", "contr"):
            cert_line = out[pos] if out is not None else None
            pos += 1
        # ---------------- property oracle on the implementation's answer
        if res[0] == "timeout":
            res2 = run_omega(omega, rows, 90)
            if res2[0] == "timeout":
                ctx.count("omega:timeout-confirmed")
                continue          # termination is not part of C16
            res = res2
        if res[0] in ("sat-nonint", "contr-bad-deriv", "other", "input-modified"):
            ctx.violation("omega:malformed-answer:" + key, "solve_matrix(%s) answered %s" % (rows, (res,)), {"kind": "omega", "rows": rows, "result": res})
            continue
        if res[0] == "sat":
            d = dict(res[1])
            bad_keys = [k for k in d if not (0 <= k < nv)]
            vals = [d.get(i, 0) for i in range(nv)]
            viol = [r for r in rows if eval_row(r, vals) < 0]
            lean_ok = None if cert_line is None else (cert_line.strip() == "T")
            if bad_keys or viol or lean_ok is False:
                ctx.violation("omega:bad-witness:" + key,
                              "solve_matrix(%s) = SAT %s but row %s evaluates below 0 (Lean checkWitness: %s)" % (rows, d, (viol or ["-"])[0], lean_ok),
                              {"kind": "omega", "rows": rows, "result": res})
            elif lean_ok is None:
                pass
            ctx.count("oracle:witness-checked")
        elif res[0] == "contr":
            pt = brute_point(rows) if nv <= 4 else brute_point(rows, 3)
            z = z3_sat(rows) if (use_z3 and pt is None) else None
            dv = None
            if cert_line is not None:
                c = sexp.loads(cert_line)
                dv = (c[0] == "T")
            if pt is not None or z is True:
                ctx.violation("omega:wrong-contradiction:" + key,
                              "solve_matrix(%s) = UNSAT but %s is an integer solution" % (rows, list(pt) if pt is not None else "Z3 finds one"),
                              {"kind": "omega", "rows": rows, "result": res, "solution": list(pt) if pt is not None else None})
            elif dv is False:
                ctx.violation("omega:bad-derivation:" + key,
                              "solve_matrix(%s) = UNSAT with a derivation the verified checker rejects: %s" % (rows, sexp.dumps(res[1])),
                              {"kind": "omega", "rows": rows, "result": res})
            ctx.count("oracle:contradiction-checked")
            if z is not None:
                ctx.count("oracle:z3-lia")
        elif res[0] == "noconcl":
            ctx.count("omega:noconcl-truth:%s" % ("sat" if brute_point(rows, 4 if nv >= 4 else BOX) is not None else "no-point-in-box"))
        # ---------------- correspondence with the model
        if model_line is not None:
            m, flag = parse_omega_model(model_line)
            if m != res:
                ndis += 1
                if ndis <= 3:
                    ctx.broken("correspondence:c16:omega", "rows=%s impl=%s model=%s" % (rows, (res,), (m,)))
                    ctx.coverage["disagreements_checked"] += 1
            elif flag is False:
                # model agrees with the code but its own answer fails the verified checker
                ctx.broken("model-certificate:c16:omega", "rows=%s model answer %s fails its checker" % (rows, (m,)))
    return out is not None


# ------------------------------------------------------------------ main
def run(ctx):
    ctx.coverage["rule"] = (
        "integer systems, rows c1..cn,c0 meaning sum ci*xi + c0 >= 0: random with 1-5 variables, 1-8 rows, entries in -4..4 in "
        "14 shapes (plain/sparse/dense, equalities as paired inequalities, parity pairs, no-unit-coefficient 'dark' systems, one-sided "
        "(unbounded) systems, constant rows, duplicate/parallel rows, boxed, unit coefficients on variable 0, non-unit single-variable rows); "
        "thorough: every multiset of <=3 rows over 2 variables with entries in -2..2. Non-trivial = at least two rows with a variable; "
        "distinct by the row lists.")
    try:
        gen = c16_translate.translate(ctx.repo)
        if ctx.write_if_changed("Holpy/C16/Gen.lean", gen):
            ctx.log("Gen.lean regenerated (changed)")
    except Exception as e:  # noqa
        ctx.broken("translate:c16:combine_factoid", "untranslatable: %r" % e)
    proofs_ok = ctx.lean_props(["Holpy.C16.Props"], exes=[EXE])
    if ctx.tier == "thorough" and proofs_ok:
        ctx.lean_check_modules(["Holpy.C16.Props"])
    from prover import omega
    corpus = load_corpus(ctx)
    check_omega(ctx, omega, [(r, "corpus") for r in corpus], "corpus")
    rng = ctx.rng("omega")
    systems = [gen_system(rng) for _ in range(ctx.scale(4000, 60000))]
    for s in systems[:3]:
        ctx.sample({"rows": s[0], "shape": s[1]})
    have_model = True
    for i in range(0, len(systems), 10000):
        have_model = check_omega(ctx, omega, systems[i:i + 10000], "random") and have_model
    if not have_model:
        ctx.broken("correspondence:c16:driver", "model driver unavailable")


def load_corpus(ctx):
    p = os.path.join(ctx.verif, "corpus", "c16.json")
    if os.path.exists(p):
        with open(p) as f:
            return [[[int(c) for c in r] for r in rows] for rows in json.load(f)]
    return []


def replay(ctx, rp):
    from prover import omega
    r = rp["replay"]
    if r.get("kind") == "omega":
        check_omega(ctx, omega, [([[int(c) for c in row] for row in r["rows"]], "replay")], "replay", limit=90)
    for v in ctx.violations:
        print("still fails:", v[1])
    return bool(ctx.violations)


MANIFEST = {
    "text": "TODO",
    "note": "TODO",
    "design_ref": "DESIGN.md 4/C16",
}
FINDINGS = []
