"""Type-directed generator of well-typed holpy terms over the signature of the loaded theory
(used by harness/props/c07.py).  Nothing here goes through the printer or the parser of holpy
except `parse_type` for the type strings of the library files (declared overload instances).

Domain discipline (property C07): every constant is used at an instance of its declared type; an
overloaded constant only at a declared instance (read from the library JSON files of the import
closure) or at a plain type variable (its generic declaration); variable and bound names are
identifiers (CNAME) -- in the main stream never a keyword terminal of the grammar nor the name of
a constant of the theory; those live in the separate `adversarial names` stream.
"""
import json
import os

from kernel.type import TVar, STVar, TConst, TFun, BoolType, NatType, IntType, RealType, TypeMatchException
from kernel.term import Term, SVar, Var, Const, Comb, Abs, Bound
from kernel import theory

BINDER_CONSTS = ("all", "exists", "exists1", "The", "Some", "collect")


# ---------------------------------------------------------------- independent structural helpers
def ty_eq(a, b):
    if a is None or b is None:
        return a is b
    if a.ty != b.ty or a.name != b.name:
        return False
    if a.is_tconst():
        return len(a.args) == len(b.args) and all(ty_eq(x, y) for x, y in zip(a.args, b.args))
    return True


def term_eq(a, b):
    """Alpha-equivalence on the raw fields (independent of Term.__eq__ and its `_id` shortcut)."""
    stack = [(a, b)]
    while stack:
        a, b = stack.pop()
        if a.ty != b.ty:
            return False
        if a.ty in (Term.SVAR, Term.VAR, Term.CONST):
            if a.name != b.name or not ty_eq(a.T, b.T):
                return False
        elif a.ty == Term.COMB:
            stack.append((a.fun, b.fun))
            stack.append((a.arg, b.arg))
        elif a.ty == Term.ABS:
            if not ty_eq(a.var_T, b.var_T):
                return False
            stack.append((a.body, b.body))
        elif a.ty == Term.BOUND:
            if a.n != b.n:
                return False
    return True


def dump_type(T):
    if T is None:
        return "None"
    if T.is_tvar():
        return "'" + T.name
    if T.is_stvar():
        return "?'" + T.name
    if not T.args:
        return T.name
    return "(%s %s)" % (T.name, " ".join(dump_type(a) for a in T.args))


def dump_term(t):
    """Unambiguous, printer-independent rendering used in keys / replays."""
    if t.is_svar():
        return "(SVar %s %s)" % (t.name, dump_type(t.T))
    if t.is_var():
        return "(Var %s %s)" % (t.name, dump_type(t.T))
    if t.is_const():
        return "(Const %s %s)" % (t.name, dump_type(t.T))
    if t.is_comb():
        return "(%s %s)" % (dump_term(t.fun), dump_term(t.arg))
    if t.is_abs():
        return "(Abs %s %s %s)" % (t.var_name, dump_type(t.var_T), dump_term(t.body))
    return "(B %d)" % t.n


def type_to_json(T):
    if T.is_tvar():
        return ["tv", T.name]
    if T.is_stvar():
        return ["stv", T.name]
    return ["tc", T.name] + [type_to_json(a) for a in T.args]


def type_from_json(j):
    if j[0] == "tv":
        return TVar(j[1])
    if j[0] == "stv":
        return STVar(j[1])
    return TConst(j[1], *[type_from_json(a) for a in j[2:]])


def term_to_json(t):
    if t.is_svar():
        return ["sv", t.name, type_to_json(t.T)]
    if t.is_var():
        return ["v", t.name, type_to_json(t.T)]
    if t.is_const():
        return ["c", t.name, type_to_json(t.T)]
    if t.is_comb():
        return ["app", term_to_json(t.fun), term_to_json(t.arg)]
    if t.is_abs():
        return ["abs", t.var_name, type_to_json(t.var_T), term_to_json(t.body)]
    return ["b", t.n]


def term_from_json(j):
    k = j[0]
    if k == "sv":
        return SVar(j[1], type_from_json(j[2]))
    if k == "v":
        return Var(j[1], type_from_json(j[2]))
    if k == "c":
        return Const(j[1], type_from_json(j[2]))
    if k == "app":
        return Comb(term_from_json(j[1]), term_from_json(j[2]))
    if k == "abs":
        return Abs(j[1], type_from_json(j[2]), term_from_json(j[3]))
    return Bound(int(j[1]))


def match_type(pat, T, inst):
    """One-way matching of a declared type (TVars are pattern variables) against T.  Returns the
    extended instantiation (dict name -> Type) or None.  Own code: the oracle's notion of
    'instance of the declared type' must not depend on the implementation under test."""
    if pat.is_tvar():
        if pat.name in inst:
            return inst if ty_eq(inst[pat.name], T) else None
        inst = dict(inst)
        inst[pat.name] = T
        return inst
    if pat.is_tconst():
        if not T.is_tconst() or T.name != pat.name or len(T.args) != len(pat.args):
            return None
        for p, a in zip(pat.args, T.args):
            inst = match_type(p, a, inst)
            if inst is None:
                return None
        return inst
    return None


def subst_type(T, inst):
    if T.is_tvar():
        return inst.get(T.name, T)
    if T.is_tconst() and T.args:
        return TConst(T.name, *[subst_type(a, inst) for a in T.args])
    return T


def tvars_of(T, acc=None):
    acc = [] if acc is None else acc
    if T.is_tvar():
        if T.name not in acc:
            acc.append(T.name)
    elif T.is_tconst():
        for a in T.args:
            tvars_of(a, acc)
    return acc


def strip_fun(T):
    args = []
    while T.is_tconst() and T.name == "fun":
        args.append(T.args[0])
        T = T.args[1]
    return args, T


# ---------------------------------------------------------------- signature of the loaded theory
class Sig:
    """Constants with their declared types, type constructors, declared overload instances."""

    def __init__(self, repo, thy_name, parse_type):
        thy = theory.thy
        self.thy_name = thy_name
        self.consts = dict(sorted(thy.get_data("term_sig").items()))
        self.tycons = dict(thy.get_data("type_sig"))
        self.overloaded = sorted(thy.get_data("overload").keys())
        self.instances = {n: [] for n in self.overloaded}
        seen, todo = set(), [thy_name]
        while todo:
            n = todo.pop()
            if n in seen:
                continue
            seen.add(n)
            with open(os.path.join(repo, "library", n + ".json"), encoding="utf-8") as f:
                data = json.load(f)
            todo += data.get("imports", [])
            decls = []
            for it in data.get("content", []):
                if it.get("ty", "").startswith("def") and not it.get("overloaded"):
                    decls.append((it.get("name"), it.get("type")))
                elif it.get("ty") == "type.ind":
                    decls += [(c.get("name"), c.get("type")) for c in it.get("constrs", [])]
            for cname, ctype in decls:
                if cname in self.instances and ctype is not None:
                    try:
                        T = parse_type(ctype if isinstance(ctype, str) else "".join(ctype))
                    except Exception:  # noqa
                        continue
                    if not any(ty_eq(T, U) for U in self.instances[cname]):
                        self.instances[cname].append(T)
        for n in self.instances:
            self.instances[n].sort(key=dump_type)

    def const_ok(self, name, T):
        """T is an instance of the declared type of `name` (a declared one if overloaded)."""
        if name not in self.consts:
            return False
        if name in self.instances:
            if any(ty_eq(T, U) for U in self.instances[name]):
                return True
            # the generic declaration itself, at type variables only
            inst = match_type(self.consts[name], T, {})
            return inst is not None and all(v.is_tvar() for v in inst.values())
        return match_type(self.consts[name], T, {}) is not None

    def type_ok(self, T):
        if T.is_tvar() or T.is_stvar():
            return True
        return T.name in self.tycons and self.tycons[T.name] == len(T.args) and all(self.type_ok(a) for a in T.args)


def check_welltyped(sig, t):
    """Own type checker: returns the type, raises ValueError outside the property's domain."""
    def rec(t, env):
        if t.is_var() or t.is_svar():
            if t.T is None or not sig.type_ok(t.T):
                raise ValueError("bad var type")
            return t.T
        if t.is_const():
            if t.T is None or not sig.type_ok(t.T) or not sig.const_ok(t.name, t.T):
                raise ValueError("constant %s at non-instance %s" % (t.name, dump_type(t.T)))
            return t.T
        if t.is_comb():
            fT, aT = rec(t.fun, env), rec(t.arg, env)
            if not (fT.is_tconst() and fT.name == "fun" and ty_eq(fT.args[0], aT)):
                raise ValueError("ill-typed application")
            return fT.args[1]
        if t.is_abs():
            if t.var_T is None or not sig.type_ok(t.var_T):
                raise ValueError("bad abs type")
            return TFun(t.var_T, rec(t.body, [t.var_T] + env))
        if t.n >= len(env):
            raise ValueError("open term")
        return env[t.n]
    return rec(t, [])


# ---------------------------------------------------------------- names
KIND_LETTERS = {
    "bool": ["A", "B", "C"], "nat": ["m", "n", "k"], "int": ["i", "j"], "real": ["x", "y", "z"],
    "set": ["S", "T", "U"], "list": ["xs", "ys", "zs"], "fun": ["f", "g", "h"], "pred": ["P", "Q", "R"],
    "other": ["a", "b", "c", "u", "v"],
}


def kind_of(T):
    if T.is_tconst():
        if T.name == "fun":
            _, r = strip_fun(T)
            return "pred" if ty_eq(r, BoolType) else "fun"
        if T.name in ("bool", "nat", "int", "real", "set", "list"):
            return T.name
    return "other"


class Names:
    """One name <-> one type per generated term (a Context declares each name once)."""

    def __init__(self, rng, forbidden, special=None, bound_special=None):
        self.rng = rng
        self.bound_special = bound_special or []   # names used for bound variables only (e.g. constants of a LATER theory)
        self.forbidden = forbidden          # callable name -> bool (keyword terminal or constant)
        self.special = special or []        # adversarial names to use for fresh variables first
        self.name_T = {}
        self.svar_T = {}

    def _alloc(self, T, table):
        if self.special and self.rng.random() < 0.6:
            cands = [n for n in self.special if n not in table]
            if cands:
                n = self.rng.choice(cands)
                table[n] = T
                return n
        letters = KIND_LETTERS[kind_of(T)]
        i = 0
        while True:
            for l in letters:
                n = l if i == 0 else "%s%d" % (l, i)
                if n not in table and not self.forbidden(n):
                    table[n] = T
                    return n
            i += 1

    def free(self, T, svar=False):
        table = self.svar_T if svar else self.name_T
        have = [n for n, U in table.items() if ty_eq(U, T)]
        if have and self.rng.random() < 0.75:
            return self.rng.choice(have)
        return self._alloc(T, table)

    def bound_name(self, T):
        """Suggested bound name: often the name of a free variable (of the same or another type)."""
        r = self.rng.random()
        if self.bound_special and r < 0.5:
            return self.rng.choice(self.bound_special)
        if r < 0.35 and self.name_T:
            return self.rng.choice(sorted(self.name_T))
        if self.special and r < 0.6:
            return self.rng.choice(self.special)
        letters = KIND_LETTERS[kind_of(T)]
        n = self.rng.choice(letters)
        if self.forbidden(n):
            return "w"
        if r > 0.9:
            n += str(self.rng.randint(1, 2))     # names shaped like the printer's own variants
        return n


# ---------------------------------------------------------------- generator
class TermGen:
    def __init__(self, rng, sig, names, *, allow_svar=True):
        self.rng = rng
        self.sig = sig
        self.names = names
        self.allow_svar = allow_svar
        self.base = [T for T in (BoolType, NatType, IntType, RealType) if T.name in sig.tycons]
        self.numeric = [T for T in (NatType, IntType, RealType) if T.name in sig.tycons]
        self.extra_base = [TConst(n) for n, k in sorted(sig.tycons.items()) if k == 0 and n not in ("bool", "nat", "int", "real")]
        self.tva, self.tvb = TVar("a"), TVar("b")
        # index: constant -> (arg types, result) of the declared type
        self.decl = {n: strip_fun(T) for n, T in sig.consts.items()}
        self.hist = {}
        self.odd_tvars = True

    # ---- types
    def rand_type(self, depth=2):
        r = self.rng.random()
        if depth == 0 or r < 0.55:
            if self.odd_tvars and self.rng.random() < 0.08:
                # type variables with unusual names: '_t0 looks like an internal variable of type inference but is
                # an ordinary TVar; schematic ?'a / ?'t0 are ordinary too (only ?'_t<n> is reserved, see `reserved`)
                return self.rng.choice([TVar("_t0"), TVar("t1"), STVar("a"), STVar("t0"), TVar("_t")])
            if self.extra_base and self.rng.random() < 0.15:
                return self.rng.choice(self.extra_base)      # char, string, rat, ... (nullary type constructors of the theory)
            return self.rng.choice(self.base + [self.tva, self.tva, self.tvb])
        if r < 0.70 and "set" in self.sig.tycons:
            return TConst("set", self.rand_type(depth - 1))
        if r < 0.82 and "list" in self.sig.tycons:
            return TConst("list", self.rand_type(depth - 1))
        return TFun(self.rand_type(depth - 1), self.rand_type(depth - 1))

    def count(self, k):
        self.hist[k] = self.hist.get(k, 0) + 1

    # ---- instantiating a constant so that, applied to k arguments, it has type T
    def const_candidates(self, T, only=None):
        """All (name, k, partial instantiation) such that `name` applied to k arguments can have type T."""
        out = []
        for name, (args, res) in (self.decl.items() if only is None else [(only, self.decl[only])]):
            n = len(args)
            for k in range(n + 1):
                rk = res
                for a in reversed(args[k:]):
                    rk = TFun(a, rk)
                inst = match_type(rk, T, {})
                if inst is not None:
                    out.append((name, k, inst))
            # result is a type variable: it may be instantiated by a function type (extra arguments)
            if res.is_tvar():
                for extra in (1, 2):
                    out.append((name, n + extra, None))
        return out

    def complete_inst(self, name, inst):
        """Choose the remaining type variables of the declared type; None if impossible."""
        decl = self.sig.consts[name]
        if name in self.sig.instances:
            cands = []
            for U in self.sig.instances[name]:
                i2 = match_type(decl, U, {})
                if i2 is not None and all(k not in inst or ty_eq(inst[k], v) for k, v in i2.items()):
                    cands.append(i2)
            # generic declaration at type variables
            if all(v.is_tvar() for v in inst.values()):
                g = dict(inst)
                for v in tvars_of(decl):
                    g.setdefault(v, self.rng.choice([self.tva, self.tvb]))
                cands.append(g)
            if not cands:
                return None
            return self.rng.choice(cands)
        inst = dict(inst)
        for v in tvars_of(decl):
            if v not in inst:
                inst[v] = self.rand_type(1)
        return inst

    # ---- main entry
    def gen(self, T, depth, env):
        """A term of type T; env = list of types of enclosing binders (innermost first)."""
        rng = self.rng
        leaf = depth <= 0 or rng.random() < 0.12
        if leaf:
            return self.leaf(T, env)
        r = rng.random()
        if T.is_tconst() and T.name == "fun" and r < 0.45:
            return self.gen_abs(T, depth, env)
        if r < 0.06:
            return self.gen_redex(T, depth, env)
        if r < 0.16:
            return self.gen_varapp(T, depth, env)
        if r < 0.30:
            s = self.gen_special(T, depth, env)
            if s is not None:
                return s
        return self.gen_const_app(T, depth, env)

    def leaf(self, T, env):
        rng = self.rng
        bs = [i for i, U in enumerate(env) if ty_eq(U, T)]
        r = rng.random()
        if bs and r < 0.55:
            self.count("leaf:bound")
            return Bound(rng.choice(bs))
        if r < 0.75 and any(ty_eq(T, N) for N in self.numeric):
            return self.gen_numeral(T)
        if r < 0.85:
            zero_ary = [(n, k, i) for (n, k, i) in self.const_candidates(T) if k == 0 and i is not None]
            rng.shuffle(zero_ary)
            for name, _, inst in zero_ary:
                inst = self.complete_inst(name, inst)
                if inst is not None:
                    cT = subst_type(self.sig.consts[name], inst)
                    if self.sig.const_ok(name, cT):
                        self.count("leaf:const")
                        return Const(name, cT)
        if self.allow_svar and r > 0.96:
            self.count("leaf:svar")
            return SVar(self.names.free(T, svar=True), T)
        self.count("leaf:var")
        return Var(self.names.free(T), T)

    def gen_numeral(self, T, n=None):
        rng = self.rng
        if n is None:
            n = rng.choice([0, 1, 2, 3, 4, 7, 10, 12, 255, 1000, rng.randint(0, 40)])
        self.count("numeral:%s" % dump_type(T))
        if n >= 1 and "bit0" in self.sig.consts and "of_nat" in self.sig.consts and rng.random() < 0.06:
            # binary numerals with leading zero bits (bit0 (bit1 zero) = 2): well-typed, not what the parser builds
            self.count("numeral:non-canonical")
            return Const("of_nat", TFun(NatType, T))(mk_binary_padded(n, rng.choice([1, 2])))
        return mk_number(T, n)

    def gen_abs(self, T, depth, env):
        A, B = T.args
        nm = self.names.bound_name(A)
        scope = getattr(self, "_bscope", [])
        if scope and self.rng.random() < 0.3:
            # shadowing: an inner binder suggests the name of an enclosing binder (of any kind: lambda, quantifier,
            # set comprehension ...); the printer must rename it when the body still mentions the outer variable
            nm = self.rng.choice(scope)
            self.count("abs:shadows-enclosing-binder")
        self.count("abs")
        self._bscope = scope + [nm]
        try:
            body = self.gen(B, depth - 1, [A] + env)
        finally:
            self._bscope = scope
        return Abs(nm, A, body)

    def gen_redex(self, T, depth, env):
        A = self.rand_type(1)
        self.count("redex")
        return Comb(self.gen_abs(TFun(A, T), depth, env), self.gen(A, depth - 1, env))

    def gen_varapp(self, T, depth, env):
        k = self.rng.choice([1, 1, 2])
        As = [self.rand_type(1) for _ in range(k)]
        fT = TFun(*(As + [T]))
        bs = [i for i, U in enumerate(env) if ty_eq(U, fT)]
        if bs and self.rng.random() < 0.5:
            f = Bound(self.rng.choice(bs))
        else:
            f = Var(self.names.free(fT), fT)
        self.count("var-app")
        for A in As:
            f = Comb(f, self.gen(A, depth - 1, env))
        return f

    def gen_const_app(self, T, depth, env, only=None):
        rng = self.rng
        cands = self.const_candidates(T)
        if only is not None:
            cands = [c for c in cands if c[0] in only]
        if not cands:
            return self.leaf(T, env)
        # prefer applied constants over bare ones, but keep bare / partial applications
        weights = []
        for name, k, inst in cands:
            n = len(self.decl[name][0])
            w = 1.0 if k == n else (0.25 if k > 0 else 0.12)
            if inst is None:
                w = 0.15
            weights.append(w)
        for _ in range(8):
            name, k, inst = rng.choices(cands, weights)[0]
            t = self.build_const(name, k, inst, T, depth, env)
            if t is not None:
                return t
        return self.leaf(T, env)

    def build_const(self, name, k, inst, T, depth, env):
        rng = self.rng
        args, res = self.decl[name]
        if inst is None:
            # over-application: result type variable := extra arguments => T
            extra = k - len(args)
            Es = [self.rand_type(1) for _ in range(extra)]
            inst = match_type(res, TFun(*(Es + [T])), {})
        inst = self.complete_inst(name, inst)
        if inst is None:
            return None
        cT = subst_type(self.sig.consts[name], inst)
        if not self.sig.const_ok(name, cT):
            return None
        t = Const(name, cT)
        argTs, _ = strip_fun(cT)
        self.count("const:%s/%d" % (name, k))
        for i in range(k):
            A = argTs[i]
            if name in BINDER_CONSTS and i == 0 and rng.random() < 0.85:
                a = self.gen_abs(A, depth, env)
            elif name == "Let" and i == 1 and rng.random() < 0.85:
                a = self.gen_abs(A, depth, env)
            else:
                a = self.gen(A, depth - 1, env)
            t = Comb(t, a)
        return t

    def gen_special(self, T, depth, env):
        """Literal syntax: numerals (also negative / fractions), list and set literals, intervals,
        chars/strings, function update chains, if."""
        rng = self.rng
        opts = []
        if any(ty_eq(T, N) for N in self.numeric):
            opts += ["num", "num"]
            if not ty_eq(T, NatType) and "uminus" in self.sig.consts:
                opts += ["neg"]
            if ty_eq(T, RealType) and "real_divide" in self.sig.consts:
                opts += ["frac"]
        if T.is_tvar() and "zero" in self.sig.consts:
            opts += ["num"]
        if T.is_tconst() and T.name == "list" and "cons" in self.sig.consts:
            opts += ["list", "list"]
        if T.is_tconst() and T.name == "set" and "insert" in self.sig.consts:
            opts += ["set", "set", "collect"]
            if ty_eq(T.args[0], NatType) and "nat_interval" in self.sig.consts:
                opts += ["interval"]
        if T.is_tconst() and T.name == "fun" and "fun_upd" in self.sig.consts:
            opts += ["fun_upd"]
        if T.is_tconst() and T.name == "char" and "Char" in self.sig.consts:
            opts += ["char"]
        if T.is_tconst() and T.name == "string" and "String" in self.sig.consts:
            opts += ["string"]
        if "IF" in self.sig.consts:
            opts += ["if"]
        if not opts:
            return None
        o = rng.choice(opts)
        self.count("special:" + o)
        if o == "num":
            return self.gen_numeral(T)
        if o == "neg":
            inner = self.gen_numeral(T, rng.choice([1, 2, 3, 10])) if rng.random() < 0.7 else self.gen(T, depth - 1, env)
            return Const("uminus", TFun(T, T))(inner)
        if o == "frac":
            d = Const("real_divide", TFun(T, T, T))
            p, q = rng.choice([(1, 2), (2, 3), (1, 0), (3, 1), (4, 2), (0, 5), (7, 10)])
            t = d(mk_number(T, p), mk_number(T, q))
            if rng.random() < 0.3:
                t = Const("uminus", TFun(T, T))(t)
            return t
        if o == "list":
            E = T.args[0]
            n = rng.choice([0, 1, 2, 3])
            t = Const("nil", T)
            for _ in range(n):
                t = Const("cons", TFun(E, T, T))(self.gen(E, depth - 1, env), t)
            return t
        if o == "set":
            E = T.args[0]
            n = rng.choice([0, 1, 2, 3])
            t = Const("empty_set", T)
            for _ in range(n):
                t = Const("insert", TFun(E, T, T))(self.gen(E, depth - 1, env), t)
            return t
        if o == "collect":
            E = T.args[0]
            return Const("collect", TFun(TFun(E, BoolType), T))(self.gen_abs(TFun(E, BoolType), depth, env))
        if o == "interval":
            c = Const("nat_interval", TFun(NatType, NatType, T))
            return c(self.gen(NatType, depth - 1, env), self.gen(NatType, depth - 1, env))
        if o == "fun_upd":
            A, B = T.args
            f = self.gen(T, depth - 1, env)
            for _ in range(rng.choice([1, 1, 2])):
                f = Const("fun_upd", TFun(T, A, B, A, B))(f, self.gen(A, depth - 1, env), self.gen(B, depth - 1, env))
            return f
        if o == "char":
            r = rng.random()
            if r < 0.08:
                return Const("Char", TFun(NatType, TConst("char")))(mk_binary_padded(ord(rng.choice("azAZ09")), 1))
            if r < 0.3:     # letters / digits outside ASCII: `\w` in Python, not LETTER / DIGIT of the grammar
                return mk_char(rng.choice("éßλЖ٣中ºµ"))
            return mk_char(rng.choice("azAZ09_") if r < 0.8 else rng.choice(" +'\"\\\n\x00"))
        if o == "string":
            s = rng.choice(["a", "ab", "x1", "_u", "Hello", "", "a b", "9a", "if", "café", "aé", "xλ", "n٣", "_ß", "Ж"])
            return mk_string(s)
        if o == "if":
            c = Const("IF", TFun(BoolType, T, T, T))
            return c(self.gen(BoolType, depth - 1, env), self.gen(T, depth - 1, env), self.gen(T, depth - 1, env))
        return None


def mk_binary(n):
    """Binary numeral in the raw bit0/bit1 form at type nat."""
    if n == 0:
        return Const("zero", NatType)
    if n == 1:
        return Const("one", NatType)
    c = Const("bit1" if n % 2 else "bit0", TFun(NatType, NatType))
    return c(mk_binary(n // 2))


def mk_binary_padded(n, pad):
    """Binary form of n with `pad` leading zero bits: ... (bit1 zero) instead of ... one."""
    bits = []
    while n > 0:
        bits.append(n % 2)
        n //= 2
    t = Const("zero", NatType)
    for _ in range(pad - 1):
        t = Const("bit0", TFun(NatType, NatType))(t)
    for b in reversed(bits):
        t = Const("bit1" if b else "bit0", TFun(NatType, NatType))(t)
    return t


def mk_number(T, n):
    if n == 0:
        return Const("zero", T)
    if n == 1:
        return Const("one", T)
    return Const("of_nat", TFun(NatType, T))(mk_binary(n))


def mk_char(c):
    return Const("Char", TFun(NatType, TConst("char")))(mk_binary(ord(c)))


def mk_string(s):
    cT = TConst("char")
    lT = TConst("list", cT)
    t = Const("nil", lT)
    for c in reversed(s):
        t = Const("cons", TFun(cT, lT, lT))(mk_char(c), t)
    return Const("String", TFun(lT, TConst("string")))(t)


# ---------------------------------------------------------------- shrinking
def subst_bounds_closed(t, env_vars):
    """Replace dangling Bound(i) by the variables in env_vars (innermost first)."""
    def rec(t, depth):
        if t.is_comb():
            return Comb(rec(t.fun, depth), rec(t.arg, depth))
        if t.is_abs():
            return Abs(t.var_name, t.var_T, rec(t.body, depth + 1))
        if t.is_bound() and t.n >= depth:
            return env_vars[t.n - depth]
        return t
    return rec(t, 0)


def used_names(t, acc=None):
    acc = set() if acc is None else acc
    if t.is_var() or t.is_svar():
        acc.add(t.name)
    elif t.is_comb():
        used_names(t.fun, acc)
        used_names(t.arg, acc)
    elif t.is_abs():
        acc.add(t.var_name)
        used_names(t.body, acc)
    return acc


def map_type(T, f):
    """Apply f bottom-up to every sub-type."""
    if T.is_tconst() and T.args:
        T = TConst(T.name, *[map_type(a, f) for a in T.args])
    return f(T)


def map_types(t, f):
    """Apply f to every type annotation of the term."""
    if t.is_var():
        return Var(t.name, f(t.T))
    if t.is_svar():
        return SVar(t.name, f(t.T))
    if t.is_const():
        return Const(t.name, f(t.T))
    if t.is_comb():
        return Comb(map_types(t.fun, f), map_types(t.arg, f))
    if t.is_abs():
        return Abs(t.var_name, f(t.var_T), map_types(t.body, f))
    return t


def rename_names(t, mapping):
    """Rename variables, schematic variables and suggested bound names according to `mapping`."""
    if t.is_var():
        return Var(mapping.get(t.name, t.name), t.T)
    if t.is_svar():
        return SVar(mapping.get(t.name, t.name), t.T)
    if t.is_comb():
        return Comb(rename_names(t.fun, mapping), rename_names(t.arg, mapping))
    if t.is_abs():
        return Abs(mapping.get(t.var_name, t.var_name), t.var_T, rename_names(t.body, mapping))
    return t


def type_of(t, env=()):
    if t.is_var() or t.is_svar() or t.is_const():
        return t.T
    if t.is_comb():
        return type_of(t.fun, env).args[1]
    if t.is_abs():
        return TFun(t.var_T, type_of(t.body, (t.var_T,) + tuple(env)))
    return env[t.n]


def shrink_candidates(t):
    """Smaller closed terms: closed subterms, and t with one subterm replaced by a fresh variable."""
    names = used_names(t)
    counter = [0]

    def fresh(T):
        while True:
            counter[0] += 1
            n = "q%d" % counter[0]
            if n not in names:
                names.add(n)
                return Var(n, T)

    out = []

    def subs(s, env):
        # env: list of (Var) for enclosing binders, innermost first
        if s is not t:
            out.append(subst_bounds_closed(s, env))
        if s.is_comb():
            subs(s.fun, env)
            subs(s.arg, env)
        elif s.is_abs():
            subs(s.body, [fresh(s.var_T)] + env)
    subs(t, [])

    def repl(s, env):
        """Yield copies of s with exactly one proper, non-leaf subterm replaced by a variable."""
        if s.is_comb():
            for part, mk in ((s.fun, lambda x: Comb(x, s.arg)), (s.arg, lambda x: Comb(s.fun, x))):
                if part.is_comb() or part.is_abs():
                    try:
                        T = type_of(part, env)
                        if not part_is_open(part):
                            yield mk(fresh(T))
                    except Exception:  # noqa
                        pass
                for x in repl(part, env):
                    yield mk(x)
        elif s.is_abs():
            for x in repl(s.body, (s.var_T,) + tuple(env)):
                yield Abs(s.var_name, s.var_T, x)
    out += list(repl(t, ()))
    out.sort(key=lambda x: x.size())
    return out


def part_is_open(t):
    def rec(t, n):
        if t.is_comb():
            return rec(t.fun, n) or rec(t.arg, n)
        if t.is_abs():
            return rec(t.body, n + 1)
        return t.is_bound() and t.n >= n
    return rec(t, 0)


def shrink(t, fails, budget=400):
    """Greedy minimisation: `fails(term) -> bool`."""
    cur = t
    while budget > 0:
        for c in shrink_candidates(cur):
            budget -= 1
            if budget <= 0:
                break
            if c.size() < cur.size() and fails(c):
                cur = c
                break
        else:
            break
    return cur
