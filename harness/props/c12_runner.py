"""Subprocess side of the C12 check: runs one scripted history against the real loader.

usage: python c12_runner.py spec.json      (cwd / sys.path[0] = the holpy tree under test): one history, one process
       python c12_runner.py --zygote boot.json   imports logic.basic (nothing else: no metadata, no theory), then reads
           lines {"spec": path, "out": path} from stdin and FORKS one child per line; the child is in the state of a
           process that has just imported the loader and runs the history of its spec (used for the synthetic battery:
           the import of the loader costs ~2.5 s of CPU per process, a fork costs nothing)
spec = {"repo": path, "libroot": null | scratch root (has library/ and logic/), "interest": [module names],
        "ops": [{"op": "import", "module": m} | {"op": "load", "name": n, "limit": null|"start"|[ty, name],
                 "fault": null|[file, index]} | {"op": "touch", "name": n, "mtime": t} |
                {"op": "edit", "name": n, "src": path, "mtime": t} | {"op": "reload"}]}
Prints one JSON object: per-op result / files parsed / modules executed, and a canonical dump of theory.thy.
Nothing is written inside the holpy tree.
"""
import hashlib
import json
import os
import shutil
import sys
import traceback

ZYGOTE = sys.argv[1] == "--zygote"
spec = json.load(open(sys.argv[2] if ZYGOTE else sys.argv[1]))
sys.path.insert(0, spec["repo"])
sys.setrecursionlimit(20000)
sys.dont_write_bytecode = True

# --- order in which modules of interest start executing
INTEREST = set(spec.get("interest", []))
mod_log = []


class _Finder:
    @staticmethod
    def find_spec(name, path=None, target=None):
        if name in INTEREST:
            mod_log.append(name)
        return None


sys.meta_path.insert(0, _Finder)

from kernel import theory  # noqa: E402
from logic import basic  # noqa: E402
from server import items  # noqa: E402

# --- tracing wrappers (harness side only)
reads = []
state = {"meta": 0, "cur": None, "fault": None}
# health of the instrumentation: the wrappers below hang on internals of logic/basic.py (module attributes looked up at call
# time); a refactoring may bypass them.  The harness uses the tags only when these counters show that they were hit.
instr = {"json": 0, "parse": 0, "extend": 0, "tagged": 0}


class Injected(Exception):
    pass


class Tagged(list):
    tag = None


_load_json = getattr(basic, "load_json_data", None)      # an internal helper: may be renamed or inlined


def load_json_data(filename, username="master"):
    data = _load_json(filename, username)
    if not state["meta"]:
        instr["json"] += 1
        reads.append(filename)
        state["cur"] = [filename, 0]
    return data


if _load_json is not None:
    basic.load_json_data = load_json_data
_load_meta = basic.load_metadata


def load_metadata(username="master"):
    state["meta"] += 1
    reads.append("#meta")
    try:
        return _load_meta(username)
    finally:
        state["meta"] -= 1


basic.load_metadata = load_metadata
_parse_item = items.parse_item


def parse_item(data):
    cur = state["cur"]
    tag = None
    instr["parse"] += 1
    if cur is not None:
        tag = (cur[0], cur[1])
        cur[1] += 1
    if tag is not None and state["fault"] is not None and list(tag) == list(state["fault"]):
        raise Injected("injected fault at %s[%d]" % tag)
    obj = _parse_item(data)
    obj._c12 = tag
    return obj


items.parse_item = parse_item


def wrap_get_extension(cls):
    orig = cls.__dict__.get("get_extension")
    if orig is None:
        return

    def get_extension(self):
        res = Tagged(orig(self))
        res.tag = getattr(self, "_c12", None)
        return res
    cls.get_extension = get_extension


for _cls in set(items.item_table.values()):
    wrap_get_extension(_cls)
_unchecked = theory.Theory.unchecked_extend


def unchecked_extend(self, exts):
    tag = getattr(exts, "tag", "?")
    exts = list(exts)
    _unchecked(self, exts)
    instr["extend"] += 1
    if isinstance(tag, tuple):
        instr["tagged"] += 1
    self.__dict__.setdefault("_c12", []).append(tag)


theory.Theory.unchecked_extend = unchecked_extend


# --- canonical dump
def canon_term(t):
    out = []
    stack = [t]
    while stack:
        x = stack.pop()
        if isinstance(x, str):
            out.append(x)
        elif x.is_svar():
            out.append("SV(%s:%r)" % (x.name, x.T))
        elif x.is_var():
            out.append("V(%s:%r)" % (x.name, x.T))
        elif x.is_const():
            out.append("C(%s:%r)" % (x.name, x.T))
        elif x.is_comb():
            out.append("(")
            stack.append(")")
            stack.append(x.arg)
            stack.append(x.fun)
        elif x.is_abs():
            out.append("L(%s:%r." % (x.var_name, x.var_T))
            stack.append(")")
            stack.append(x.body)
        elif x.is_bound():
            out.append("B%d" % x.n)
        else:
            out.append("?%r" % (x,))
    return " ".join(out)


def canon_thm(th):
    return " ; ".join(sorted(canon_term(h) for h in th.hyps)) + " |- " + canon_term(th.prop)


def dump_theory(thy):
    if thy is None:
        return None
    d = thy.data
    thms = {}
    for name, th in d.get("theorems", {}).items():
        s = canon_thm(th)
        thms[name] = hashlib.sha1(s.encode("utf-8")).hexdigest()[:16] + ":" + s[:60]
    return {
        "types": sorted([k, v] for k, v in d.get("type_sig", {}).items()),
        "consts": sorted([k, repr(v)] for k, v in d.get("term_sig", {}).items()),
        "theorems": sorted([k, v] for k, v in thms.items()),
        "attributes": sorted([k, list(v)] for k, v in d.get("attributes", {}).items()),
        "overload": sorted(d.get("overload", {}).keys()),
        "keys": sorted(d.keys()),
    }


def names_of(thy):
    """what a user can observe: the names of the types, constants and theorems of the theory"""
    if thy is None:
        return None
    d = thy.data
    return {"types": sorted(d.get("type_sig", {})), "consts": sorted(d.get("term_sig", {})), "theorems": sorted(d.get("theorems", {}))}


def classify(e):
    tb = traceback.extract_tb(e.__traceback__)
    where = [fr.name for fr in tb if fr.filename.endswith(os.path.join("logic", "basic.py"))]
    msg = getattr(e, "str", None) or str(e)
    return {"type": type(e).__name__, "msg": str(msg)[:200], "where": where[-3:]}


def run_spec(spec, out):
    import time
    t_start = time.time()
    if spec.get("libroot"):
        basic.dirname = os.path.join(spec["libroot"], "logic")
    pre = sorted(m for m in INTEREST if m in sys.modules)
    out_ops = []
    for op in spec["ops"]:
        del reads[:]
        del mod_log[:]
        state["fault"] = None
        res = "ok"
        try:
            if op["op"] == "import":
                __import__(op["module"])
            elif op["op"] == "load":
                lim = op.get("limit")
                if isinstance(lim, list):
                    lim = tuple(lim)
                state["fault"] = op.get("fault")
                if op.get("user"):
                    basic.load_theory(op["name"], limit=lim, username=op["user"])
                else:
                    basic.load_theory(op["name"], limit=lim)
            elif op["op"] == "touch":
                p = basic.user_file(op["name"], op.get("user") or "master")
                os.utime(p, (op["mtime"], op["mtime"]))
            elif op["op"] == "edit":
                p = basic.user_file(op["name"], op.get("user") or "master")
                assert spec.get("libroot") and os.path.realpath(p).startswith(os.path.realpath(spec["libroot"]))
                shutil.copyfile(op["src"], p)
                os.utime(p, (op["mtime"], op["mtime"]))
            elif op["op"] == "reload":
                basic.load_metadata(op.get("user") or "master")
            elif op["op"] == "noop":
                pass
            else:
                raise ValueError(op)
        except BaseException as e:  # noqa
            res = classify(e)
        finally:
            state["fault"] = None
        rec = {"res": res, "reads": list(reads), "mods": list(mod_log)}
        if op["op"] == "load":
            # snapshot of theory.thy after every load (outcome is judged op by op)
            t = theory.thy
            rec["thy_items"] = None if t is None else [list(x) if isinstance(x, tuple) else x for x in t.__dict__.get("_c12", [])]
            rec["names"] = names_of(t)
            d = dump_theory(t)
            rec["digest"] = None if d is None else hashlib.sha1(json.dumps(d, sort_keys=True).encode("utf-8")).hexdigest()
            if spec.get("dump_all"):
                rec["dump"] = d
        out_ops.append(rec)

    thy = theory.thy
    flags = {}
    for name, c in basic.theory_cache.get("master", {}).items():
        if "content" in c and "timestamp" in c:
            flags[name] = [it.error is None for it in c["content"]]
    final = {
        "thy_items": None if thy is None else [list(t) if isinstance(t, tuple) else t for t in thy.__dict__.get("_c12", [])],
        "dump": dump_theory(thy),
        "flags": flags,
    }
    out.write("\n@@C12@@" + json.dumps({"ops": out_ops, "final": final, "pre": pre, "instr": instr, "wall": round(time.time() - t_start, 2)}) + "\n")
    out.flush()


if not ZYGOTE:
    run_spec(spec, sys.stdout)
else:
    limit = int(spec.get("workers", 8))
    running = set()
    import gc
    gc.collect()
    gc.freeze()          # children do not traverse (and so do not copy) the importer's heap

    for line in sys.stdin:
        line = line.strip()
        if not line:
            continue
        job = json.loads(line)
        while len(running) >= limit:
            pid, _ = os.wait()
            running.discard(pid)
        pid = os.fork()
        if pid == 0:
            code = 0
            try:
                with open(job["out"], "w") as fh:
                    run_spec(json.load(open(job["spec"])), fh)
            except BaseException:  # noqa
                traceback.print_exc()
                code = 1
            os._exit(code)
        running.add(pid)
    while running:
        pid, _ = os.wait()
        running.discard(pid)
