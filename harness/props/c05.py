"""C05 — trusted arithmetic evaluation steps only assert true facts.

Stages: (1) the table of every `@register_macro` class with its `self.level`, read with `ast`
(Gen.lean) + Lean obligations (Holpy.C05.Props) + model driver; (2) correspondence: one-step proofs
`ProofItem(0, macro, args=goal)` through the real `theory.check_proof` at the default check level
against the Lean model `accept`, and the evaluators `nat_eval/int_eval/real_eval` against
`natEval/intEval/realEval`; (3) property oracle on the implementation: every accepted sequent is
evaluated by an independent typed semantics (exact `Fraction`s; mpmath at 200 digits for irrational
constants, supporting only) and must be true, and the goal must have the shape and type the step is
meant for.
"""
import ast
import json
import os
from fractions import Fraction

from harness.common import sexp
from harness.common.ctx import Timeout, time_limit

EXE = "c05_model"
LEAN_MODULES = ["Holpy.C05.Props", "Holpy.C05.PropsNorm", "Holpy.C05.PropsInterval", "Holpy.C05.PropsConstIneq"]

# ---------------------------------------------------------------------------------------------
# 1. macro table (Gen.lean)
# ---------------------------------------------------------------------------------------------
SKIP_DIRS = {"tests", "__pycache__", "node_modules", ".git", "app", "tutorial", "users", "library"}


UNPARSED = "unparsed"      # the source assigns something the AST reader cannot evaluate; the live registry decides


def macro_modules(repo):
    """Dotted names of every module whose source mentions `register_macro` or `global_macros`."""
    mods = []
    for root, dirs, files in os.walk(repo):
        dirs[:] = sorted(d for d in dirs if d not in SKIP_DIRS and not d.startswith("."))
        for fn in sorted(files):
            if fn.endswith(".py"):
                p = os.path.join(root, fn)
                with open(p, encoding="utf-8") as f:
                    src = f.read()
                if "register_macro" in src or "global_macros" in src:
                    mods.append(os.path.relpath(p, repo)[:-3].replace(os.sep, "."))
    return mods


def live_macro_rows(ctx):
    """(name, level, module) of every macro in the registry of the running implementation after
    importing every module that can register one (also `global_macros.update({...})`, instances, named
    constants for the level).  A level that check_proof would refuse (not None / int >= 0) counts as None."""
    import importlib
    import sys
    import types
    import warnings
    if "smt" not in sys.modules or not getattr(sys.modules["smt"], "__path__", None) or ctx.repo not in str(list(sys.modules["smt"].__path__)):
        m = types.ModuleType("smt")
        m.__path__ = [os.path.join(ctx.repo, "smt")]
        sys.modules["smt"] = m
    failed = []
    from logic import basic
    basic.load_theory('real')          # smt/verit modules need it loaded first
    for mod in macro_modules(ctx.repo):
        try:
            with warnings.catch_warnings():
                warnings.simplefilter("ignore")
                importlib.import_module(mod)
        except BaseException as e:  # noqa
            failed.append((mod, type(e).__name__))
            ctx.count("macro-table:import-failed:%s" % mod)
    sys.setrecursionlimit(12000)       # prover/proofrec.py sets 10**7 on import
    from kernel import theory
    rows = []
    for name, m in theory.global_macros.items():
        lv = getattr(m, "level", None)
        if not (isinstance(lv, int) and not isinstance(lv, bool) and lv >= 0):
            lv = None
        rows.append((name, lv, type(m).__module__))
    rows.sort()
    return rows, failed


def scan_macros(repo):
    """All `@register_macro(name)` classes with the value assigned to `self.level` (None when the
    class never assigns it: `Macro.__init__` sets None, and such a macro is always expanded)."""
    rows = []
    for root, dirs, files in os.walk(repo):
        dirs[:] = sorted(d for d in dirs if d not in SKIP_DIRS and not d.startswith("."))
        for fn in sorted(files):
            if not fn.endswith(".py"):
                continue
            p = os.path.join(root, fn)
            with open(p, encoding="utf-8") as f:
                src = f.read()
            if "register_macro" not in src:
                continue
            import warnings
            with warnings.catch_warnings():
                warnings.simplefilter("ignore")
                tree = ast.parse(src)
            for node in ast.walk(tree):
                if not isinstance(node, ast.ClassDef):
                    continue
                for dec in node.decorator_list:
                    if isinstance(dec, ast.Call) and getattr(dec.func, "id", getattr(dec.func, "attr", None)) == "register_macro":
                        name = ast.literal_eval(dec.args[0])
                        level = None
                        seen = False
                        for sub in ast.walk(node):
                            if isinstance(sub, ast.Assign):
                                for t in sub.targets:
                                    if isinstance(t, ast.Attribute) and t.attr == "level" and isinstance(t.value, ast.Name) and t.value.id == "self":
                                        try:
                                            v = ast.literal_eval(sub.value)
                                            if not (v is None or (isinstance(v, int) and not isinstance(v, bool) and v >= 0)) or (seen and v != level):
                                                v = UNPARSED
                                        except Exception:  # noqa  (a named constant, an expression ...)
                                            v = UNPARSED
                                        level, seen = v, True
                        rows.append((name, level, os.path.relpath(p, repo)[:-3].replace(os.sep, ".")))
    rows.sort()
    return rows


def default_check_level(repo):
    """The default of the keyword `check_level` of `Theory.check_proof` and of the module function."""
    with open(os.path.join(repo, "kernel", "theory.py"), encoding="utf-8") as f:
        tree = ast.parse(f.read())
    vals = set()
    for node in ast.walk(tree):
        if isinstance(node, ast.FunctionDef) and node.name == "check_proof":
            for a, d in zip(node.args.kwonlyargs, node.args.kw_defaults):
                if a.arg == "check_level":
                    vals.add(ast.literal_eval(d))
    assert len(vals) == 1, "untranslatable: check_level defaults %r" % (vals,)
    return vals.pop()


def gen_lean(ctx):
    """Table = the live registry; the AST scan is a cross-check, and supplies rows of modules that could
    not be imported."""
    repo = ctx.repo
    rows, failed = live_macro_rows(ctx)
    live = {r[0]: r for r in rows}
    try:
        ast_rows = scan_macros(repo)
    except Exception as e:  # noqa
        ast_rows = []
        ctx.count("macro-table:ast-scan-failed")
        ctx.log("AST scan of register_macro classes failed (%r); the table is the live registry only" % (e,))
    for name, level, mod in ast_rows:
        if level == UNPARSED:
            ctx.count("macro-table:ast-level-unparsed")
            if name not in live:
                ctx.broken("translate:c05:macro-table", "macro %s (%s): level is not a literal and the module could not be imported" % (name, mod))
        elif name in live:
            if live[name][1] != level:
                ctx.broken("translate:c05:macro-table", "level of %s: source says %r, registry says %r" % (name, level, live[name][1]))
        else:
            ctx.count("macro-table:row-from-ast-only")
            rows.append((name, level, mod))
    rows.sort()
    try:
        lvl = default_check_level(repo)
    except Exception as e:  # noqa
        import inspect
        from kernel import theory
        lvl = inspect.signature(theory.check_proof).parameters["check_level"].default
        ctx.count("macro-table:check-level-from-signature")
    out = ["/- GENERATED by harness/props/c05.py: the macro registry (`kernel.theory.global_macros`) of the running holpy after importing",
           "   every module that can register a macro, cross-checked with an `ast` scan of the `@register_macro` classes; do not edit.",
           "   level = `macro.level` (none: None or not an int >= 0, i.e. never accepted without expansion). -/",
           "namespace Holpy.C05.Gen", "",
           "/-- default of the keyword `check_level` of `check_proof` in kernel/theory.py -/",
           "def defaultCheckLevel : Nat := %d" % lvl, "",
           "/-- (name, level, module) -/",
           "def macroTable : List (String × Option Nat × String) := ["]
    for i, (name, level, mod) in enumerate(rows):
        out.append('  ("%s", %s, "%s")%s' % (name, "none" if level is None else "some %d" % level, mod, "," if i + 1 < len(rows) else ""))
    out += ["]", "", "end Holpy.C05.Gen", ""]
    return "\n".join(out), rows, lvl


# ---------------------------------------------------------------------------------------------
# 2. trees -> holpy terms;  holpy terms -> wire format
# ---------------------------------------------------------------------------------------------
# A *tree* is a JSON-able nested list; it is what generators produce and what replays store.
#   wire forms  : ["zero",T] ["one",T] ["bit0",e] ["bit1",e] ["suc",e] ["ofnat",T,e] ["ofint",e]
#                 ["plus",T,a,b] ["minus",T,a,b] ["times",T,a,b] ["uminus",T,a] ["divide",a,b]
#                 ["inverse",a] ["power",T,a,b] ["eq",T,a,b] ["lt"|"le"|"gt"|"ge",T,a,b] ["neg",a]
#                 "tru" "fls"
#   extra forms : ["var",name,T] ["fn",name,e] (sqrt exp log sin cos tan cot sec csc atn abs at real) ["pi"]
#                 ["forged",name,[T1..Tn],T,e1..en]  the constant `name` at type T1 => .. => Tn => T (any types at all)
#                 ["lit",T,"p","q"]  the canonical numeral kernel.term.Number(T, p/q) (keeps replays short)
#   T           : "nat" "int" "real" "bool" "other"
class K:
    """Lazy handle on the kernel modules of the repo under test."""
    loaded = False

    @classmethod
    def load(cls):
        if cls.loaded:
            return
        import sys
        sys.setrecursionlimit(max(sys.getrecursionlimit(), 12000))   # printing / hashing 700-bit numerals recurses per bit
        from kernel import term, theory
        from kernel import type as htype
        from kernel.proof import Proof, ProofItem
        from logic import basic
        from data import nat, integer, real
        from integral import inequality  # registers const_inequality
        basic.load_theory('transcendentals')
        cls.term, cls.theory, cls.htype, cls.Proof, cls.ProofItem = term, theory, htype, Proof, ProofItem
        cls.nat, cls.integer, cls.real = nat, integer, real
        cls.T = {"nat": htype.NatType, "int": htype.IntType, "real": htype.RealType, "bool": htype.BoolType,
                 "other": htype.TVar("a")}
        cls.loaded = True


def build(tr):
    """tree -> kernel Term (constants are used at the instance of their declared type given by the tag)."""
    t, ht = K.term, K.htype
    if tr == "tru":
        return t.true
    if tr == "fls":
        return t.false
    h = tr[0]
    if h in ("zero", "one"):
        return t.Const(h, K.T[tr[1]])
    if h == "bit0":
        return t.bit0(build(tr[1]))
    if h == "bit1":
        return t.bit1(build(tr[1]))
    if h == "suc":
        return t.Const("Suc", ht.TFun(ht.NatType, ht.NatType))(build(tr[1]))
    if h == "ofnat":
        return t.of_nat(K.T[tr[1]])(build(tr[2]))
    if h == "ofint":
        return t.of_int(ht.RealType)(build(tr[1]))
    if h in ("plus", "minus", "times"):
        T = K.T[tr[1]]
        return t.Const(h, ht.TFun(T, T, T))(build(tr[2]), build(tr[3]))
    if h == "uminus":
        T = K.T[tr[1]]
        return t.Const("uminus", ht.TFun(T, T))(build(tr[2]))
    if h == "divide":
        return t.divides(ht.RealType)(build(tr[1]), build(tr[2]))
    if h == "inverse":
        return t.Const("real_inverse", ht.TFun(ht.RealType, ht.RealType))(build(tr[1]))
    if h == "power":
        T = K.T[tr[1]]
        b = build(tr[3])
        try:
            E = b.get_type()
        except Exception:  # noqa
            E = ht.NatType
        return t.Const("power", ht.TFun(T, E, T))(build(tr[2]), b)
    if h in ("eq", "lt", "le", "gt", "ge"):
        T = K.T[tr[1]]
        nm = {"eq": "equals", "lt": "less", "le": "less_eq", "gt": "greater", "ge": "greater_eq"}[h]
        return t.Const(nm, ht.TFun(T, T, ht.BoolType))(build(tr[2]), build(tr[3]))
    if h == "neg":
        return t.neg(build(tr[1]))
    if h == "var":
        return t.Var(tr[1], K.T[tr[2]])
    if h == "fn":
        return t.Const(tr[1], ht.TFun(ht.RealType, ht.RealType))(build(tr[2]))
    if h == "pi":
        return t.Const("pi", ht.RealType)
    if h == "lit":
        return build(expand_lit(tr[1], Fraction(int(tr[2]), int(tr[3]))))
    if h == "forged":
        tm = t.Const(tr[1], ht.TFun(*([K.T[x] for x in tr[2]] + [K.T[tr[3]]])))
        for a in tr[4:]:
            tm = tm(build(a))
        return tm
    raise ValueError("build: %r" % (tr,))


def ty_tag(T):
    ht = K.htype
    if T == ht.NatType:
        return "nat"
    if T == ht.IntType:
        return "int"
    if T == ht.RealType:
        return "real"
    if T == ht.BoolType:
        return "bool"
    return "other"


def strip(t):
    """head and argument list, reading the fields directly."""
    args = []
    while t.ty == K.term.Term.COMB:
        args.append(t.arg)
        t = t.fun
    return t, args[::-1]


def to_wire(t, atoms):
    """kernel Term -> wire s-expression (nested lists).  Anything that is not one of the shapes the
    evaluators dispatch on becomes an atom (type, index among the distinct atoms, contains a Var)."""
    Term, ht = K.term.Term, K.htype
    head, args = strip(t)
    n = len(args)
    if head.ty == Term.CONST:
        nm, HT = head.name, head.T
        N, I, R, B = ht.NatType, ht.IntType, ht.RealType, ht.BoolType

        def poly(k, res_bool=False):
            """HT is X => ... => X (k arguments) [=> bool]; returns X or None."""
            try:
                doms = []
                cur = HT
                for _ in range(k):
                    doms.append(cur.domain_type())
                    cur = cur.range_type()
                if any(d != doms[0] for d in doms):
                    return None
                if res_bool:
                    return doms[0] if cur == B else None
                return doms[0] if cur == doms[0] else None
            except Exception:  # noqa
                return None
        if n == 0 and nm in ("zero", "one"):
            return [nm, ty_tag(HT)]
        if n == 0 and nm == "true" and HT == B:
            return "tru"
        if n == 0 and nm == "false" and HT == B:
            return "fls"
        if n == 1 and nm in ("bit0", "bit1") and HT == ht.TFun(N, N):
            return [nm, to_wire(args[0], atoms)]
        if n == 1 and nm == "Suc" and HT == ht.TFun(N, N):
            return ["suc", to_wire(args[0], atoms)]
        if n == 1 and nm == "of_nat" and HT.is_fun() and HT.domain_type() == N:
            return ["ofnat", ty_tag(HT.range_type()), to_wire(args[0], atoms)]
        if n == 1 and nm == "of_int" and HT == ht.TFun(I, R):
            return ["ofint", to_wire(args[0], atoms)]
        if n == 2 and nm in ("plus", "minus", "times") and poly(2) is not None:
            return [nm, ty_tag(poly(2)), to_wire(args[0], atoms), to_wire(args[1], atoms)]
        if n == 1 and nm == "uminus" and poly(1) is not None:
            return ["uminus", ty_tag(poly(1)), to_wire(args[0], atoms)]
        if n == 2 and nm == "real_divide" and HT == ht.TFun(R, R, R):
            return ["divide", to_wire(args[0], atoms), to_wire(args[1], atoms)]
        if n == 1 and nm == "real_inverse" and HT == ht.TFun(R, R):
            return ["inverse", to_wire(args[0], atoms)]
        if n == 2 and nm == "power" and HT.is_fun() and HT.range_type().is_fun() and HT.range_type().range_type() == HT.domain_type():
            return ["power", ty_tag(HT.domain_type()), to_wire(args[0], atoms), to_wire(args[1], atoms)]
        if n == 2 and nm in ("equals", "less", "less_eq", "greater", "greater_eq") and poly(2, True) is not None:
            w = {"equals": "eq", "less": "lt", "less_eq": "le", "greater": "gt", "greater_eq": "ge"}[nm]
            return [w, ty_tag(poly(2, True)), to_wire(args[0], atoms), to_wire(args[1], atoms)]
        if n == 1 and nm == "neg" and HT == ht.TFun(B, B):
            return ["neg", to_wire(args[0], atoms)]
        if n == 1 and nm in WIRE_FNS and HT == ht.TFun(R, R):
            return ["fn", nm, to_wire(args[0], atoms)]
        if n == 0 and nm == "pi" and HT == R:
            return "pi"
    try:
        T = ty_tag(t.get_type())
    except Exception:  # noqa
        T = "other"
    if t not in atoms:
        atoms[t] = len(atoms)
    return ["atom", T, atoms[t], len(t.get_vars()) > 0]


def safe_str(x):
    """str() of a term/theorem; holpy's printer hashes subterms recursively and CPython's C recursion
    limit is hit on numerals of several hundred bits."""
    try:
        return str(x)
    except RecursionError:
        return "<term too deep to print>"
    except Exception as e:  # noqa  (the printer consults the current theory)
        return "<unprintable: %s>" % type(e).__name__


def wire_str(w):
    return sexp.dumps(w)


# ---------------------------------------------------------------------------------------------
# 3. independent typed semantics (the property oracle)
# ---------------------------------------------------------------------------------------------
MP_DPS = 200
_mp = None


def mp():
    global _mp
    if _mp is None:
        import mpmath
        _mp = mpmath.mp.clone()
        _mp.dps = MP_DPS
    return _mp


class NoMeaning(Exception):
    """The term has no standard meaning (operator at a non-numeric/unspecified type, log of a
    non-positive number, ...)."""


class OracleGap(NoMeaning):
    """The harness has no semantics for this (numeric) constant of the theory."""


def is_exact(x):
    return isinstance(x, (int, Fraction))


def to_mpf(x):
    m = mp()
    if isinstance(x, Fraction):
        return m.mpf(x.numerator) / m.mpf(x.denominator)
    if isinstance(x, int):
        return m.mpf(x)
    return x


def hol_rpow(x, y):
    """Real power as defined in library/transcendentals.json (`power :: real => real => real`)."""
    m = mp()
    if is_exact(x) and is_exact(y) and Fraction(y).denominator == 1:
        p = int(Fraction(y))
        x = Fraction(x)
        if p >= 0:
            return x ** p
        return Fraction(0) if x == 0 else 1 / (x ** (-p))
    sx = (x > 0) - (x < 0) if is_exact(x) else (1 if x > 0 else (-1 if x < 0 else 0))
    if sx > 0:
        return m.exp(to_mpf(y) * m.log(to_mpf(x)))
    if sx == 0:
        yz = (y == 0) if is_exact(y) else abs(y) < m.mpf(10) ** (-150)
        return 1 if yz else 0
    # x < 0
    mag = m.exp(to_mpf(y) * m.log(-to_mpf(x)))
    if is_exact(y):
        ay = abs(Fraction(y))
        odd_odd = ay.numerator % 2 == 1 and ay.denominator % 2 == 1
        return -mag if odd_odd else mag
    raise NoMeaning("negative base with an exponent not known exactly")


def sem(t, env=None):
    """Typed denotation of a kernel Term: ('n',int) ('i',int) ('q',Fraction|mpf) ('b',bool).
    Raises NoMeaning.  Written against term names and *checked* types only (independent of the model)."""
    try:
        t.checked_get_type()          # the whole term is type-correct; below, get_type() is then exact
    except Exception:  # noqa
        raise NoMeaning("ill-typed")
    return _sem(t, env)


def _sem(t, env):
    """In atom mode (env["__atoms__"] is a dict) a numeric subterm without standard meaning is an
    opaque atom: it gets an arbitrary value, the same at every occurrence (for steps such as real_norm
    that legitimately treat unknown subterms as indeterminates)."""
    try:
        return _sem0(t, env)
    except NoMeaning:
        if env is None or env.get("__atoms__") is None:
            raise
        ht = K.htype
        kind = {ht.NatType: "n", ht.IntType: "i", ht.RealType: "q"}.get(t.get_type())
        if kind is None:
            raise
        atoms = env["__atoms__"]
        if t not in atoms:
            r = env["__rng__"]
            atoms[t] = r.randint(0, 9) if kind == "n" else (r.randint(-9, 9) if kind == "i" else Fraction(r.randint(-30, 30), r.choice([1, 2, 3, 7])))
        return (kind, atoms[t])


def _sem0(t, env):
    ht, m = K.htype, mp()
    N, I, R, B = ht.NatType, ht.IntType, ht.RealType, ht.BoolType
    T = t.get_type()
    head, args = strip(t)
    nm = head.name if head.ty in (K.term.Term.CONST, K.term.Term.VAR) else None
    if head.ty == K.term.Term.VAR and not args:
        if env is None or nm not in env:
            raise NoMeaning("free variable")
        v = env[nm]
        return {N: ("n", v), I: ("i", v), R: ("q", Fraction(v))}.get(T) or _nomeaning("variable type")
    if head.ty != K.term.Term.CONST:
        raise NoMeaning("not a constant application")
    k = len(args)
    kind = {N: "n", I: "i", R: "q"}.get(T)

    def num(i, want):
        kd, v = _sem(args[i], env)
        if kd != want:
            raise NoMeaning("operand kind")
        return v
    if nm in ("zero", "one") and k == 0:
        if kind is None:
            raise NoMeaning("numeral at a non-numeric type")
        return (kind, Fraction(int(nm == "one")) if kind == "q" else int(nm == "one"))
    if nm in ("bit0", "bit1") and k == 1:
        bits, cur = [], t                       # iterative: numerals are deep
        while True:
            h2, a2 = strip(cur)
            if h2.ty == K.term.Term.CONST and h2.name in ("bit0", "bit1") and len(a2) == 1:
                bits.append(h2.name == "bit1")
                cur = a2[0]
            else:
                break
        kd, v = _sem(cur, env)
        if kd != "n":
            raise NoMeaning("operand kind")
        for b in reversed(bits):
            v = 2 * v + b
        return ("n", v)
    if nm == "Suc" and k == 1:
        return ("n", num(0, "n") + 1)
    if nm == "of_nat" and k == 1:
        if kind is None:
            raise NoMeaning("of_nat into a non-numeric type")
        v = num(0, "n")
        return (kind, Fraction(v) if kind == "q" else v)
    if nm == "of_int" and k == 1 and T == R:
        return ("q", Fraction(num(0, "i")))
    if nm in ("plus", "minus", "times") and k == 2:
        if kind is None:
            raise NoMeaning("%s at a non-numeric type" % nm)
        a, b = num(0, kind), num(1, kind)
        if not (is_exact(a) and is_exact(b)):
            a, b = to_mpf(a), to_mpf(b)
        if nm == "plus":
            return (kind, a + b)
        if nm == "times":
            return (kind, a * b)
        if kind == "n":
            return ("n", a - b if a >= b else 0)
        return (kind, a - b)
    if nm == "uminus" and k == 1:
        if kind not in ("i", "q"):
            raise NoMeaning("uminus at type %s" % T)
        return (kind, -num(0, kind))
    if nm == "real_divide" and k == 2 and T == R:
        a, b = num(0, "q"), num(1, "q")
        if is_exact(b):
            if b == 0:
                return ("q", Fraction(0))
            if is_exact(a):
                return ("q", Fraction(a) / Fraction(b))
        elif abs(b) < m.mpf(10) ** (-150):
            raise NoMeaning("divisor numerically indistinguishable from 0")
        return ("q", to_mpf(a) / to_mpf(b))
    if nm == "real_inverse" and k == 1 and T == R:
        a = num(0, "q")
        if is_exact(a):
            return ("q", Fraction(0) if a == 0 else 1 / Fraction(a))
        if abs(a) < m.mpf(10) ** (-150):
            raise NoMeaning("inverse of something numerically indistinguishable from 0")
        return ("q", 1 / a)
    if nm == "power" and k == 2:
        if kind is None:
            raise NoMeaning("power at a non-numeric type")
        base = num(0, kind)
        ek, e = _sem(args[1], env)
        if ek == "n":
            if e > 100000:
                raise NoMeaning("exponent too large for the oracle")
            return (kind, base ** e if is_exact(base) else to_mpf(base) ** e)
        if ek == "q" and kind == "q":
            return ("q", hol_rpow(base, e))
        raise NoMeaning("power with exponent kind %s at %s" % (ek, kind))
    if nm == "abs" and k == 1 and kind in ("n", "i", "q"):
        return (kind, abs(num(0, kind)))
    if nm == "id_fun" and k == 1 and kind is not None:
        return (kind, num(0, kind))
    if nm in ("max", "min") and k == 2 and kind is not None:
        a, b = num(0, kind), num(1, kind)
        try:
            a_le_b = compare("less_eq", a, b)
        except Undecided:
            a_le_b = True                      # indistinguishable: either one
        return (kind, (b if a_le_b else a) if nm == "max" else (a if a_le_b else b))
    if nm == "Pre" and k == 1 and T == N:
        return ("n", max(num(0, "n") - 1, 0))
    if nm == "fact" and k == 1 and T == N:
        a = num(0, "n")
        if a > 2000:
            raise NoMeaning("factorial too large for the oracle")
        import math
        return ("n", math.factorial(a))
    if nm in ("nat_divide", "nat_modulus") and k == 2 and T == N:
        a, b = num(0, "n"), num(1, "n")
        if b == 0:
            raise NoMeaning("%s by 0 is not specified" % nm)
        return ("n", a // b if nm == "nat_divide" else a % b)
    if nm in ("floor", "frac", "real_sgn", "acs", "asn") and k == 1 and T == R and head.T == ht.TFun(R, R):
        a = num(0, "q")
        if nm == "real_sgn":
            if is_exact(a):
                return ("q", Fraction((a > 0) - (a < 0)))
            if abs(a) < m.mpf(10) ** (-150):
                raise Undecided()
            return ("q", Fraction(1 if a > 0 else -1))
        if nm in ("floor", "frac"):
            if is_exact(a):
                a = Fraction(a)
                fl = a.numerator // a.denominator
                return ("q", Fraction(fl) if nm == "floor" else a - fl)
            fl = m.floor(a)
            if abs(a - m.nint(a)) < m.mpf(10) ** (-150):
                raise Undecided()
            return ("q", Fraction(int(fl)) if nm == "floor" else a - fl)
        x = to_mpf(a)
        if x < -1 or x > 1:
            raise NoMeaning("%s outside [-1, 1]" % nm)
        if is_exact(a) and a == 0 and nm == "asn":
            return ("q", Fraction(0))
        if is_exact(a) and a == 1 and nm == "acs":
            return ("q", Fraction(0))
        return ("q", m.acos(x) if nm == "acs" else m.asin(x))
    if nm == "root" and k == 2 and T == R:
        n_ = num(0, "n")
        a = num(1, "q")
        if is_exact(a) and a == 0:
            return ("q", Fraction(0))
        if n_ == 0:
            raise NoMeaning("root 0")
        x = to_mpf(a)
        if abs(x) < m.mpf(10) ** (-150):
            raise Undecided()
        if is_exact(a) and n_ == 1:
            return ("q", Fraction(a))
        sg = 1 if x > 0 else -1
        return ("q", sg * m.exp(m.log(abs(x)) / n_))
    if T == R and k == 0 and nm == "pi":
        return ("q", +m.pi)
    if T == R and k == 1 and nm in ("sqrt", "exp", "log", "sin", "cos", "tan", "cot", "sec", "csc", "atn") and head.T == ht.TFun(R, R):
        a = num(0, "q")
        if nm == "sqrt":
            if is_exact(a):
                a = Fraction(a)
                s = -1 if a < 0 else 1
                a = abs(a)
                import math
                rn, rd = math.isqrt(a.numerator), math.isqrt(a.denominator)
                if rn * rn == a.numerator and rd * rd == a.denominator:
                    return ("q", s * Fraction(rn, rd))
                return ("q", s * m.sqrt(to_mpf(a)))
            return ("q", m.sqrt(a) if a >= 0 else -m.sqrt(-a))
        x = to_mpf(a)
        if nm == "exp":
            return ("q", Fraction(1) if is_exact(a) and a == 0 else m.exp(x))
        if nm == "log":
            if x <= 0:
                raise NoMeaning("log of a non-positive number")
            return ("q", Fraction(0) if is_exact(a) and a == 1 else m.log(x))
        if nm == "sin":
            return ("q", Fraction(0) if is_exact(a) and a == 0 else m.sin(x))
        if nm == "cos":
            return ("q", Fraction(1) if is_exact(a) and a == 0 else m.cos(x))
        if nm in ("tan", "cot", "sec", "csc"):
            # library/transcendentals.json: tan = sin/cos, cot = cos/sin, sec = 1/cos, csc = 1/sin (x / 0 = 0)
            num, den = {"tan": (m.sin(x), m.cos(x)), "cot": (m.cos(x), m.sin(x)), "sec": (m.mpf(1), m.cos(x)), "csc": (m.mpf(1), m.sin(x))}[nm]
            if is_exact(a) and a == 0 and nm in ("cot", "csc"):
                return ("q", Fraction(0))
            if abs(den) < m.mpf(10) ** (-150):
                raise NoMeaning("%s at a pole (the divisor is numerically indistinguishable from 0)" % nm)
            return ("q", num / den)
        if nm == "atn":
            return ("q", m.atan(x))
    if nm == "true" and k == 0:
        return ("b", True)
    if nm == "false" and k == 0:
        return ("b", False)
    if nm == "neg" and k == 1:
        return ("b", not num(0, "b"))
    if nm in ("equals", "less", "less_eq", "greater", "greater_eq") and k == 2 and T == B:
        ka, a = _sem(args[0], env)
        kb, b = _sem(args[1], env)
        if ka != kb:
            raise NoMeaning("sides of different kinds")
        if nm == "equals" and ka == "b":
            return ("b", a == b)
        if ka == "b":
            raise NoMeaning("order on bool")
        try:
            return ("b", compare(nm, a, b))
        except Undecided:
            # the two sides agree to 160 digits: ask sympy whether they are equal (supporting only)
            if env is None and symbolically_equal(args[0], args[1]):
                return ("b", nm in ("equals", "less_eq", "greater_eq"))
            raise
    if kind is not None and k >= 1:
        raise OracleGap("the oracle has no semantics for %s/%d" % (nm, k))
    raise NoMeaning("no standard meaning for %s/%d" % (nm, k))


def _nomeaning(msg):
    raise NoMeaning(msg)


class Undecided(Exception):
    """mpmath cannot separate the two sides at 200 digits (supporting oracle only)."""


def to_sympy(t):
    """Variable-free real term -> sympy expression, with the HOL conventions; ValueError if unsupported."""
    import sympy as sp
    head, args = strip(t)
    if head.ty != K.term.Term.CONST:
        raise ValueError
    nm, k = head.name, len(args)
    if nm in ("zero", "one") and k == 0:
        return sp.Integer(int(nm == "one"))
    if nm in ("of_nat", "of_int") and k == 1:
        kd, v = sem(args[0])
        if kd not in ("n", "i"):
            raise ValueError
        return sp.Integer(v)
    if nm in ("plus", "minus", "times") and k == 2:
        a, b = to_sympy(args[0]), to_sympy(args[1])
        return a + b if nm == "plus" else (a - b if nm == "minus" else a * b)
    if nm == "uminus" and k == 1:
        return -to_sympy(args[0])
    if nm == "real_divide" and k == 2:
        b = to_sympy(args[1])
        if b.is_zero is not False:
            if b.is_zero:
                return sp.Integer(0)
            raise ValueError
        return to_sympy(args[0]) / b
    if nm == "real_inverse" and k == 1:
        b = to_sympy(args[0])
        if b.is_zero is not False:
            raise ValueError
        return 1 / b
    if nm == "power" and k == 2:
        base = to_sympy(args[0])
        if args[1].get_type() == K.htype.NatType:
            kd, v = sem(args[1])
            return base ** sp.Integer(v)
        e = to_sympy(args[1])
        if base.is_positive:
            return base ** e
        raise ValueError
    if nm == "pi" and k == 0:
        return sp.pi
    if k == 1 and nm in ("cot", "sec", "csc"):
        a = to_sympy(args[0])
        d = sp.sin(a) if nm in ("cot", "csc") else sp.cos(a)
        if sp.simplify(d).is_zero is not False:
            raise ValueError
        return (sp.cos(a) if nm == "cot" else sp.Integer(1)) / d
    if k == 1 and nm in ("sqrt", "exp", "log", "sin", "cos", "tan", "atn", "abs"):
        a = to_sympy(args[0])
        if nm == "sqrt":
            if a.is_nonnegative:
                return sp.sqrt(a)
            raise ValueError
        if nm == "log":
            if a.is_positive:
                return sp.log(a)
            raise ValueError
        return {"exp": sp.exp, "sin": sp.sin, "cos": sp.cos, "tan": sp.tan, "atn": sp.atan, "abs": sp.Abs}[nm](a)
    raise ValueError


def symbolically_equal(t1, t2):
    try:
        import sympy as sp
        with time_limit(15):
            d = to_sympy(t1) - to_sympy(t2)
            return bool(sp.simplify(d) == 0 or sp.simplify(sp.expand(d)) == 0)
    except Timeout:
        return False
    except Exception:  # noqa
        return False


def compare(nm, a, b):
    if is_exact(a) and is_exact(b):
        d = Fraction(a) - Fraction(b)
        sgn = (d > 0) - (d < 0)
    else:
        m = mp()
        d = to_mpf(a) - to_mpf(b)
        scale = max(1, abs(to_mpf(a)), abs(to_mpf(b)))
        if abs(d) < scale * m.mpf(10) ** (-(MP_DPS - 40)):
            raise Undecided()
        sgn = 1 if d > 0 else -1
    return {"equals": sgn == 0, "less": sgn < 0, "less_eq": sgn <= 0, "greater": sgn > 0, "greater_eq": sgn >= 0}[nm]


# ---------------------------------------------------------------------------------------------
# 4. the steps under test
# ---------------------------------------------------------------------------------------------
MODELLED = ["nat_eval", "int_eval", "int_const_ineq", "real_eval", "real_const_eq", "real_compare",
            "real_const_ineq", "const_inequality", "real_norm"]
ORACLE_ONLY = ["real_eq_comparison"]
ATOM_MODE = ["real_norm", "real_eq_comparison"]      # steps that legitimately treat unknown subterms as indeterminates
WIRE_FNS = ("sqrt", "sin", "cos", "tan", "cot", "sec", "csc", "log", "exp", "abs", "atn")
BRIDGES = ["z3", "sympy", "simplex_macro", "integer_simplex", "verit_imp_conj"]     # C06 / C16 / C18

# which type the compared terms must have for the step to be *meant* for the goal
INTENDED = {"nat_eval": ("nat",), "int_eval": ("int",), "int_const_ineq": ("int",), "real_eval": ("real",),
            "real_const_eq": ("real",), "real_compare": ("real",), "real_const_ineq": ("real",),
            "const_inequality": ("nat", "real"), "real_norm": ("real",), "real_eq_comparison": ("real",)}


def run_check(macro, goal, limit=20):
    """One-step proof through the real checker at the default check level."""
    prf = K.Proof()
    prf.items.append(K.ProofItem(0, macro, args=goal))
    try:
        with time_limit(limit):
            th = K.theory.check_proof(prf)
    except Timeout:
        return ("timeout",)
    except Exception as e:  # noqa
        return ("rej", type(e).__name__)
    return ("ok", th)


def side_type(stmt):
    """Type tag of the compared terms of (possibly negated / `⟷ true|false`) comparison, or None."""
    t = stmt
    for _ in range(3):
        head, args = strip(t)
        if head.ty != K.term.Term.CONST:
            return None
        if head.name == "neg" and len(args) == 1:
            t = args[0]
            continue
        if head.name == "equals" and len(args) == 2 and strip(args[1])[0].ty == K.term.Term.CONST and \
                strip(args[1])[0].name in ("true", "false") and not strip(args[1])[1]:
            t = args[0]
            continue
        if head.name in ("equals", "less", "less_eq", "greater", "greater_eq") and len(args) == 2:
            try:
                return ty_tag(args[0].checked_get_type())
            except Exception:  # noqa
                return None
        return None
    return None


def inner_sides_type(stmt):
    """For real_eq_comparison: `(a OP b) ⟷ (c OP d)`; type of a."""
    head, args = strip(stmt)
    if head.ty == K.term.Term.CONST and head.name == "equals" and len(args) == 2:
        return side_type(args[0])
    return None


def judge(ctx, macro, tree, goal, th, envs=None, extra=None):
    """Property oracle on one accepted step.  Returns a histogram label."""
    rp = {"macro": macro, "goal": tree}
    rp.update(extra or {})

    def violation(key, what):
        rp["asserted"] = safe_str(th)        # printing is slow: only when something is reported
        ctx.violation(key, what, rp)
    key_goal = short_key(tree)
    if len(th.hyps) != 0:
        violation("hyps:%s:%s" % (macro, key_goal), "%s returned a sequent with hypotheses: %s" % (macro, safe_str(th)))
        return "viol"
    stmt = th.prop
    # (a) shape and type the step is meant for
    st = inner_sides_type(stmt) if macro == "real_eq_comparison" else side_type(stmt)
    if st not in INTENDED[macro]:
        violation("wrong-type:%s:%s" % (macro, st), "%s accepted a goal about terms of type %s: |- %s" % (macro, st, safe_str(stmt)))
        return "viol"
    # (b) truth
    vars_ = stmt.get_vars()
    atom_mode = macro in ATOM_MODE
    try:
        if not vars_ and not atom_mode:
            v = sem(stmt)
            ok = (v == ("b", True))
        else:
            ok = True
            import random
            for i, env0 in enumerate(envs or [{}]):
                env = dict(env0)
                if atom_mode:
                    env["__atoms__"] = {}
                    env["__rng__"] = random.Random(i)
                try:
                    v = sem(stmt, env)
                except NoMeaning:
                    if not atom_mode and not vars_:
                        raise
                    continue
                if v != ("b", True):
                    ok = False
                    rp["valuation"] = {k: str(x) for k, x in env.items() if not k.startswith("__")}
                    rp["atoms"] = {str(k): str(x) for k, x in env.get("__atoms__", {}).items()}
                    break
    except NoMeaning as e:
        violation("no-meaning:%s:%s" % (macro, key_goal), "%s asserted a statement with no standard meaning (%s): |- %s" % (macro, e, safe_str(stmt)))
        return "viol"
    except Undecided:
        # equal to 160 digits: accept only non-strict / equality statements as plausibly true
        ctx.count("oracle:undecided-at-%d-digits" % MP_DPS)
        return "undecided"
    if not ok:
        violation("false:%s:%s" % (macro, key_goal), "%s asserted a false statement: |- %s" % (macro, safe_str(stmt)))
        return "viol"
    return "true"


# ---------------------------------------------------------------------------------------------
# 5. generators
# ---------------------------------------------------------------------------------------------
def binary(n):
    bits = []
    while n > 1:
        bits.append("bit0" if n % 2 == 0 else "bit1")
        n //= 2
    tr = ["zero", "nat"] if n == 0 else ["one", "nat"]
    for b in reversed(bits):
        tr = [b, tr]
    return tr


def expand_lit(T, x):
    """canonical numeral, as kernel.term.Number builds it"""
    x = Fraction(x)
    if x == 0:
        return ["zero", T]
    if x == 1:
        return ["one", T]
    if x < 0:
        return ["uminus", T, expand_lit(T, -x)]
    if x.denominator != 1:
        return ["divide", expand_lit(T, x.numerator), expand_lit(T, x.denominator)]
    return ["ofnat", T, binary(x.numerator)]


def lit(T, x):
    x = Fraction(x)
    return ["lit", T, str(x.numerator), str(x.denominator)]


def short_key(tree):
    s = json.dumps(tree, separators=(",", ":"))
    if len(s) > 400:
        import hashlib
        s = s[:360] + "...#" + hashlib.sha1(s.encode()).hexdigest()[:12]
    return s


SMALL = [False]      # exponents are generated with small literals only (x ** 10**30 never returns)


def rand_nat(rng):
    if SMALL[0]:
        return rng.randint(0, 5)
    r = rng.random()
    if r < 0.45:
        return rng.randint(0, 6)
    if r < 0.8:
        return rng.randint(0, 60)
    if r < 0.9:
        return rng.randint(10 ** 3, 10 ** 6)
    return 10 ** rng.randint(18, 40) + rng.randint(-3, 3)


def rand_lit(rng, T):
    n = rand_nat(rng)
    r = rng.random()
    if T == "nat":
        if r < 0.06:                                   # non-canonical binary: bit0 zero, of_nat one ...
            return ["ofnat", "nat", rng.choice([["bit0", ["zero", "nat"]], ["one", "nat"], ["zero", "nat"], ["bit1", ["zero", "nat"]], ["bit0", ["bit0", ["zero", "nat"]]]])]
        if r < 0.10:
            return ["uminus", "nat", lit("nat", max(n, 1) % 9 + 1)]      # -(k::nat): a "number" by name
        return lit("nat", n)
    if T == "int":
        if r < 0.35:
            return lit("int", -n)
        return lit("int", n)
    if T == "real":
        if r < 0.25:
            return lit("real", -n if rng.random() < 0.5 else n)
        if r < 0.6:
            d = rng.choice([2, 3, 4, 5, 7, 10, 100, 10 ** 20 + 1, rand_nat(rng) + 1])
            f = Fraction(rng.randint(-40, 40) if rng.random() < 0.8 else rand_nat(rng), d)
            return lit("real", f)
        if r < 0.72:                                   # non-normal fractions, incl. zero and unit denominators
            a, b = rng.randint(0, 12), rng.choice([0, 0, 1, 1, 2, 4, 6])
            return ["divide", lit("real", a), lit("real", b)]
        if r < 0.76:
            return ["uminus", "real", ["zero", "real"]]
        return lit("real", n)
    # bool / other: numerals by name at a type where they mean nothing
    return rng.choice([["zero", T], ["one", T], ["ofnat", T, binary(n % 50)]])


def gen_exponent(rng, T, depth):
    old = SMALL[0]
    SMALL[0] = True
    try:
        return gen_expr(rng, T, depth)
    finally:
        SMALL[0] = old


def gen_expr(rng, T, depth, irr=False, vars_=None):
    """Expression of type T.  irr: allow sqrt/pi/exp/log/sin/cos (real only).  vars_: variable names."""
    if depth <= 0 or rng.random() < 0.22:
        if vars_ and T == "real" and rng.random() < 0.6:
            return ["var", rng.choice(vars_), "real"]
        if irr and T == "real" and rng.random() < 0.35:
            r = rng.random()
            if r < 0.3:
                return ["pi"]
            return ["fn", rng.choice(["sqrt", "sqrt", "exp", "log", "sin", "cos", "atn"]), lit("real", rng.choice([2, 3, 5, 1, Fraction(1, 2), 10, 4]))]
        return rand_lit(rng, T)
    d = depth - 1
    r = rng.random()
    sub = lambda TT=T: gen_expr(rng, TT, d, irr, vars_)          # noqa
    if T == "nat":
        ops = ["plus", "plus", "minus", "minus", "minus", "times", "suc", "ofnat", "power", "uminus"]
        op = rng.choice(ops)
        if op == "suc":
            return ["suc", sub()]
        if op == "ofnat":
            return ["ofnat", "nat", sub()]
        if op == "power":
            return ["power", "nat", gen_expr(rng, "nat", 0), lit("nat", rng.randint(0, 4))]
        if op == "uminus":
            return ["uminus", "nat", sub()] if r < 0.3 else ["minus", "nat", sub(), sub()]
        return [op, "nat", sub(), sub()]
    if T == "int":
        op = rng.choice(["plus", "plus", "minus", "minus", "times", "uminus", "ofnat", "power"])
        if op == "uminus":
            return ["uminus", "int", sub()]
        if op == "ofnat":
            return ["ofnat", "int", gen_expr(rng, "nat", d)]
        if op == "power":
            return ["power", "int", gen_expr(rng, "int", 0), lit("nat", rng.randint(0, 4))]
        return [op, "int", sub(), sub()]
    if T == "real":
        op = rng.choice(["plus", "plus", "minus", "minus", "times", "times", "uminus", "divide", "divide", "inverse",
                         "ofnat", "ofint", "npow", "rpow", "rpow"] + (["fn", "fn"] if irr else []))
        if op == "uminus":
            return ["uminus", "real", sub()]
        if op == "divide":
            return ["divide", sub(), sub() if r < 0.75 else ["minus", "real", lit("real", 2), lit("real", 2)]]
        if op == "inverse":
            return ["inverse", sub()]
        if op == "ofnat":
            return ["ofnat", "real", gen_expr(rng, "nat", d)]
        if op == "ofint":
            return ["ofint", gen_expr(rng, "int", d)]
        if op == "npow":
            return ["power", "real", sub(), gen_exponent(rng, "nat", min(d, 1)) if r < 0.3 else lit("nat", rng.randint(0, 5))]
        if op == "rpow":
            rr = rng.random()
            if rr < 0.35:
                e = lit("real", rng.randint(-4, 5))
            elif rr < 0.55:
                e = lit("real", Fraction(rng.randint(-5, 5), rng.choice([2, 3, 4])))
            elif rr < 0.7:                              # integer valued but computed: 1/2 + 1/2, 6/3
                e = rng.choice([["plus", "real", lit("real", Fraction(1, 2)), lit("real", Fraction(1, 2))],
                                ["divide", lit("real", 6), lit("real", 3)], ["times", "real", lit("real", Fraction(1, 2)), lit("real", 4)],
                                ["minus", "real", lit("real", 1), lit("real", 3)]])
            else:
                e = gen_exponent(rng, "real", min(d, 1))
            base = sub() if rng.random() < 0.6 else lit("real", rng.choice([-8, -2, -1, 0, 1, 2, Fraction(-1, 2), Fraction(4, 9)]))
            return ["power", "real", base, e]
        if op == "fn":
            return ["fn", rng.choice(["sqrt", "exp", "log", "sin", "cos", "tan", "cot", "sec", "csc", "atn", "abs"]), sub()]
        return [op, "real", sub(), sub()]
    # bool / other: the overloaded constants at a type where they have no meaning
    op = rng.choice(["plus", "minus", "times", "uminus"])
    if op == "uminus":
        return ["uminus", T, sub()]
    return [op, T, sub(), sub()]


CMPS = ["lt", "le", "gt", "ge"]


def value_of(tree, mode):
    """Value of a tree under a *chosen* reading (used only to aim right-hand sides): 'typed' = the
    standard meaning, 'int' = every minus exact / names only.  Returns Fraction or None."""
    try:
        t = build(tree)
        if mode == "typed":
            k, v = sem(t)
            v = Fraction(v) if is_exact(v) else None
        else:
            v = names_value(tree)
        if v is not None and (abs(v.numerator) > 10 ** 90 or v.denominator > 10 ** 90):
            return None
        return v
    except Exception:  # noqa
        return None


def names_value(tr):
    """Reads the operators by name over the rationals (what a type-blind evaluator computes)."""
    h = tr[0]
    if h == "lit":
        return Fraction(int(tr[2]), int(tr[3]))
    if h == "zero":
        return Fraction(0)
    if h == "one":
        return Fraction(1)
    if h in ("bit0", "bit1"):
        return 2 * names_value(tr[1]) + (h == "bit1")
    if h == "suc":
        return names_value(tr[1]) + 1
    if h == "ofnat":
        return names_value(tr[2])
    if h == "ofint":
        return names_value(tr[1])
    if h in ("plus", "minus", "times"):
        a, b = names_value(tr[2]), names_value(tr[3])
        return a + b if h == "plus" else (a - b if h == "minus" else a * b)
    if h == "uminus":
        return -names_value(tr[2])
    if h == "divide":
        b = names_value(tr[2])
        return Fraction(0) if b == 0 else names_value(tr[1]) / b
    if h == "inverse":
        b = names_value(tr[1])
        return Fraction(0) if b == 0 else 1 / b
    if h == "power":
        e = names_value(tr[3])
        if e.denominator != 1 or abs(e) > 64:
            raise ValueError
        b = names_value(tr[2])
        return b ** int(e) if e >= 0 else (Fraction(0) if b == 0 else 1 / b ** int(-e))
    raise ValueError


def digits_bound(tr):
    """Upper bound on the number of decimal digits of numerator/denominator of the value a type-blind
    evaluator computes for the tree (so that nobody is asked to compute a tower of powers)."""
    if not isinstance(tr, list):
        return 1
    h = tr[0]
    if h == "lit":
        return max(len(tr[2]), len(tr[3]))
    if h in ("zero", "one", "pi", "var"):
        return 1
    if h in ("bit0", "bit1", "suc"):
        return digits_bound(tr[1]) + 1
    if h in ("ofnat", "uminus"):
        return digits_bound(tr[2])
    if h in ("ofint", "inverse", "neg"):
        return digits_bound(tr[1])
    if h == "fn":
        b = digits_bound(tr[2])
        return 10 ** 9 if (tr[1] == "exp" and b > 2) else b + 2
    if h in ("plus", "minus"):
        return digits_bound(tr[2]) + digits_bound(tr[3]) + 1       # common denominator
    if h == "times":
        return digits_bound(tr[2]) + digits_bound(tr[3])
    if h == "divide":
        return digits_bound(tr[1]) + digits_bound(tr[2])
    if h == "power":
        e = digits_bound(tr[3])
        if e > 5:
            return 10 ** 9
        return digits_bound(tr[2]) * (10 ** e)
    if h in ("eq", "lt", "le", "gt", "ge"):
        return max(digits_bound(tr[2]), digits_bound(tr[3]))
    return 1


MAX_DIGITS = 30000


def gen_goal(rng, irr_ok=True):
    while True:
        g, flav = gen_goal0(rng, irr_ok)
        if digits_bound(g) <= MAX_DIGITS:
            return g, flav


def gen_sized_expr(rng, T, depth):
    while True:
        e = gen_expr(rng, T, depth)
        if digits_bound(e) <= MAX_DIGITS:
            return e


def gen_sized_expr_irr(rng, depth):
    while True:
        e = gen_expr(rng, "real", depth, True)
        if digits_bound(e) <= 2000:
            return e


def gen_goal0(rng, irr_ok=True):
    """(tree, flavour)"""
    T = rng.choice(["nat", "nat", "nat", "int", "int", "real", "real", "real", "real", "bool", "other"])
    irr = irr_ok and T == "real" and rng.random() < 0.3
    depth = rng.choice([1, 2, 2, 3, 3, 4])
    lhs = gen_expr(rng, T, depth, irr)
    r = rng.random()
    flav = "random-rhs"
    rhs = None
    if r < 0.3:
        v = value_of(lhs, "typed")
        if v is not None and (T != "nat" or (v >= 0 and v.denominator == 1)) and (T != "int" or v.denominator == 1) and T in ("nat", "int", "real"):
            rhs, flav = lit(T, v), "true-value"
    elif r < 0.5:
        v = value_of(lhs, "names")
        if v is not None and T in ("nat", "int", "real", "bool", "other"):
            try:
                if T in ("nat",) and (v < 0 or v.denominator != 1):
                    rhs = lit("nat", 0) if rng.random() < 0.7 else ["uminus", "nat", lit("nat", abs(v.numerator))]
                elif T == "int" and v.denominator != 1:
                    rhs = None
                elif T in ("bool", "other"):
                    rhs = rand_lit(rng, T)
                else:
                    rhs = lit(T, v)
                flav = "names-value"
            except Exception:  # noqa
                rhs = None
    elif r < 0.62:
        v = value_of(lhs, "typed")
        if v is not None and T in ("nat", "int", "real"):
            delta = rng.choice([1, -1, Fraction(1, 10 ** 30), Fraction(-1, 10 ** 30)]) if T == "real" else rng.choice([1, -1])
            w = v + delta
            if not (T == "nat" and w < 0):
                rhs, flav = lit(T, w), "near-value"
    if irr and rng.random() < 0.5:
        # two sides that are equal or differ by very little, and cannot be evaluated exactly
        k = rng.choice([0, 0, 1, -1])
        d = Fraction(k, 10 ** rng.choice([12, 20, 30, 45]))
        rr = rng.random()
        if rr < 0.35:
            rhs = ["plus", "real", lhs, lit("real", d)]
        elif rr < 0.6:
            rhs = ["plus", "real", ["times", "real", lit("real", 1), lhs], lit("real", d)]
        elif rr < 0.8:
            rhs = ["minus", "real", ["plus", "real", lhs, lit("real", 10 ** 30)], lit("real", 10 ** 30 - d)]
        else:
            rhs = ["plus", "real", ["times", "real", lit("real", 2), lhs], ["uminus", "real", ["minus", "real", lhs, lit("real", d)]]]
        flav = "near-equal-irrational"
    if rhs is None:
        rhs = gen_expr(rng, T, rng.choice([0, 0, 1, 2]), irr)
    rel = rng.choice(["eq", "eq", "eq"] + CMPS)
    g = [rel, T, lhs, rhs]
    rr = rng.random()
    if rr < 0.15:
        g = ["neg", g]
    elif rr < 0.18:
        g = ["eq", "bool", g, rng.choice(["tru", "fls"])]
    elif rr < 0.2:
        g = rng.choice([lhs, "tru", ["neg", ["neg", g]]])
    return g, flav


def directed_goals():
    """Hand-aimed cases (type confusion, zero divisors, negative bases, fractional/negative exponents,
    huge and near-equal constants); every trusted macro sees each of them."""
    N, I, R = "nat", "int", "real"
    big = 10 ** 30
    L = lit
    out = [
        ["eq", R, ["minus", R, L(R, 1), L(R, 2)], L(R, 0)],                                   # DESIGN §5
        ["eq", N, ["plus", N, ["minus", N, L(N, 1), L(N, 2)], L(N, 1)], L(N, 0)],
        ["eq", N, ["plus", N, ["minus", N, L(N, 1), L(N, 2)], L(N, 1)], L(N, 1)],
        ["lt", N, ["minus", N, L(N, 1), L(N, 2)], L(N, 0)],
        ["le", N, ["minus", N, L(N, 1), L(N, 2)], L(N, 0)],
        ["eq", N, ["plus", N, ["uminus", N, L(N, 1)], L(N, 2)], L(N, 1)],
        ["eq", N, ["uminus", N, L(N, 1)], ["uminus", N, L(N, 1)]],
        ["eq", I, ["minus", I, L(I, 1), L(I, 2)], L(I, -1)],
        ["eq", I, ["minus", I, L(I, 1), L(I, 2)], L(I, 0)],
        ["eq", R, ["minus", R, L(R, 1), L(R, 2)], L(R, -1)],
        ["eq", "other", ["plus", "other", ["one", "other"], ["one", "other"]], ["ofnat", "other", binary(2)]],
        ["eq", "bool", ["plus", "bool", ["one", "bool"], ["one", "bool"]], ["ofnat", "bool", binary(2)]],
        ["eq", R, ["divide", L(R, 1), L(R, 0)], L(R, 0)],
        ["eq", R, ["divide", L(R, 1), ["minus", R, L(R, 2), L(R, 2)]], L(R, 0)],
        ["eq", R, ["inverse", L(R, 0)], L(R, 0)],
        ["eq", R, ["plus", R, ["divide", L(R, 1), L(R, 0)], L(R, 1)], L(R, 1)],
        ["eq", R, ["power", R, L(R, -2), L(R, 3)], L(R, -8)],
        ["eq", R, ["power", R, L(R, -2), L(R, -3)], L(R, Fraction(-1, 8))],
        ["eq", R, ["power", R, L(R, -2), L(R, 2)], L(R, 4)],
        ["eq", R, ["power", R, L(R, 0), L(R, -1)], L(R, 0)],
        ["eq", R, ["power", R, L(R, 0), L(R, 0)], L(R, 1)],
        ["eq", R, ["power", R, L(R, 0), L(N, 0)], L(R, 1)],
        ["eq", R, ["power", R, L(R, 4), L(R, Fraction(1, 2))], L(R, 2)],
        ["eq", R, ["power", R, L(R, -8), L(R, Fraction(1, 3))], L(R, -2)],
        ["neg", ["eq", R, ["power", R, L(R, -8), L(R, Fraction(1, 3))], L(R, -2)]],
        ["eq", R, ["power", R, L(R, 2), ["plus", R, L(R, Fraction(1, 2)), L(R, Fraction(1, 2))]], L(R, 2)],
        ["eq", R, ["power", R, L(R, 2), L(R, Fraction(1, 2))], L(R, Fraction(6369051672525773, 4503599627370496))],
        ["eq", R, ["plus", R, L(R, big), L(R, 1)], L(R, big + 1)],
        ["lt", R, L(R, Fraction(big, big + 1)), L(R, Fraction(big + 1, big + 2))],
        ["lt", R, L(R, Fraction(big + 1, big + 2)), L(R, Fraction(big, big + 1))],
        ["eq", R, ["divide", L(R, big), L(R, big + 1)], ["divide", L(R, big + 1), L(R, big + 2)]],
        ["gt", R, ["fn", "sin", ["pi"]], L(R, 0)],
        ["neg", ["eq", R, ["fn", "sin", ["pi"]], L(R, 0)]],
        ["neg", ["eq", R, ["times", R, ["fn", "sqrt", L(R, 2)], ["fn", "sqrt", L(R, 2)]], L(R, 2)]],
        ["le", R, ["plus", R, ["plus", R, ["pi"], L(R, big)], L(R, 1)], ["plus", R, ["pi"], L(R, big)]],
        ["lt", R, ["minus", R, ["plus", R, ["pi"], L(R, big)], L(R, big)], L(R, 1)],
        ["ge", R, ["fn", "sqrt", L(R, 2)], L(R, 1)],
        ["lt", R, ["pi"], L(R, Fraction(22, 7))],
        ["gt", R, ["pi"], L(R, Fraction(22, 7))],
        ["eq", R, ["fn", "exp", L(R, 0)], L(R, 1)],
        ["lt", R, ["fn", "sqrt", L(R, -4)], L(R, 0)],
        ["eq", R, ["fn", "log", L(R, 1)], L(R, 0)],
        ["gt", N, L(N, 4), L(N, 2)],
        ["eq", R, ["ofnat", R, ["minus", N, L(N, 1), L(N, 2)]], L(R, 0)],
        ["eq", R, ["ofnat", R, ["minus", N, L(N, 1), L(N, 2)]], L(R, -1)],
        ["eq", R, ["ofint", ["minus", I, L(I, 1), L(I, 2)]], L(R, -1)],
        ["eq", R, ["ofnat", R, ["uminus", N, L(N, 1)]], L(R, -1)],
        ["eq", R, ["power", R, L(R, 2), ["minus", N, L(N, 1), L(N, 2)]], L(R, 1)],
        ["eq", R, ["power", R, L(R, 2), ["minus", N, L(N, 1), L(N, 2)]], L(R, Fraction(1, 2))],
        ["eq", I, ["power", I, L(I, -2), L(N, 3)], L(I, -8)],
        ["eq", "bool", ["lt", R, L(R, 1), L(R, 2)], ["lt", R, L(R, 2), L(R, 3)]],
        ["eq", "bool", ["lt", N, ["minus", N, L(N, 1), L(N, 2)], L(N, 0)], ["lt", N, L(N, 0), L(N, 1)]],
        ["eq", "bool", ["lt", R, ["var", "x", R], L(R, 1)], ["lt", R, ["plus", R, ["var", "x", R], L(R, 1)], L(R, 2)]],
        ["eq", "bool", ["lt", R, ["var", "x", R], L(R, 1)], ["lt", R, ["plus", R, ["var", "x", R], L(R, 1)], L(R, 3)]],
    ]
    # dropped side conditions in the polynomial normaliser (only visible at special valuations)
    n, x, y = ["var", "n", N], ["var", "x", R], ["var", "y", R]
    out += [
        ["eq", R, ["plus", R, ["ofnat", R, ["minus", N, n, L(N, 1)]], L(R, 1)], ["ofnat", R, n]],
        ["eq", R, ["ofnat", R, ["minus", N, ["plus", N, n, L(N, 1)], L(N, 1)]], ["ofnat", R, n]],
        ["eq", R, ["divide", x, x], L(R, 1)],
        ["eq", R, ["times", R, ["divide", x, x], y], y],
        ["eq", R, ["times", R, x, ["inverse", x]], L(R, 1)],
        ["eq", R, ["divide", ["times", R, x, y], x], y],
        ["eq", R, ["power", R, x, L(R, 0)], L(R, 1)],
        ["eq", R, ["minus", R, ["ofnat", R, n], ["ofnat", R, n]], L(R, 0)],
    ]
    # cot / sec / csc are decided by real_interval_eval
    for f, arg, rel, c in (("sec", ["pi"], "le", -1), ("sec", ["pi"], "lt", 0), ("sec", ["pi"], "gt", 0), ("csc", ["divide", ["pi"], L(R, 2)], "ge", 1),
                           ("csc", L(R, 1), "gt", 1), ("csc", L(R, 1), "lt", 1), ("cot", L(R, 1), "gt", 0), ("cot", L(R, 1), "lt", 0),
                           ("cot", ["divide", ["pi"], L(R, 2)], "eq", 0), ("sec", L(R, 0), "eq", 1), ("cot", L(R, 0), "gt", 0), ("csc", L(R, 0), "eq", 0),
                           ("sec", ["divide", ["pi"], L(R, 2)], "gt", 0), ("sec", L(R, 2), "lt", -2), ("sec", L(R, 2), "gt", -2)):
        out.append([rel, R, ["fn", f, arg], L(R, c)])
    # pairs of equal values that floats / intervals cannot tell apart, under every relation
    sq2 = ["fn", "sqrt", L(R, 2)]
    pairs = [(["fn", "sin", ["pi"]], L(R, 0)), (["times", R, sq2, sq2], L(R, 2)), (["fn", "exp", ["fn", "log", L(R, 3)]], L(R, 3)),
             (["minus", R, ["plus", R, ["pi"], L(R, big)], L(R, big)], ["pi"]), (["power", R, L(R, 2), L(R, Fraction(1, 2))], sq2),
             (["divide", ["pi"], L(R, 2)], ["times", R, L(R, Fraction(1, 2)), ["pi"]]),
             (["fn", "cos", ["divide", ["pi"], L(R, 2)]], L(R, 0)), (["plus", R, ["pi"], L(R, Fraction(1, 10 ** 40))], ["pi"])]
    for a, b in pairs:
        for rel in ["eq", "lt", "le", "gt", "ge"]:
            out.append([rel, R, a, b])
        out.append(["neg", ["eq", R, a, b]])
    return out


def gen_poly_goal(rng):
    """Polynomial identities / non-identities with free variables for real_norm (and the others)."""
    vs = ["x", "y"]

    def pexpr(d):
        if d <= 0 or rng.random() < 0.25:
            return ["var", rng.choice(vs), "real"] if rng.random() < 0.65 else lit("real", rng.choice([0, 1, 2, 3, -1, Fraction(1, 2), Fraction(-3, 4)]))
        op = rng.choice(["plus", "plus", "minus", "times", "times", "uminus", "npow", "divc", "divv", "rpow", "ofnat"])
        if op == "uminus":
            return ["uminus", "real", pexpr(d - 1)]
        if op == "npow":
            return ["power", "real", pexpr(d - 1), lit("nat", rng.randint(0, 3))]
        if op == "divc":
            return ["divide", pexpr(d - 1), lit("real", rng.choice([2, 3, -4, Fraction(1, 2), 0]))]
        if op == "divv":
            return ["divide", pexpr(d - 1), pexpr(d - 1)]
        if op == "rpow":
            return ["power", "real", rng.choice([lit("real", rng.choice([2, -2, 0, Fraction(1, 4), 4, -8])), pexpr(0)]),
                    lit("real", rng.choice([2, -1, 0, Fraction(1, 2), Fraction(1, 3), 3]))]
        if op == "ofnat":
            return ["ofnat", "real", rng.choice([["minus", "nat", lit("nat", rng.randint(0, 5)), lit("nat", rng.randint(0, 5))],
                                                 ["var", "n", "nat"], ["plus", "nat", ["var", "n", "nat"], lit("nat", 2)],
                                                 ["minus", "nat", ["var", "n", "nat"], lit("nat", 1)],
                                                 ["uminus", "nat", lit("nat", 1)]])]
        return [op, "real", pexpr(d - 1), pexpr(d - 1)]

    def rearrange(tr):
        """a semantically equal rewriting (commute, reassociate, distribute, unfold squares) or a slightly wrong one"""
        if not isinstance(tr, list):
            return tr
        h = tr[0]
        r = rng.random()
        if h in ("plus", "times") and r < 0.5:
            return [h, tr[1], rearrange(tr[3]), rearrange(tr[2])]
        if h == "times" and isinstance(tr[3], list) and tr[3][0] == "plus" and r < 0.9:
            a, b, c = tr[2], tr[3][2], tr[3][3]
            return ["plus", "real", ["times", "real", a, b], ["times", "real", a, c]]
        if h == "minus" and r < 0.6:
            return ["plus", "real", rearrange(tr[2]), ["uminus", "real", rearrange(tr[3])]]
        if h == "power" and tr[3] == lit("nat", 2) and r < 0.8:
            return ["times", "real", tr[2], tr[2]]
        if h in ("plus", "minus", "times"):
            return [h, tr[1], rearrange(tr[2]), rearrange(tr[3])]
        return tr
    lhs = pexpr(rng.choice([2, 3, 3, 4]))
    r = rng.random()
    if r < 0.55:
        rhs, flav = rearrange(rearrange(lhs)), "poly-rearranged"
    elif r < 0.8:
        rhs, flav = ["plus", "real", rearrange(lhs), lit("real", rng.choice([0, 0, 1, Fraction(1, 10 ** 20)]))], "poly-perturbed"
    else:
        rhs, flav = pexpr(rng.choice([1, 2, 3])), "poly-random"
    return ["eq", "real", lhs, rhs], flav


def gen_eq_comparison_goal(rng):
    """(a OP b) ⟷ (c OP d) for real_eq_comparison: scaled / shifted versions, right and wrong."""
    vs = ["x", "y"]

    def lin():
        t = lit("real", rng.randint(-3, 3))
        for v in vs:
            if rng.random() < 0.7:
                t = ["plus", "real", t, ["times", "real", lit("real", rng.choice([1, 2, -1, 3, Fraction(1, 2)])), ["var", v, "real"]]]
        return t
    a, b = lin(), lin()
    op = rng.choice(CMPS + ["eq"])
    k = rng.choice([1, 2, 3, -1, -2, Fraction(1, 2)])
    r = rng.random()
    sh = lit("real", rng.randint(-2, 2))
    if r < 0.4:
        c, d, op2 = ["plus", "real", a, sh], ["plus", "real", b, sh], op
    elif r < 0.7:
        c, d, op2 = ["times", "real", lit("real", k), a], ["times", "real", lit("real", k), b], op
    elif r < 0.85:
        c, d, op2 = b, a, {"lt": "gt", "le": "ge", "gt": "lt", "ge": "le", "eq": "eq"}[op]
    else:
        c, d, op2 = ["plus", "real", a, sh], b, rng.choice(CMPS + ["eq"])
    return ["eq", "bool", [op, "real", a, b], [op2, "real", c, d]], "eq-comparison"


# ---------------------------------------------------------------------------------------------
# 6. streams
# ---------------------------------------------------------------------------------------------
def canon_num(v):
    if isinstance(v, bool):
        return ("other", repr(v))
    if isinstance(v, int):
        return ("int", v)
    if isinstance(v, Fraction):
        return ("frac", v.numerator, v.denominator)
    return ("other", type(v).__name__)


def parse_num(x):
    if x[0] == "int":
        return ("int", int(x[1]))
    if x[0] == "frac":
        return ("frac", int(x[1]), int(x[2]))
    return ("?", x)


def evaluator_stream(ctx, exprs):
    """nat_eval / int_eval / real_eval on expression trees: correspondence with the model and the
    soundness statement itself (result = standard meaning when the term has the evaluator's type)."""
    evs = [("nat_eval", K.nat.nat_eval, "nat", "n"), ("int_eval", K.integer.int_eval, "int", "i"), ("real_eval", K.real.real_eval, "real", "q")]
    lines, meta = [], []
    for tree in exprs:
        try:
            t = build(tree)
        except Exception:  # noqa
            continue
        w = wire_str(to_wire(t, {}))
        for name, fn, tag, kind in evs:
            try:
                with time_limit(20):
                    res = ("ok", canon_num(fn(t)))
            except Timeout:
                res = ("timeout",)
            except Exception as e:  # noqa
                res = ("rej", type(e).__name__)
            lines.append(sexp.dumps([name, sexp.loads(w)]) if False else "(%s %s)" % (name, w))
            meta.append((name, tag, kind, tree, t, res))
    out = ctx.lean_driver(EXE, lines) if lines else []
    ndis = 0
    for idx, (name, tag, kind, tree, t, res) in enumerate(meta):
        ctx.case(("ev", name, tree), nontrivial=isinstance(tree, list) and len(tree) > 2 and res[0] == "ok")
        ctx.count("%s:%s" % (name, res[0]))
        # --- oracle: evaluator soundness on the implementation
        if res[0] == "ok":
            try:
                T = ty_tag(t.checked_get_type())
            except Exception:  # noqa
                T = None
            if T == tag:
                rp = {"evaluator": name, "expr": tree, "result": list(res[1])}
                try:
                    k, v = sem(t)
                    got = res[1]
                    gv = Fraction(got[1], got[2]) if got[0] == "frac" else (Fraction(got[1]) if got[0] == "int" else None)
                    if not is_exact(v):
                        ctx.count("oracle:evaluator-irrational")
                    elif gv is None or k != kind or Fraction(v) != gv:
                        ctx.violation("evaluator-wrong:%s:%s" % (name, short_key(tree)),
                                      "%s(%s) = %s but the standard meaning is %s" % (name, t, got, v), rp)
                except NoMeaning as e:
                    ctx.violation("evaluator-no-meaning:%s:%s" % (name, short_key(tree)),
                                  "%s(%s) returned %s but the term has no standard meaning (%s)" % (name, t, res[1], e), rp)
        # --- correspondence
        if out is not None:
            m = sexp.loads(out[idx])
            mm = ("rej",) if m[0] == "err" else (("ok", ("int", int(m[1])) if name == "nat_eval" else parse_num(m[1])) if m[0] == "ok" else ("?", out[idx]))
            ii = res if res[0] != "rej" else ("rej",)
            if mm != ii and res[0] != "timeout":
                ndis += 1
                if ndis <= 3:
                    ctx.broken("correspondence:c05:%s" % name, "expr=%s impl=%s model=%s" % (wire_str(to_wire(t, {})), res, out[idx]))
                    ctx.coverage["disagreements_checked"] += 1
    return out is not None


def macro_stream(ctx, goals, label, macros=None, envs_for=None):
    """goals: list of (tree, flavour).  Every goal goes to every macro in `macros`."""
    macros = macros or (MODELLED + ORACLE_ONLY)
    lines, meta = [], []
    for tree, flav in goals:
        try:
            goal = build(tree)
        except Exception:  # noqa
            ctx.count("gen:unbuildable")
            continue
        atoms = {}
        w = wire_str(to_wire(goal, atoms))
        for macro in macros:
            res = run_check(macro, goal)
            if macro in MODELLED:
                lines.append("(macro %s %s)" % (macro, w))
                meta.append((macro, tree, flav, goal, res, len(lines) - 1))
            else:
                meta.append((macro, tree, flav, goal, res, None))
    out = ctx.lean_driver(EXE, lines) if lines else []
    ndis = 0
    for macro, tree, flav, goal, res, li in meta:
        nontriv = isinstance(tree, list) and res[0] == "ok"
        ctx.case(("macro", macro, tree), nontrivial=nontriv)
        ctx.count("%s:%s:%s" % (label, macro, res[0] if res[0] != "rej" else "rej"))
        if res[0] == "rej":
            ctx.count("reject-reason:%s" % res[1])
        if res[0] == "timeout":
            ctx.count("timeout")
            continue
        verdict = None
        if res[0] == "ok":
            envs = envs_for(goal) if envs_for else None
            verdict = judge(ctx, macro, tree, goal, res[1], envs)
            ctx.count("oracle:%s" % verdict)
            ctx.count("accepted-flavour:%s" % flav)
        if li is not None and out is not None:
            m = sexp.loads(out[li])
            if m[0] == "err" and m[1] == "approx":
                ctx.count("model:approx-branch(not modelled)")
                continue
            if m[0] == "ok":
                mm = ("ok", sexp.dumps(m[1]))
            else:
                mm = ("rej",)
            if res[0] == "ok":
                ii = ("ok", wire_str(to_wire(res[1].prop, {}))) if len(res[1].hyps) == 0 else ("ok-with-hyps",)
            else:
                ii = ("rej",)
            if ii != mm:
                ndis += 1
                if ndis <= 3:
                    ctx.broken("correspondence:c05:macro:%s" % macro, "goal=%s impl=%s model=%s" % (wire_str(to_wire(goal, {})), ii, out[li]))
                    ctx.coverage["disagreements_checked"] += 1
    return out is not None


def history_pairs(rng, n):
    """[(true_tree, false_tree, flavour)]: two goals of the SAME shape (so that a released goal and its successor are
    allocated alike), the first true, the second a near miss (value off by one / strictness flipped / wrong type)."""
    out = []
    old = SMALL[0]
    SMALL[0] = True
    try:
        guard = 0
        while len(out) < n and guard < 50 * n:
            guard += 1
            r = rng.random()
            if r < 0.12:
                # polynomial identity with free variables (real_norm), constant moved / changed
                x, y = ["var", "x", "real"], ["var", "y", "real"]
                e = rng.choice([["times", "real", x, y], ["plus", "real", x, ["times", "real", lit("real", rng.randint(2, 5)), y]],
                                ["power", "real", ["plus", "real", x, lit("real", 1)], lit("nat", 2)], x])
                c = rng.randint(-4, 4)
                lhs = ["plus", "real", e, lit("real", c)]
                out.append((["eq", "real", lhs, ["plus", "real", lit("real", c), e]],
                            ["eq", "real", lhs, ["plus", "real", lit("real", c + rng.choice([1, -1])), e]], "history-poly"))
                continue
            if r < 0.2:
                # (a OP b) ⟷ (a + s OP b + s), and shifted on one side only
                x = ["var", "x", "real"]
                op = rng.choice(CMPS)
                a, b, s = ["times", "real", lit("real", rng.randint(1, 3)), x], lit("real", rng.randint(-3, 3)), rng.randint(1, 3)
                lhs = [op, "real", a, b]
                b2 = lambda k: lit("real", Fraction(int(b[2])) + k)      # noqa
                out.append((["eq", "bool", lhs, [op, "real", ["plus", "real", a, lit("real", s)], b2(s)]],
                            ["eq", "bool", lhs, [op, "real", ["plus", "real", a, lit("real", s)], b2(s + rng.choice([1, 2]))]], "history-eqcmp"))
                continue
            T = rng.choice(["nat", "nat", "int", "int", "int", "real", "real"])
            e = gen_expr(rng, T, rng.choice([1, 1, 2]))
            if digits_bound(e) > 200 or e[0] == "lit":
                continue
            v = value_of(e, "typed")
            if v is None or (T != "real" and v.denominator != 1) or (T == "nat" and v < 0):
                continue
            if r < 0.32:
                # the same text at another type: (1::nat) - 2 = 0 is true, (1::int) - 2 = 0 is not
                T2 = rng.choice([t for t in ("nat", "int", "real") if t != T])
                e2 = json.loads(json.dumps(e).replace('"%s"' % T, '"%s"' % T2))
                v2 = value_of(e2, "typed")
                if v2 is None or v2 == v or (T2 != "real" and v2.denominator != 1) or (T2 == "nat" and (v < 0 or v2 < 0)) or \
                        (T2 != "real" and v.denominator != 1):
                    continue
                out.append((["eq", T, e, lit(T, v)], ["eq", T2, e2, lit(T2, v)], "history-retyped"))
                continue
            rel = rng.choice(["eq", "eq", "eq", "eq", "eq", "lt", "le", "gt", "ge"])
            d = 1 if T != "real" else rng.choice([1, 1, Fraction(1, 2), Fraction(1, 1000)])      # short numerals: a step costs ~0.2 ms
            tv, fv = {"eq": (v, v + d), "lt": (v + d, v), "le": (v, v - d), "gt": (v - d, v), "ge": (v, v + d)}[rel]
            if rel == "eq" and rng.random() < 0.5 and not (T == "nat" and v - d < 0):
                fv = v - d
            if T == "nat" and (tv < 0 or fv < 0):
                continue
            gt_, gf_ = [rel, T, e, lit(T, tv)], [rel, T, e, lit(T, fv)]
            w = rng.random()
            if w < 0.22:
                gt_, gf_ = ["neg", gf_], ["neg", gt_]
            elif w < 0.25:
                gt_, gf_ = ["eq", "bool", gt_, "tru"], ["eq", "bool", gf_, "tru"]
            elif w < 0.28:
                gt_, gf_ = ["eq", "bool", gf_, "fls"], ["eq", "bool", gt_, "fls"]
            out.append((gt_, gf_, "history-%s" % rel))
    finally:
        SMALL[0] = old
    return out


def history_stream(ctx, envs):
    """HISTORIES in one process.  The trusted macros are singleton objects of the registry and Term._id is the address of
    the term: goals are built, checked by every trusted macro, and RELEASED (del + gc.collect); then new goal objects of the
    same shape -- which get the addresses / `_id`s of the released ones -- are checked by the same macro objects.  True
    goals and false near misses (off by one, strictness flipped, same text at another type) are interleaved in three
    schedules: all true ones then all false ones; alternating; each false one directly after its released true twin.
    Every accepted sequent is judged by the exact oracle, so a verdict remembered per object identity, per printed text or
    per anything else that survives the goal shows as an accepted false statement."""
    import gc
    rng = ctx.rng("history")
    macros = MODELLED + ORACLE_ONLY
    pairs = history_pairs(rng, ctx.scale(1200, 6000))
    steps = [0]
    trail = []
    cap = ctx.scale(160, 600)

    def one(macro, tree, flav, expect):
        # every kernel object of this step dies when the function returns
        steps[0] += 1
        goal = build(tree)
        res = run_check(macro, goal)
        trail.append((macro, short_key(tree)[:160], res[0]))
        del trail[:-12]
        ctx.case(("history", macro, tree), nontrivial=res[0] == "ok")
        ctx.count("history:%s:%s:%s" % (macro, "true-goal" if expect else "near-miss", res[0]))
        if res[0] != "ok":
            return res[0]
        # the failing input is the goal AFTER this history; a replay re-runs the stream of this seed up to the step
        extra = {"history": {"seed": ctx.seed, "tier": ctx.tier, "step": steps[0], "preceding_steps(macro, goal, verdict)": list(trail)}}
        verdict = judge(ctx, macro, tree, goal, res[1], envs, extra)
        ctx.count("oracle:%s" % verdict)
        ctx.count("accepted-flavour:%s" % flav)
        return "ok"

    def targets(tree):
        # the macros meant for terms of the goal's type, and now and then one that is not
        t = tree
        while isinstance(t, list) and (t[0] == "neg" or (t[0] == "eq" and t[1] == "bool")):
            t = t[1] if t[0] == "neg" else t[2]
        T = t[1] if isinstance(t, list) and len(t) == 4 else None
        ms = [m for m in macros if T in INTENDED[m]]
        if rng.random() < 0.3:
            ms.append(rng.choice([m for m in macros if m not in ms] or macros))
        return ms

    # 1. mixed pass: every true goal to the macros meant for its type (all macro objects interleaved); remembers which
    #    macro accepted which goal, so that the next passes need no table of the shapes a macro is meant for
    accepted = dict((m, []) for m in macros)
    for t, f, fl in pairs:
        for macro in targets(t):
            if one(macro, t, fl, True) == "ok" and len(accepted[macro]) < cap:
                accepted[macro].append((t, f, fl))
    gc.collect()                                         # a full collection of this heap takes ~0.7 s: only twice
    # 2. one macro object at a time, on goals of the shapes it accepts: all true goals (new objects), released; then
    #    their near misses; then alternating, each near miss directly after its released true twin
    for macro in macros:
        acc = accepted[macro]
        for t, f, fl in acc:
            one(macro, t, fl, True)
        gc.collect(1)
        for t, f, fl in acc:
            one(macro, f, fl, False)
        for t, f, fl in acc[:cap // 2]:
            one(macro, t, fl, True)
            one(macro, f, fl, False)
        junk = [build(t) for t, _, _ in acc[:8]]         # object churn: unrelated terms allocated and dropped
        del junk
        gc.collect(1)
        ctx.count("history:%s:true-goals-in-concentrated-pass" % macro, len(acc))
    # 3. finally every near miss to every macro meant for its type, after the complete history
    gc.collect()
    for t, f, fl in pairs:
        for macro in targets(f):
            one(macro, f, fl, False)
    ctx.coverage["history_steps"] = steps[0]


def rand_envs(rng, n=6):
    """Valuations of x, y (real) and n (nat): the special points first (0, 1, -1, x = y, n in {0, 1}: where a
    dropped side condition such as x/x = 1 or of_nat (n - 1) + 1 = of_nat n shows), then random ones."""
    F = Fraction
    envs = [{"x": F(0), "y": F(0), "n": 0}, {"x": F(1), "y": F(1), "n": 1}, {"x": F(-1), "y": F(-1), "n": 0},
            {"x": F(0), "y": F(1), "n": 1}, {"x": F(1), "y": F(0), "n": 0}, {"x": F(-1), "y": F(1), "n": 2},
            {"x": F(2), "y": F(2), "n": 0}, {"x": F(1, 2), "y": F(-3), "n": 1}]
    for _ in range(n):
        envs.append({"x": Fraction(rng.randint(-7, 7), rng.choice([1, 1, 2, 3])), "y": Fraction(rng.randint(-5, 9), rng.choice([1, 2, 5])),
                     "n": rng.randint(0, 4)})
    return envs


def den_stream(ctx, goals):
    """The Lean `den` (the meaning the theorems talk about) against the harness's own semantics."""
    lines, meta = [], []
    for tree, _ in goals:
        try:
            t = build(tree)
        except Exception:  # noqa
            continue
        atoms = {}
        w = to_wire(t, atoms)
        if atoms:
            continue
        try:
            v = sem(t)
            if not is_exact(v[1]) and v[0] != "b":
                continue
            mine = ("b", v[1]) if v[0] == "b" else ((v[0], int(v[1])) if v[0] in "ni" else ("q", Fraction(v[1]).numerator, Fraction(v[1]).denominator))
        except NoMeaning:
            mine = ("none",)
        except Undecided:
            continue
        except Exception:  # noqa
            continue
        lines.append("(den %s)" % wire_str(w))
        meta.append((tree, mine))
    out = ctx.lean_driver(EXE, lines) if lines else []
    if out is None:
        return
    nd = 0
    for (tree, mine), o in zip(meta, out):
        m = sexp.loads(o)
        if m == "none":
            lean = ("none",)
        elif m[0] == "b":
            lean = ("b", m[1] == "T")
        elif m[0] in ("n", "i"):
            lean = (m[0], int(m[1]))
        else:
            lean = ("q", int(m[1]), int(m[2]))
        ctx.count("den:%s" % lean[0])
        if lean != mine:
            # real power at non-integer exponents and irrational functions have no value in the ℚ model
            if lean == ("none",) and mine[0] in ("q", "b"):
                ctx.count("den:outside-rational-model")
                continue
            nd += 1
            if nd <= 3:
                ctx.broken("correspondence:c05:den", "tree=%s lean=%s harness=%s" % (json.dumps(tree), lean, mine))



# ---------------------------------------------------------------------------------------------
# 6b. near-equal irrational comparisons (gap far below the precision of the interval evaluator)
# ---------------------------------------------------------------------------------------------
HP_DPS = 1300


class hp_precision:
    """Temporarily run the mpmath oracle at HP_DPS digits."""

    def __enter__(self):
        self.m = mp()
        self.old = self.m.dps
        self.m.dps = HP_DPS

    def __exit__(self, *exc):
        self.m.dps = self.old
        return False


def near_equal_bases():
    """(name, a, b): two variable-free real terms with the SAME value (by construction / a textbook
    identity), at least one of which real_eval cannot compute; some identical, some not."""
    R, L = "real", lit
    pi = ["pi"]
    sq2 = ["fn", "sqrt", L(R, 2)]
    big = ["power", R, L(R, 10), L("nat", 80)]
    s1, c1 = ["fn", "sin", L(R, 1)], ["fn", "cos", L(R, 1)]
    return [
        ("pi", pi, pi),
        ("sqrt2*sqrt2~2", ["times", R, sq2, sq2], L(R, 2)),
        ("1e80*sqrt2", ["times", R, big, sq2], ["times", R, big, sq2]),
        ("sqrt2", sq2, sq2),
        ("exp(log3)~3", ["fn", "exp", ["fn", "log", L(R, 3)]], L(R, 3)),
        ("pi+1e80", ["plus", R, pi, big], ["plus", R, pi, big]),
        ("pi/2~1/2*pi", ["divide", pi, L(R, 2)], ["times", R, L(R, Fraction(1, 2)), pi]),
        ("sin^2+cos^2~1", ["plus", R, ["times", R, s1, s1], ["times", R, c1, c1]], L(R, 1)),
        ("log2+log3~log6", ["plus", R, ["fn", "log", L(R, 2)], ["fn", "log", L(R, 3)]], ["fn", "log", L(R, 6)]),
    ]


NE_RELS = ["lt", "le", "gt", "ge", "eq", "ne"]


def near_equal_cases(ctx):
    """Every case: perturbed = a + d with a rational d = ±10^-k (or ±1 on the 10^80-scale bases), other = b
    (value of a = value of b), relation, order of the sides.  The truth is decided by the sign of d."""
    R = "real"
    bases = near_equal_bases()
    core, rest = [], []
    for bi, (bname, a, b) in enumerate(bases):
        gaps = [50, 70, 100, 150, 200] + ([0] if "1e80" in bname else [])
        for k in gaps:
            for sign in (1, -1):
                d = Fraction(sign, 10 ** k)
                eps_forms = [lit(R, Fraction(1, 10 ** k))]
                if k > 0:
                    eps_forms.append(["divide", ["one", R], ["power", R, lit(R, 10), lit("nat", k)]])
                for fi, eps in enumerate(eps_forms):
                    pert = ["plus" if sign > 0 else "minus", R, a, eps]
                    for rel in NE_RELS:
                        for order in (0, 1):
                            case = {"family": "near-equal", "base": bname, "pert": pert, "other": b, "d": [d.numerator, d.denominator],
                                    "rel": rel, "order": order}
                            is_core = bi < 3 and k in (70, 200, 0) and fi == len(eps_forms) - 1
                            (core if is_core else rest).append(case)
    if ctx.tier == "thorough":
        return core + rest
    rng = ctx.rng("near-equal")
    rng.shuffle(rest)
    return core + rest[:60]


def ne_goal_tree(case):
    l, r = (case["pert"], case["other"]) if case["order"] == 0 else (case["other"], case["pert"])
    if case["rel"] == "ne":
        return ["neg", ["eq", "real", l, r]]
    return [case["rel"], "real", l, r]


def ne_truth(case):
    """value(left) - value(right) has the sign of ±d, exactly."""
    d = Fraction(case["d"][0], case["d"][1])
    if case["order"] == 1:
        d = -d
    sgn = (d > 0) - (d < 0)
    return {"lt": sgn < 0, "le": sgn <= 0, "gt": sgn > 0, "ge": sgn >= 0, "eq": sgn == 0, "ne": sgn != 0}[case["rel"]]


_hp_checked = {}


def ne_crosscheck(case):
    """Independent confirmation of the construction with mpmath at HP_DPS digits: pert - other = d."""
    key = json.dumps([case["pert"], case["other"]])
    if key in _hp_checked:
        return _hp_checked[key]
    d = Fraction(case["d"][0], case["d"][1])
    with hp_precision():
        m = mp()
        v1 = to_mpf(sem(build(case["pert"]))[1])
        v2 = to_mpf(sem(build(case["other"]))[1])
        diff = v1 - v2
        ok = abs(diff - to_mpf(d)) < abs(to_mpf(d)) * m.mpf(10) ** (-300)
    _hp_checked[key] = bool(ok)
    return bool(ok)


def same_term(a, b):
    """Structural equality of two kernel terms with an explicit stack (Term.__eq__ recurses through C
    slots and overflows CPython's C stack guard on numerals of several hundred bits)."""
    Term = K.term.Term
    stack = [(a, b)]
    while stack:
        x, y = stack.pop()
        if x is y:
            continue
        if x.ty != y.ty:
            return False
        if x.ty == Term.COMB:
            stack.append((x.fun, y.fun))
            stack.append((x.arg, y.arg))
        elif x.ty in (Term.CONST, Term.VAR, Term.SVAR):
            if x.name != y.name or x.T != y.T:
                return False
        elif x.ty == Term.ABS:
            if x.var_T != y.var_T:
                return False
            stack.append((x.body, y.body))
        elif x.ty == Term.BOUND:
            if x.n != y.n:
                return False
        else:
            return False
    return True


def asserted_truth(stmt, core, core_truth):
    """Truth of an asserted statement built from the core relation by ¬ and `⟷ true/false`; None otherwise."""
    if same_term(stmt, core):
        return core_truth
    head, args = strip(stmt)
    if head.ty == K.term.Term.CONST and head.name == "neg" and len(args) == 1:
        v = asserted_truth(args[0], core, core_truth)
        return None if v is None else (not v)
    if head.ty == K.term.Term.CONST and head.name == "equals" and len(args) == 2:
        if same_term(args[1], K.term.true):
            return asserted_truth(args[0], core, core_truth)
        if same_term(args[1], K.term.false):
            v = asserted_truth(args[0], core, core_truth)
            return None if v is None else (not v)
    return None


NE_MACROS = ["const_inequality", "real_compare", "real_const_eq", "real_const_ineq", "real_eval", "real_norm"]


def near_equal_stream(ctx, cases, macros=None):
    macros = macros or NE_MACROS
    for case in cases:
        if not ne_crosscheck(case):
            raise AssertionError("near-equal construction not confirmed at %d digits: %r" % (HP_DPS, case))
        tree = ne_goal_tree(case)
        goal = build(tree)
        core_tree = tree[1] if case["rel"] == "ne" else tree
        core = build(core_tree)
        core_truth = (not ne_truth(case)) if case["rel"] == "ne" else ne_truth(case)
        gap = "1e-%d" % (len(str(case["d"][1])) - 1)
        for macro in macros:
            res = run_check(macro, goal)
            ctx.case(("near-equal", macro, tree), nontrivial=res[0] == "ok")
            ctx.count("near-equal:%s:%s" % (macro, res[0]))
            if res[0] != "ok":
                continue
            th = res[1]
            rp = {"macro": macro, "goal": tree, "asserted": safe_str(th), "near_equal": case,
                  "oracle": "left - right = %s%s exactly (the perturbation is rational and the unperturbed sides are equal); "
                            "confirmed with mpmath at %d digits" % ("" if case["order"] == 0 else "-", Fraction(case["d"][0], case["d"][1]), HP_DPS)}
            v = asserted_truth(th.prop, core, core_truth) if len(th.hyps) == 0 else None
            if v is None:
                ctx.violation("unexpected-statement:%s:%s" % (macro, short_key(tree)), "%s asserted %s for the goal %s" % (macro, safe_str(th), safe_str(goal)), rp)
            elif not v:
                ctx.violation("false:%s:%s" % (macro, short_key(tree)),
                              "%s asserted a false statement (the sides differ by %s, far below the precision of the bounds): |- %s" % (macro, gap, safe_str(th.prop)), rp)
            else:
                ctx.count("near-equal:accepted-true")


# ---------------------------------------------------------------------------------------------
# 6d. forged constants: arithmetic constants at types that are no instance of their declared type
# ---------------------------------------------------------------------------------------------
def forged_goals():
    N, I, R = "nat", "int", "real"
    L = lit
    out = []
    for op, f in (("plus", lambda a, b: a + b), ("minus", lambda a, b: a - b), ("times", lambda a, b: a * b)):
        for A, B in ((R, N), (N, R), (R, I), (N, I), (I, N), (I, R)):
            lhs = ["forged", op, [A, A], B, L(A, 1), L(A, 2)]
            v = f(1, 2)
            for w in {v, max(v, 0)}:
                if B == N and w < 0:
                    continue
                out.append(["eq", B, lhs, L(B, w)])
            out.append(["le", B, lhs, L(B, 5)])
            out.append(["neg", ["eq", B, lhs, L(B, 7)]])
    out += [
        ["eq", N, ["forged", "uminus", [R], N, L(R, 1)], L(N, 0)],
        ["eq", I, ["forged", "uminus", [N], I, L(N, 1)], L(I, -1)],
        ["eq", R, ["forged", "of_nat", [R], R, L(R, 2)], L(R, 2)],
        ["eq", N, ["forged", "of_nat", [R], N, ["minus", R, L(R, 1), L(R, 2)]], L(N, 0)],
        ["eq", N, ["forged", "real_divide", [N, N], N, L(N, 6), L(N, 3)], L(N, 2)],
        ["eq", I, ["forged", "real_divide", [I, I], I, L(I, 6), L(I, 3)], L(I, 2)],
        ["eq", R, ["forged", "power", [N, N], R, L(N, 2), L(N, 3)], L(R, 8)],
        ["eq", R, ["forged", "real_inverse", [N], R, L(N, 2)], L(R, Fraction(1, 2))],
        ["eq", R, ["forged", "of_int", [N], R, ["minus", N, L(N, 1), L(N, 2)]], L(R, -1)],
        ["eq", N, ["forged", "Suc", [R], N, L(R, Fraction(1, 2))], L(N, 1)],
        ["forged", "equals", [N, R], "bool", L(N, 1), L(R, 1)],
        ["forged", "less", [N, R], "bool", L(N, 1), L(R, 2)],
        ["forged", "less_eq", [R, N], "bool", ["minus", R, L(R, 1), L(R, 2)], L(N, 0)],
    ]
    return out


def forged_stream(ctx):
    """Every goal here is type-correct for the kernel (check_thm_type passes) but is NOT a term of the theory:
    some arithmetic constant is used at a type that is no instance of its declared one (Theory.check_term
    fails).  The evaluators go by constant names, so a trusted step that does not check this asserts an
    'evaluation' of a term it knows nothing about; the property demands rejection."""
    n_ok = 0
    for tree in forged_goals():
        goal = build(tree)
        try:
            goal.checked_get_type()
        except Exception:  # noqa
            ctx.count("forged:ill-typed-for-the-kernel(skipped)")
            continue
        try:
            K.theory.thy.check_term(goal)
            ctx.count("forged:actually-well-formed(skipped)")
            continue
        except Exception:  # noqa
            pass
        for macro in MODELLED + ORACLE_ONLY:
            res = run_check(macro, goal)
            ctx.case(("forged", macro, tree), nontrivial=True)
            ctx.count("forged:%s:%s" % (macro, res[0]))
            if res[0] == "ok":
                n_ok += 1
                ctx.violation("forged-constant:%s" % macro,
                              "%s accepted a goal in which a constant is used at a type that is no instance of its declared type "
                              "(not a term of the theory): goal %s, asserted |- %s" % (macro, short_key(tree), safe_str(res[1].prop)),
                              {"macro": macro, "goal": tree, "forged": True, "asserted": safe_str(res[1])})
    return n_ok



# ---------------------------------------------------------------------------------------------
# 6e. every function symbol the THEORY offers, at constants: evaluators and const_inequality
# ---------------------------------------------------------------------------------------------
def theory_function_symbols():
    """(name, [arg types], result type) for every constant of the loaded theory whose declared type,
    with its type variables instantiated at nat / int / real, is a function of one or two numeric
    arguments with a numeric result — derived from the theory's signature, NOT from what the
    evaluators support."""
    ht = K.htype
    tags = {ht.NatType: "nat", ht.IntType: "int", ht.RealType: "real"}
    sig = K.theory.thy.get_data("term_sig")
    out = []
    for name in sorted(sig):
        T0 = sig[name]
        try:
            tvars = T0.get_tvars() if hasattr(T0, "get_tvars") else []
            stvars = T0.get_stvars() if hasattr(T0, "get_stvars") else []
        except Exception:  # noqa
            continue
        vs = list(tvars) + list(stvars)
        insts = [None]
        if vs:
            if len(vs) > 2:
                continue
            cands = [ht.NatType, ht.IntType, ht.RealType]
            insts = [(a,) for a in cands] if len(vs) == 1 else [(a, b) for a in cands for b in (ht.NatType, ht.RealType)]
        for inst in insts:
            T = T0
            if inst is not None:
                try:
                    tyinst = ht.TyInst(**{v.name: x for v, x in zip(vs, inst)})
                    T = (T0.convert_stvar() if tvars else T0).subst(tyinst)
                except Exception:  # noqa
                    continue
            try:
                args, res = T.strip_type()
            except Exception:  # noqa
                continue
            if 1 <= len(args) <= 2 and all(a in tags for a in args) and res in tags:
                out.append((name, [tags[a] for a in args], tags[res]))
    return out


TF_CONSTS = {
    "real": [-10, -2, -1, Fraction(-1, 2), 0, Fraction(1, 2), 1, 2, 3, 10],
    "int": [-3, -1, 0, 2],
    "nat": [0, 1, 2, 5],
}


def tf_app(name, argTs, resT, args):
    return ["forged", name, list(argTs), resT] + list(args)       # same builder; here at a declared instance


def tf_terms(ctx, syms):
    """Applications f c / f a b of every symbol at a few constants (trees), incl. irrational arguments for reals."""
    quick = ctx.tier != "thorough"
    out = []
    R = "real"
    irr = [["fn", "sqrt", lit(R, 3)], ["divide", ["pi"], lit(R, 4)], ["uminus", R, ["fn", "sqrt", lit(R, 2)]]]
    for name, argTs, resT in syms:
        if len(argTs) == 1:
            cs = TF_CONSTS[argTs[0]]
            if quick and argTs[0] == "real":
                cs = [-2, -1, 0, Fraction(1, 2), 2, 10]
            for c in cs:
                out.append((name, argTs, resT, tf_app(name, argTs, resT, [lit(argTs[0], c)]), True))
            if argTs[0] == R:
                for a in (irr[:1] if quick else irr):
                    out.append((name, argTs, resT, tf_app(name, argTs, resT, [a]), False))
        else:
            pairs = {"real": [(2, 3), (-2, 3), (Fraction(1, 2), -1), (0, 0), (4, Fraction(1, 2)), (-8, Fraction(1, 3))],
                     "int": [(2, -3), (-1, 0)], "nat": [(5, 2), (2, 5), (3, 0), (0, 0)]}
            for a, b in pairs[argTs[0]]:
                try:
                    b2 = b
                    if argTs[1] == "nat":
                        b2 = abs(int(b)) if Fraction(b).denominator == 1 else 2
                    elif argTs[1] == "int":
                        b2 = int(b) if Fraction(b).denominator == 1 else -2
                    out.append((name, argTs, resT, tf_app(name, argTs, resT, [lit(argTs[0], a), lit(argTs[1], b2)]), True))
                except Exception:  # noqa
                    continue
    return out


def iv_endpoint(x, which):
    m = mp()
    if hasattr(x, "_mpi_"):
        return m.mpf(x._mpi_[which])
    if isinstance(x, (int, Fraction)):
        return to_mpf(x)
    return m.mpf(x)


def oracle_value(t):
    """Value of a variable-free numeric term at two precisions (MP_DPS and 2*MP_DPS digits) that must agree;
    returns (kind, value) with an exact value when the oracle has one.  Raises NoMeaning / OracleGap."""
    k1, v1 = sem(t)
    if is_exact(v1):
        return k1, v1
    m = mp()
    old = m.dps
    m.dps = 2 * MP_DPS
    try:
        k2, v2 = sem(t)
        d = abs(to_mpf(v1) - to_mpf(v2))
        if d > max(1, abs(to_mpf(v2))) * m.mpf(10) ** (-(MP_DPS - 30)):
            raise Undecided()
        return k2, v2
    finally:
        m.dps = old


def theory_function_stream(ctx):
    """(1) dispatch fall-through: every evaluator is fed every function symbol of the theory at constants and
    whatever it RETURNS is compared with the oracle (a refusal is fine); (2) const_inequality goals
    `f c ⋈ r` with r just below / just above the true value and at |c|, c, 0, ±pi/2, six relations."""
    syms = theory_function_symbols()
    ctx.coverage["theory_function_symbols"] = sorted({s[0] for s in syms})
    terms = tf_terms(ctx, syms)
    m = mp()
    R = "real"
    evaluators = {"nat": [("nat_eval", K.nat.nat_eval)], "int": [("int_eval", K.integer.int_eval)],
                  "real": [("real_eval", K.real.real_eval), ("real_approx_eval", K.real.real_approx_eval)] +
                          ([("real_interval_eval", K.real.real_interval_eval)] if hasattr(K.real, "real_interval_eval") else [])}
    goals = []
    gaps = set()
    for name, argTs, resT, tree, rational_arg in terms:
        try:
            t = build(tree)
            t.checked_get_type()
        except Exception:  # noqa
            ctx.count("theory-fn:unbuildable")
            continue
        try:
            kind, v = oracle_value(t)
            verdict = "value"
        except OracleGap:
            verdict, v = "gap", None
        except NoMeaning as e:
            verdict, v = "nomeaning", str(e)
        except Undecided:
            verdict, v = "unstable", None
        except Exception as e:  # noqa  (overflow in the oracle ...)
            verdict, v = "unstable", None
        # ---- (1) evaluators on the term itself and under of_nat / of_int
        variants = [(resT, tree, t)]
        if resT == "nat":
            w = ["ofnat", R, tree]
            variants.append((R, w, build(w)))
        if resT == "int":
            w = ["ofint", tree]
            variants.append((R, w, build(w)))
        for vT, vtree, vt in variants:
            for ename, fn in evaluators[vT]:
                try:
                    with time_limit(20):
                        r = fn(vt)
                except Timeout:
                    ctx.count("theory-fn:%s:timeout" % ename)
                    continue
                except Exception:  # noqa
                    ctx.count("theory-fn:%s:rejects" % ename)
                    continue
                ctx.case(("theory-fn", ename, vtree), nontrivial=True)
                ctx.count("theory-fn:%s:returns" % ename)
                rp = {"evaluator": ename, "expr": vtree, "theory_function": name, "result": safe_str(r)}
                key = "evaluator-wrong:%s:%s" % (ename, short_key(vtree))
                if verdict == "gap":
                    gaps.add(name)
                    continue
                if verdict == "unstable":
                    ctx.count("theory-fn:oracle-unstable")
                    continue
                if verdict == "nomeaning":
                    ctx.violation("evaluator-no-meaning:%s:%s" % (ename, short_key(vtree)),
                                  "%s(%s) returned %s but the term has no standard meaning (%s)" % (ename, safe_str(vt), safe_str(r), v), rp)
                    continue
                tv = to_mpf(v)
                tol_abs = max(1, abs(tv))
                if ename == "real_interval_eval":
                    try:
                        lo, hi = iv_endpoint(r[0], 0), iv_endpoint(r[1], 1)
                        ok = lo <= tv <= hi
                    except Exception:  # noqa
                        ok = False
                    if not ok:
                        ctx.violation(key, "real_interval_eval(%s) = %s does not enclose the value %s" % (safe_str(vt), safe_str(r), m.nstr(tv, 30)), rp)
                elif ename == "real_approx_eval":
                    try:
                        ok = isinstance(r, (int, float, Fraction)) and not isinstance(r, bool) and abs(to_mpf(r) - tv) <= tol_abs * m.mpf(10) ** (-6)
                    except Exception:  # noqa
                        ok = False
                    if not ok:
                        # real_approx_eval feeds no trusted step any more (fixes/C05-2): an inaccurate float is recorded, it is
                        # not a failure of the property; const_inequality goals about the same terms are judged in part (2)
                        ctx.count("theory-fn:real_approx_eval:inaccurate(not a trusted step)")
                        ctx.coverage.setdefault("approx_eval_inaccurate", [])
                        if len(ctx.coverage["approx_eval_inaccurate"]) < 5:
                            ctx.coverage["approx_eval_inaccurate"].append("%s = %s, value %s" % (safe_str(vt), safe_str(r), m.nstr(tv, 20)))
                else:
                    ok = isinstance(r, (int, Fraction)) and not isinstance(r, bool) and \
                        (Fraction(r) == Fraction(v) if is_exact(v) else False)
                    if not ok:
                        ctx.violation(key, "%s(%s) = %s but the value is %s" % (ename, safe_str(vt), safe_str(r), v if is_exact(v) else m.nstr(tv, 30)), rp)
        # ---- (2) const_inequality goals around the true value
        if resT != R:
            continue
        rhs = []
        if verdict == "value":
            tv = to_mpf(v)
            q = Fraction(int(m.floor(tv * 10 ** 6)), 10 ** 6)
            rhs += [(lit(R, q - Fraction(2, 10 ** 6)), CMPS + ["eq", "ne"]), (lit(R, q + Fraction(3, 10 ** 6)), CMPS + ["eq", "ne"])]
        c0 = tree[4]
        side = [(["fn", "abs", c0], ["lt", "gt", "ge"]), (c0, ["lt", "gt", "eq"]), (lit(R, 0), ["lt", "gt", "ge", "le"]),
                (["divide", ["pi"], lit(R, 2)], ["lt", "gt"]), (["uminus", R, ["divide", ["pi"], lit(R, 2)]], ["lt", "gt"]),
                (["fn", "sqrt", lit(R, 2)], ["lt", "gt"])]
        rhs += side if len(argTs) == 1 else side[2:3]
        for r_tree, rels in rhs:
            for rel in rels:
                g = ["neg", ["eq", R, tree, r_tree]] if rel == "ne" else [rel, R, tree, r_tree]
                goals.append((g, "theory-fn:%s" % name))
                if rel in ("lt", "gt") and ctx.tier == "thorough":
                    goals.append(([rel, R, r_tree, tree], "theory-fn:%s" % name))
    for name in sorted(gaps):
        ctx.broken("oracle-missing-semantics:%s" % name,
                   "an evaluator returns a value for the theory function %s but the harness oracle has no semantics for it: extend _sem0" % name)
    macro_stream(ctx, goals, "theory-fn", macros=["const_inequality"])
    return len(terms), len(goals)



# ---------------------------------------------------------------------------------------------
# 6f. the combination logic of real_interval_eval against the model (an `iv` context is injected)
# ---------------------------------------------------------------------------------------------
class FakeI:
    """Interval with exact rational endpoints; the same arithmetic as `tablePrims` in IntervalModel.lean."""
    __slots__ = ("a", "b")

    def __init__(self, a, b):
        self.a, self.b = Fraction(a), Fraction(b)

    @staticmethod
    def of(x):
        return x if isinstance(x, FakeI) else FakeI(Fraction(x), Fraction(x))

    def __add__(self, o):
        o = FakeI.of(o)
        return FakeI(self.a + o.a, self.b + o.b)
    __radd__ = __add__

    def __sub__(self, o):
        o = FakeI.of(o)
        return FakeI(self.a - o.b, self.b - o.a)

    def __rsub__(self, o):
        return FakeI.of(o) - self

    def __neg__(self):
        return FakeI(-self.b, -self.a)

    def __pos__(self):
        return self

    def __mul__(self, o):
        o = FakeI.of(o)
        ps = [self.a * o.a, self.a * o.b, self.b * o.a, self.b * o.b]
        return FakeI(min(ps), max(ps))
    __rmul__ = __mul__

    def __truediv__(self, o):
        o = FakeI.of(o)
        if o.a <= 0 <= o.b:
            raise ZeroDivisionError("interval division by an interval containing 0")
        return self * FakeI(1 / o.b, 1 / o.a)

    def __rtruediv__(self, o):
        return FakeI.of(o) / self

    def __abs__(self):
        if self.a >= 0:
            return self
        if self.b <= 0:
            return FakeI(-self.b, -self.a)
        return FakeI(0, max(-self.a, self.b))

    def __pow__(self, n):
        if not isinstance(n, int) or isinstance(n, bool) or n < 0:
            raise ValueError("FakeI ** %r" % (n,))
        if n == 0:
            return FakeI(1, 1)
        if n % 2 == 1:
            return FakeI(self.a ** n, self.b ** n)
        y = abs(self)
        return FakeI(y.a ** n, y.b ** n)


class FakeIvContext:
    """Stands in for `mpmath.iv` inside real_interval_eval: exact rational interval arithmetic, and
    exp/log/sqrt/sin/cos computed by the real `mpmath.iv` (any enclosure would do) and RECORDED, so that
    the model is given the very same primitive results."""

    def __init__(self, real_iv):
        self.riv = real_iv
        self.prec = 200
        self.calls = []
        import mpmath
        self._to_rational = mpmath.libmp.to_rational
        self.pi_iv = self._out(self.riv.pi)

    def _frac(self, raw):
        p, q = self._to_rational(raw)
        return Fraction(int(p), int(q))

    def _out(self, r):
        return FakeI(self._frac(r._mpi_[0]), self._frac(r._mpi_[1]))

    def _in(self, x):
        lo = self.riv.mpf(x.a.numerator) / self.riv.mpf(x.a.denominator)
        hi = self.riv.mpf(x.b.numerator) / self.riv.mpf(x.b.denominator)
        return self.riv.mpf([lo.a, hi.b])

    def mpf(self, n):
        return FakeI.of(n)

    @property
    def pi(self):
        return self.pi_iv

    def _prim(self, name, x):
        x = FakeI.of(x)
        old = self.riv.prec
        self.riv.prec = 120
        try:
            r = self._out(getattr(self.riv, name)(self._in(x)))
        finally:
            self.riv.prec = old
        self.calls.append((name, x.a, x.b, r.a, r.b))
        return r

    def exp(self, x):
        return self._prim("exp", x)

    def log(self, x):
        return self._prim("log", x)

    def sqrt(self, x):
        return self._prim("sqrt", x)

    def sin(self, x):
        return self._prim("sin", x)

    def cos(self, x):
        return self._prim("cos", x)


def const_inequality_full_stream(ctx, goal_trees):
    """const_inequality through the real check_proof with the injected interval context, against the full
    model `acceptConstInequality (tablePrims …)`: same verdict and same asserted statement."""
    import mpmath
    real_iv = mpmath.iv
    lines, impl = [], []
    for tree in goal_trees:
        try:
            goal = build(tree)
        except Exception:  # noqa
            continue
        fake = FakeIvContext(real_iv)
        mpmath.iv = fake
        try:
            res = run_check("const_inequality", goal)
        finally:
            mpmath.iv = real_iv
        rows = " ".join("(%s %s)" % (c[0], q4(*c[1:])) for c in dict.fromkeys(fake.calls))
        lines.append("(cineq %s (%s) (%s))" % (wire_str(to_wire(goal, {})), rows, q4(fake.pi_iv.a, fake.pi_iv.b)))
        impl.append((tree, goal, res))
    out = ctx.lean_driver(EXE, lines) if lines else []
    if out is None:
        return
    nd = 0
    for (tree, goal, res), o in zip(impl, out):
        ctx.case(("cineq-full", tree), nontrivial=res[0] == "ok")
        ctx.count("cineq-full:%s" % res[0])
        if res[0] == "timeout":
            continue
        m = sexp.loads(o)
        mm = ("ok", sexp.dumps(m[1])) if m[0] == "ok" else ("rej",)
        if res[0] == "ok":
            ii = ("ok", wire_str(to_wire(res[1].prop, {}))) if len(res[1].hyps) == 0 else ("ok-with-hyps",)
        else:
            ii = ("rej",)
        if ii != mm:
            nd += 1
            if nd <= 3:
                ctx.broken("correspondence:c05:const_inequality-full", "goal=%s impl=%s model=%s" % (safe_str(goal), ii[0], o[:160]))
                ctx.coverage["disagreements_checked"] += 1


def q4(*qs):
    return " ".join("%d %d" % (Fraction(q).numerator, Fraction(q).denominator) for q in qs)


def interval_eval_stream(ctx, trees):
    """real_interval_eval, run with the injected interval context, against `ivEval (tablePrims …)`:
    identical endpoints or both refuse."""
    if not hasattr(K.real, "real_interval_eval"):
        ctx.count("interval-eval:function-missing")
        return
    import mpmath
    real_iv = mpmath.iv
    try:
        from integral import inequality
        eval_bounds_fn = getattr(inequality, "eval_bounds", None)
    except Exception:  # noqa
        eval_bounds_fn = None
    lines, impl = [], []
    for tree in trees:
        try:
            t = build(tree)
            if ty_tag(t.checked_get_type()) != "real":
                continue
        except Exception:  # noqa
            continue
        for which, fn in (("ivl", K.real.real_interval_eval), ("bnd", eval_bounds_fn)):
            if fn is None:
                continue
            fake = FakeIvContext(real_iv)
            mpmath.iv = fake
            try:
                with time_limit(20):
                    r = fn(t)
                res = ("ok", Fraction(r[0]), Fraction(r[1]))
            except Timeout:
                res = ("timeout",)
            except Exception as e:  # noqa
                res = ("rej", type(e).__name__)
            finally:
                mpmath.iv = real_iv
            rows = " ".join("(%s %s)" % (c[0], q4(*c[1:])) for c in fake.calls)
            lines.append("(%s %s (%s) (%s))" % (which, wire_str(to_wire(t, {})), rows, q4(fake.pi_iv.a, fake.pi_iv.b)))
            impl.append((tree, t, res, which))
    out = ctx.lean_driver(EXE, lines) if lines else []
    if out is None:
        return
    nd = 0
    for (tree, t, res, which), o in zip(impl, out):
        ctx.case(("interval-eval", which, tree), nontrivial=res[0] == "ok")
        ctx.count("interval-eval:%s:%s" % (which, res[0]))
        if res[0] == "timeout":
            continue
        m = sexp.loads(o)
        if m[0] == "ok":
            mm = ("ok", Fraction(int(m[1][0]), int(m[1][1])), Fraction(int(m[1][2]), int(m[1][3])))
        else:
            mm = ("rej",)
        ii = res if res[0] == "ok" else ("rej",)
        if ii != mm:
            nd += 1
            if nd <= 3:
                ctx.broken("correspondence:c05:interval-eval:" + which, "term=%s impl=%s model=%s" % (safe_str(t), res if res[0] != "ok" else ("ok", float(res[1]), float(res[2])), o[:200]))
                ctx.coverage["disagreements_checked"] += 1


# ---------------------------------------------------------------------------------------------
# 6c. the six accept conditions of eval_inequality_expr against the model (bounds injected)
# ---------------------------------------------------------------------------------------------
def interval_decision_stream(ctx):
    """`eval_inequality_expr` decides from the enclosures returned by `eval_bounds`; the harness injects
    rational enclosures and compares every decision with the Lean `intervalAccept` (whose six conditions
    are proved sound and tight).  A flipped / relaxed comparison shows up here without a numeric witness."""
    from integral import inequality
    if not (hasattr(inequality, "eval_bounds") and hasattr(inequality, "eval_inequality_expr")):
        ctx.count("interval-decision:hook-unavailable")
        ctx.log("interval-decision stream skipped: integral.inequality has no eval_bounds to inject bounds into")
        return
    ta, tb = ["fn", "sqrt", lit("real", 2)], ["fn", "sqrt", lit("real", 3)]
    A, B = build(ta), build(tb)
    vals = [Fraction(0), Fraction(1, 2), Fraction(1), Fraction(3, 2), Fraction(2)]
    ivs = [(lo, hi) for lo in vals for hi in vals if lo <= hi]
    table = {}
    orig = inequality.eval_bounds
    inequality.eval_bounds = lambda t: table[t]
    lines, impl = [], []
    try:
        for rel in NE_RELS:
            tree = ["neg", ["eq", "real", ta, tb]] if rel == "ne" else [rel, "real", ta, tb]
            goal = build(tree)
            for (lo1, hi1) in ivs:
                for (lo2, hi2) in ivs:
                    table[A], table[B] = (lo1, hi1), (lo2, hi2)
                    try:
                        r = inequality.eval_inequality_expr(goal)
                        r = bool(r) if isinstance(r, bool) else ("other", repr(r))
                    except Exception as e:  # noqa
                        r = ("raise", type(e).__name__)
                    impl.append((rel, lo1, hi1, lo2, hi2, r))
                    lines.append("(ineq %s %s)" % (rel, " ".join("%d %d" % (q.numerator, q.denominator) for q in (lo1, hi1, lo2, hi2))))
    finally:
        inequality.eval_bounds = orig
    out = ctx.lean_driver(EXE, lines)
    if out is None:
        return
    nd = 0
    for (rel, lo1, hi1, lo2, hi2, r), o in zip(impl, out):
        ctx.case(("interval-decision", rel, str(lo1), str(hi1), str(lo2), str(hi2)), nontrivial=True)
        ctx.count("interval-decision:%s" % (r if isinstance(r, bool) else r[0]))
        if not isinstance(r, bool) or (o == "T") != r:
            nd += 1
            if nd <= 3:
                ctx.broken("correspondence:c05:interval-decision",
                           "eval_inequality_expr on `sqrt 2 %s sqrt 3` with enclosures [%s,%s] and [%s,%s]: impl=%s model=%s" % (rel, lo1, hi1, lo2, hi2, r, o))
                ctx.coverage["disagreements_checked"] += 1


# ---------------------------------------------------------------------------------------------
# 7. main
# ---------------------------------------------------------------------------------------------
def run(ctx):
    ctx.coverage["rule"] = (
        "goals: ground expressions of type nat/int/real/bool/'a built from zero one bit0 bit1 of_nat of_int Suc + - * unary- / inverse ^ "
        "(nat and real exponents) sqrt pi exp log sin cos tan atn abs, depth <= 4, with canonical and non-canonical numerals, zero divisors, "
        "negative bases, fractional/negative/computed exponents, 10^18..10^40 constants, values differing by 10^-30; right-hand sides aimed at "
        "the true value, at the value a type-blind evaluator computes, and at near misses; relations = < <= > >=, negated, and `⟷ true/false`; "
        "near-equal family: a + d ⋈ b with value(a) = value(b) irrational (pi, sqrt 2, sqrt 2 * sqrt 2 ~ 2, exp(log 3) ~ 3, 10^80 * sqrt 2, ...), "
        "d = ±10^-50..±10^-200 (±1 at the 10^80 scale), six relations, both orders, truth = sign of d; eval_inequality_expr with injected "
        "rational enclosures (15 x 15 enclosure pairs x 6 relations) against the model's accept conditions; "
        "polynomial (non-)identities over x y n; every goal is sent to every trusted arithmetic macro. HISTORIES in one process (history stream): "
        "1200 pairs (true goal, near miss of the same shape: value off by 1 / 1/2 / 1/1000, strictness flipped, negated, the same text at another "
        "type, polynomial identity with a changed constant, shifted comparison equivalence); goals are built, checked by the singleton macro objects "
        "and released (del, gc.collect), then new goal objects -- which reuse the addresses / Term._id of released ones -- are checked by the same "
        "macro objects: all macros interleaved; one macro at a time on the goals it accepted (all true ones, then all near misses; then "
        "alternating twin by twin); finally every near miss after the complete history; every accepted sequent judged by the exact oracle. "
        "A case is (macro, goal); non-trivial = the checker accepted it; distinct by the goal tree.")
    # 1. translated table + Lean obligations (importing every macro module may switch the current theory:
    #    K.load() afterwards makes 'transcendentals' the current one)
    try:
        gen, rows, lvl = gen_lean(ctx)
        if ctx.write_if_changed("Holpy/C05/Gen.lean", gen):
            ctx.log("Gen.lean regenerated (changed)")
        ctx.coverage["macro_table"] = {"default_check_level": lvl, "trusted": [r[0] for r in rows if r[1] is not None and r[1] <= lvl], "n": len(rows)}
    except Exception as e:  # noqa
        rows = []
        ctx.broken("translate:c05:macro-table", "untranslatable: %r" % e)
    K.load()
    proofs_ok = ctx.lean_props(LEAN_MODULES, exes=[EXE])
    if ctx.tier == "thorough" and proofs_ok:
        ctx.lean_check_modules(LEAN_MODULES)
    ctx.coverage["trusted_base"] += [
        "correspondence harness harness/props/c05.py (generators, wire format writer reading Term fields)",
        "the macro table is the live registry kernel.theory.global_macros after importing every module that mentions register_macro / "
        "global_macros (AST scan of the classes and of the check_level default as a cross-check)",
        "oracle: Python fractions.Fraction; mpmath at %d digits for irrational constants, sympy.simplify when the two sides agree to 160 digits "
        "(supporting only, never stands for a theorem)" % MP_DPS]
    ctx.assumptions += [
        "the Lean model speaks about terms of the theory (every constant at an instance of its declared type); for anything else the wire writer "
        "produces an atom and the model rejects. That the implementation rejects such goals too is checked by the forged-constant stream "
        "(fixes/C05-3: check_proof calls Theory.check_term on the argument of a trusted macro)",
        "reals are interpreted in ℚ in the Lean model: real_power only at integer-valued exponents; sqrt/pi/exp/log/trig are atoms there",
        "const_inequality, when real_eval fails on a side: mpmath's iv primitives are trusted to return enclosures; the combination logic of "
        "real_interval_eval IS modelled (ivEval, interval_eval_sound_given_enclosures) and tied by running the Python with an injected exact-rational "
        "interval context; the decision taken from the enclosures is modelled (intervalAccept, sound and tight, interval-decision stream); near-equal "
        "irrational goals with exactly known truth are sent through the real checker",
        "real_norm is modelled (NormModel.lean on top of C10's PolyModel) and compared on every goal; it and real_eq_comparison are also judged by the oracle: valuations 0, 1, -1, x = y, n in {0,1,2} plus random rationals for the free "
        "variables and for opaque subterms"]
    # every trusted macro of the running implementation is classified (the Lean obligation says the same about Gen.lean)
    for name, level, mod in rows:
        if level is not None and level <= lvl and name not in MODELLED + ORACLE_ONLY + BRIDGES:
            ctx.broken("trusted-macro-unclassified", "macro %s (%s) has level %r and is in no list" % (name, mod, level))

    # corpus + directed
    directed = [(g, "directed") for g in directed_goals()] + [(g, "corpus") for g in load_corpus(ctx)]
    rng_env = ctx.rng("envs")
    envs = rand_envs(rng_env)
    ctx.log("theories loaded; %d directed goals" % len(directed))
    have = macro_stream(ctx, directed, "directed", envs_for=lambda g: envs)
    for g, _ in directed[:2]:
        ctx.sample({"goal": g})
    # near-equal irrational comparisons and the accept conditions from injected bounds
    ne_cases = near_equal_cases(ctx)
    near_equal_stream(ctx, ne_cases, macros=NE_MACROS if ctx.tier == "thorough" else ["const_inequality", "real_const_ineq"])
    ctx.sample({"near_equal": ne_cases[0]})
    interval_decision_stream(ctx)
    forged_stream(ctx)
    history_stream(ctx, envs)
    ctx.log("history stream done: %d steps" % ctx.coverage.get("history_steps", 0))
    n_tf = theory_function_stream(ctx)
    iv_trees = [x[3] for x in tf_terms(ctx, theory_function_symbols()) if x[2] == "real"]
    for g in directed_goals():
        gg = g[1] if isinstance(g, list) and g[0] == "neg" else g
        if isinstance(gg, list) and len(gg) == 4 and gg[0] in ("eq", "lt", "le", "gt", "ge") and gg[1] == "real":
            iv_trees += [gg[2], gg[3]]
    for _, a, b in near_equal_bases():
        iv_trees += [a, b]
    rng_iv = ctx.rng("interval-eval")
    iv_trees += [gen_sized_expr_irr(rng_iv, rng_iv.choice([1, 2, 3])) for _ in range(ctx.scale(150, 1500))]
    interval_eval_stream(ctx, iv_trees)
    cg = [g for g in directed_goals()] + [ne_goal_tree(c) for c in near_equal_cases(ctx)[:144]]
    rng_cg = ctx.rng("cineq-full")
    for _ in range(ctx.scale(250, 2500)):
        a = gen_sized_expr_irr(rng_cg, rng_cg.choice([1, 2]))
        b = a if rng_cg.random() < 0.15 else gen_sized_expr_irr(rng_cg, rng_cg.choice([0, 1, 2]))
        rel = rng_cg.choice(["eq", "lt", "le", "gt", "ge", "ne"])
        cg.append(["neg", ["eq", "real", a, b]] if rel == "ne" else [rel, "real", a, b])
    const_inequality_full_stream(ctx, cg)
    ctx.log("theory-function stream done: %d applications, %d const_inequality goals" % n_tf)
    ctx.log("near-equal stream (%d cases) and interval-decision stream done" % len(ne_cases))
    # random ground goals
    rng = ctx.rng("goals")
    goals = [gen_goal(rng) for _ in range(ctx.scale(500, 8000))]
    ctx.log("directed stream done; %d random goals" % len(goals))
    for g, f in goals[:2]:
        ctx.sample({"goal": g, "flavour": f})
    macro_stream(ctx, goals, "random", envs_for=lambda g: envs)
    ctx.log("random stream done")
    den_stream(ctx, goals[: ctx.scale(500, 8000)] + directed)
    # polynomial identities with free variables
    rngp = ctx.rng("poly")
    pgoals = [gen_poly_goal(rngp) for _ in range(ctx.scale(200, 2500))] + [gen_eq_comparison_goal(rngp) for _ in range(ctx.scale(30, 250))]
    ctx.log("den stream done; %d polynomial goals" % len(pgoals))
    macro_stream(ctx, pgoals, "poly", macros=["real_norm", "real_eq_comparison", "real_eval", "real_const_eq", "const_inequality"], envs_for=lambda g: envs)
    ctx.sample({"goal": pgoals[0][0], "flavour": pgoals[0][1]})
    # evaluators
    ctx.log("polynomial stream done")
    rnge = ctx.rng("exprs")
    exprs = [gen_sized_expr(rnge, rnge.choice(["nat", "nat", "int", "real", "real", "real", "other"]), rnge.choice([1, 2, 3, 4])) for _ in range(ctx.scale(800, 12000))]
    exprs += [g[2] for g in directed_goals() if isinstance(g, list) and len(g) == 4] + [g[3] for g in directed_goals() if isinstance(g, list) and len(g) == 4]
    evaluator_stream(ctx, exprs)
    ctx.log("evaluator stream done")
    if not have:
        ctx.broken("correspondence:c05:driver", "model driver unavailable")


def load_corpus(ctx):
    p = os.path.join(ctx.verif, "corpus", "c05.json")
    if os.path.exists(p):
        with open(p) as f:
            return json.load(f)
    return []


def replay(ctx, rp):
    """Re-run one recorded failing input on the implementation; returns True if it still fails."""
    K.load()
    r = rp["replay"]
    if "theory_function" in r:
        # one (evaluator, application) case of the theory-function stream
        ename, tree = r["evaluator"], r["expr"]
        fns = {"nat_eval": K.nat.nat_eval, "int_eval": K.integer.int_eval, "real_eval": K.real.real_eval,
               "real_approx_eval": K.real.real_approx_eval, "real_interval_eval": getattr(K.real, "real_interval_eval", None)}
        vt = build(tree)
        try:
            got = fns[ename](vt)
        except Exception as e:  # noqa
            print("the evaluator now rejects the term (%s)" % type(e).__name__)
            return False
        try:
            kind, v = oracle_value(vt)
        except NoMeaning as e:
            print("still fails: %s returns %s for a term without standard meaning (%s)" % (ename, safe_str(got), e))
            return True
        tv = to_mpf(v)
        if ename == "real_interval_eval":
            bad = not (iv_endpoint(got[0], 0) <= tv <= iv_endpoint(got[1], 1))
        elif ename == "real_approx_eval":
            bad = False
        else:
            bad = not (isinstance(got, (int, Fraction)) and is_exact(v) and Fraction(got) == Fraction(v))
        if bad:
            print("still fails: %s(%s) = %s, value %s" % (ename, safe_str(vt), safe_str(got), mp().nstr(tv, 30)))
        return bad
    if "history" in r:
        # the failing input is a goal after a history of checked and released goals: re-run that history
        ctx.seed, ctx.tier = int(r["history"]["seed"]), r["history"].get("tier", ctx.tier)
        history_stream(ctx, rand_envs(ctx.rng("envs")))
    elif "near_equal" in r:
        near_equal_stream(ctx, [r["near_equal"]], macros=[r["macro"]])
    elif r.get("forged"):
        goal = build(r["goal"])
        res = run_check(r["macro"], goal)
        if res[0] == "ok":
            ctx.violation("forged-constant:%s" % r["macro"], "%s still accepts the forged-constant goal" % r["macro"], r)
    elif "evaluator" in r:
        ctx.lean_driver = lambda *a, **k: None
        evaluator_stream(ctx, [r["expr"]])
    elif "goal" in r:
        envs = rand_envs(ctx.rng("envs"))
        ctx.lean_driver = lambda *a, **k: None
        macro_stream(ctx, [(r["goal"], "replay")], "replay", macros=[r["macro"]], envs_for=lambda g: envs)
    for v in ctx.violations:
        print("still fails:", v[1])
    return bool(ctx.violations)


MANIFEST = {
    "text": "Lean theorems about an executable model (of the fixed code) of nat_eval/int_eval/real_eval and of the eval methods of the "
            "level-0 arithmetic macros nat_eval, int_eval, int_const_ineq, real_eval, real_const_eq, real_compare, real_const_ineq, "
            "const_inequality and real_norm: every accepted one-step proof asserts a statement that is true in the typed standard semantics "
            "(ℕ with truncated subtraction, ℤ, ℚ with x/0 = 0) and is about terms of the type the step is meant for; the numeral reader gives the "
            "standard value for every bit0/bit1 chain, normal form or not (dest_binary_value). real_norm (convert_to_poly on top of the "
            "polynomial layer proved for C10): sound for every assignment respecting numerals and operators, and acceptance is exactly "
            "equality as polynomials over ℚ. const_inequality end to end (const_inequality_sound): over any ordered field with abstract real "
            "functions, if the primitives of the interval context return enclosures and exp/log satisfy exp 0 = 1, log 1 = 0, "
            "exp(p log x) = x^p, then whenever the model accepts a REL b (exact or interval branch of eval_bounds on either side, the "
            "polynomial-equality shortcut, any of the six relations) the values satisfy REL; the pieces: tval_of_realEval, "
            "interval_eval_sound_given_enclosures, poly_eq_tval (K-valued polynomial soundness through MvPolynomial ℕ ℚ), "
            "interval_accept_sound/tight. The table of all registered macros is the live registry and every level-0 macro must be classified "
            "(decide). Ties: differential runs through the real check_proof (all nine macros); const_inequality, real_interval_eval and "
            "eval_bounds run with an injected exact-rational interval context whose primitive calls are recorded and handed to the model "
            "(identical verdicts / endpoints); eval_inequality_expr with injected enclosures; every accepted sequent judged by an independent "
            "exact/high-precision evaluator; every numeric function constant of the theory fed to every evaluator. The Lean models are pure "
            "functions of the goal; that the real macro OBJECTS (singletons of the registry, alive for the whole process) also decide every "
            "goal on its own merits is checked by the history stream: ~15000 one-step proofs in one process in which true goals and false near "
            "misses of every trusted macro are built, checked, released and re-allocated (object churn, address / Term._id reuse, same text at "
            "another type), every acceptance judged by the exact oracle.",
    "note": "Trusted / partial: the enclosure property of mpmath's iv primitives (conversion, + - * / ** abs, exp log sqrt sin cos, pi) and the "
            "three facts about exp/log (FnsSpec) are hypotheses of const_inequality_sound; the value of a term there (tval) is taken in an "
            "abstract ordered field with the library's definitions of tan/cot/sec/csc and of real power. const_inequality_exact_sound_partial "
            "is the older statement about the exact branch in the ℚ semantics (kept; the full model is constInequalityFull). real_norm_macro_sound "
            "is stated over ℚ (the K-valued version is poly_eq_tval inside const_inequality_sound). real_eq_comparison has no Lean model: it "
            "builds a proof term, so it could be checked by expansion (level 1) instead of being trusted — a policy change for the maintainers, not a defect, hence not applied; "
            "until then it is judged by the oracle only (its eval is real_norm_comparison = rewriting + auto.auto_conv on both sides, i.e. the whole "
            "auto/conv machinery; not modelled). History independence of the macros is oracle-checked only (no theorem: the models have no state). "
            "The model speaks about terms of the theory; goals with a constant at a non-instance "
            "of its declared type must be rejected (directed stream, fixes/C05-3). Trusted: Lean kernel, propext/Classical.choice/Quot.sound, "
            "the C10 polynomial files (imported read-only), the harness generators and wire writer, Fraction/mpmath/sympy.",
    "design_ref": "DESIGN.md 4/C05",
}
FINDINGS = [
    {"status": "fixed", "key": "forged-constant:nat_eval", "commit": "9425459",
     "what": "check_proof evaluated trusted macros on goals that are not terms of the theory: nat_eval and const_inequality accepted "
             "|- minus (1::real) 2 = (0::nat) with minus :: real => real => nat (evaluators go by constant names; Theory.check_term was never called)"},
    {"status": "fixed", "key": "wrong-type:nat_eval:real", "commit": "e7db98f",
     "what": "nat_eval accepted |- (1::real) - 2 = 0 (evaluators dispatch on constant names only; the macro had no type guard)"},
    {"status": "fixed", "key": "wrong-type:int_eval:nat", "commit": "e7db98f",
     "what": "int_eval and real_eval accepted |- (1::nat) - 2 + 1 = 0; real_const_eq |- ((1::nat) - 2 + 1 = 0) <--> true; real_compare and "
             "const_inequality |- (1::nat) - 2 < 0 (nat subtraction evaluated as integer subtraction)"},
    {"status": "fixed", "key": "evaluator-no-meaning:nat_eval:[\"uminus\",\"nat\",[\"lit\",\"nat\",\"1\",\"1\"]]", "commit": "e7db98f",
     "what": "nat_eval(-(1::nat)) = -1, so nat_eval accepted |- -(1::nat) + 2 = 1 and real_norm |- of_nat (-(1::nat)) = -1 (is_number also "
             "accepts -n and m/n; uminus has no definition on nat)"},
    {"status": "fixed", "key": "false:const_inequality:[\"gt\",\"real\",[\"fn\",\"sin\",[\"pi\"]],[\"lit\",\"real\",\"0\",\"1\"]]", "commit": "0e957fd",
     "what": "const_inequality decided with Python floats and no margin: accepted |- sin pi > 0, |- ~(sqrt 2 * sqrt 2 = 2), "
             "|- pi + 10^30 + 1 <= pi + 10^30, |- pi + 10^30 - 10^30 < 1, |- 2 ^ (1/2) = 6369051672525773 / 4503599627370496, "
             "|- ~((-8) ^ (1/3) = -2)"},
]
