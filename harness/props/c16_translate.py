"""Tiny Python-AST -> Lean translator for the two pure shadow-combination functions of
prover/omega.py (`combine_real_factoid`, `combine_dark_factoid`).  It never imports the code it
translates.  Anything outside the subset raises Untranslatable (the check then reports the
obligation as no longer checked; it never guesses).

Subset: parameters (first: int, others: tuples of ints); statements `assert e[, msg]`,
`x = e`, `x, y = e1, e2`, `x[k] = e`, `return Factoid(e)`; expressions over ints (+ - * unary -,
`int(a / b)`, `gcd(a, b)`, `len(l)`, `l[e]`, comparisons, `and`), and one list form
`[e for m, n in zip(l1, l2)]`.
"""
import ast
import os


class Untranslatable(Exception):
    pass


FUNCS = ["combine_real_factoid", "combine_dark_factoid"]


class Tr:
    def __init__(self, params):
        self.lists = set(params[1:])
        self.ints = {params[0]}

    # ---- expressions of type Int
    def int_expr(self, e):
        if isinstance(e, ast.Constant) and isinstance(e.value, int) and not isinstance(e.value, bool):
            return "(%d : Int)" % e.value
        if isinstance(e, ast.Name):
            if e.id in self.ints:
                return e.id
            raise Untranslatable("name %s is not a known int" % e.id)
        if isinstance(e, ast.UnaryOp) and isinstance(e.op, ast.USub):
            return "(-%s)" % self.int_expr(e.operand)
        if isinstance(e, ast.BinOp) and isinstance(e.op, (ast.Add, ast.Sub, ast.Mult)):
            op = {ast.Add: "+", ast.Sub: "-", ast.Mult: "*"}[type(e.op)]
            return "(%s %s %s)" % (self.int_expr(e.left), op, self.int_expr(e.right))
        if isinstance(e, ast.Subscript):
            return "(Py.idx %s %s)" % (self.list_expr(e.value), self.int_expr(e.slice))
        if isinstance(e, ast.Call) and isinstance(e.func, ast.Name) and not e.keywords:
            f = e.func.id
            if f == "gcd" and len(e.args) == 2:
                return "(Py.gcd %s %s)" % (self.int_expr(e.args[0]), self.int_expr(e.args[1]))
            if f == "len" and len(e.args) == 1:
                return "(Py.len %s)" % self.list_expr(e.args[0])
            if f == "int" and len(e.args) == 1 and isinstance(e.args[0], ast.BinOp) and isinstance(e.args[0].op, ast.Div):
                d = e.args[0]
                return "(Py.intDiv %s %s)" % (self.int_expr(d.left), self.int_expr(d.right))
        raise Untranslatable("int expression " + ast.dump(e)[:80])

    def list_expr(self, e):
        if isinstance(e, ast.Name) and e.id in self.lists:
            return e.id
        if isinstance(e, ast.ListComp) and len(e.generators) == 1:
            g = e.generators[0]
            if (not g.ifs and not g.is_async and isinstance(g.target, ast.Tuple) and len(g.target.elts) == 2
                    and all(isinstance(t, ast.Name) for t in g.target.elts)
                    and isinstance(g.iter, ast.Call) and isinstance(g.iter.func, ast.Name) and g.iter.func.id == "zip"
                    and len(g.iter.args) == 2 and not g.iter.keywords):
                a, b = (t.id for t in g.target.elts)
                if a in self.lists or b in self.lists or a == b:
                    raise Untranslatable("comprehension variable shadows a list")
                saved = set(self.ints)
                self.ints |= {a, b}
                body = self.int_expr(e.elt)
                self.ints = saved
                return "(List.zipWith (fun %s %s => %s) %s %s)" % (a, b, body, self.list_expr(g.iter.args[0]), self.list_expr(g.iter.args[1]))
        raise Untranslatable("list expression " + ast.dump(e)[:80])

    def bool_expr(self, e):
        if isinstance(e, ast.BoolOp) and isinstance(e.op, ast.And):
            return "(" + " && ".join(self.bool_expr(v) for v in e.values) + ")"
        if isinstance(e, ast.Compare) and len(e.ops) == 1:
            ops = {ast.Lt: "<", ast.Gt: ">", ast.LtE: "≤", ast.GtE: "≥", ast.Eq: "=", ast.NotEq: "≠"}
            if type(e.ops[0]) in ops:
                return "decide (%s %s %s)" % (self.int_expr(e.left), ops[type(e.ops[0])], self.int_expr(e.comparators[0]))
        raise Untranslatable("condition " + ast.dump(e)[:80])

    # ---- statements
    def assign(self, name, value, out):
        try:
            rhs = self.int_expr(value)
            kind = "int"
        except Untranslatable:
            rhs = self.list_expr(value)
            kind = "list"
        out.append("  let %s := %s" % (name, rhs))
        (self.ints if kind == "int" else self.lists).add(name)
        (self.lists if kind == "int" else self.ints).discard(name)

    def stmts(self, body):
        out = []
        for k, st in enumerate(body):
            if isinstance(st, ast.Expr) and isinstance(st.value, ast.Constant) and isinstance(st.value.value, str):
                continue  # docstring
            if isinstance(st, ast.Assert):
                out.append("  if !%s then none else" % self.bool_expr(st.test))
            elif isinstance(st, ast.Assign) and len(st.targets) == 1:
                t = st.targets[0]
                if isinstance(t, ast.Name):
                    self.assign(t.id, st.value, out)
                elif isinstance(t, ast.Tuple) and isinstance(st.value, ast.Tuple) and len(t.elts) == len(st.value.elts) \
                        and all(isinstance(x, ast.Name) for x in t.elts):
                    names = [x.id for x in t.elts]
                    used = {n.id for v in st.value.elts for n in ast.walk(v) if isinstance(n, ast.Name)}
                    if used & set(names):
                        raise Untranslatable("simultaneous assignment reads its own targets")
                    for n, v in zip(names, st.value.elts):
                        self.assign(n, v, out)
                elif isinstance(t, ast.Subscript) and isinstance(t.value, ast.Name) and t.value.id in self.lists:
                    out.append("  let %s := Py.setIdx %s %s %s" % (t.value.id, t.value.id, self.int_expr(t.slice), self.int_expr(st.value)))
                else:
                    raise Untranslatable("assignment target " + ast.dump(t)[:80])
            elif isinstance(st, ast.Return):
                v = st.value
                if not (isinstance(v, ast.Call) and isinstance(v.func, ast.Name) and v.func.id == "Factoid" and len(v.args) == 1 and not v.keywords):
                    raise Untranslatable("return value " + ast.dump(v)[:80])
                if k != len(body) - 1:
                    raise Untranslatable("return is not the last statement")
                out.append("  Py.factoid %s" % self.list_expr(v.args[0]))
                return out
            else:
                raise Untranslatable("statement " + ast.dump(st)[:80])
        raise Untranslatable("function does not end in return")


def translate(repo):
    with open(os.path.join(repo, "prover", "omega.py"), encoding="utf-8") as f:
        tree = ast.parse(f.read())
    found = {n.name: n for n in tree.body if isinstance(n, ast.FunctionDef) and n.name in FUNCS}
    lines = ["/- GENERATED by harness/props/c16_translate.py from prover/omega.py; do not edit. -/",
             "import Holpy.C16.Py", "namespace Holpy.C16.Gen", "open Holpy.C16", ""]
    for name in FUNCS:
        if name not in found:
            raise Untranslatable("function %s not found" % name)
        fn = found[name]
        a = fn.args
        if a.vararg or a.kwarg or a.kwonlyargs or a.defaults or a.posonlyargs or len(a.args) != 3:
            raise Untranslatable("signature of %s" % name)
        params = [x.arg for x in a.args]
        tr = Tr(params)
        body = tr.stmts(fn.body)
        lines.append("def %s (%s : Int) (%s %s : List Int) : Option (List Int) :=" % (name, params[0], params[1], params[2]))
        lines += body
        lines.append("")
    lines.append("end Holpy.C16.Gen")
    return "\n".join(lines) + "\n"


if __name__ == "__main__":
    import sys
    print(translate(sys.argv[1] if len(sys.argv) > 1 else "/repo"))
