"""C03 — term equality is alpha-equivalence; substitution is capture-free.

Stages: (1) Lean obligations Holpy.C03.Props; (2) correspondence of the REAL kernel/term.py,
kernel/type.py, kernel/term_ord.py with the Lean model (driver c03_model) on generated DAG terms,
scripted object histories and parsed terms; (3) property oracles on the implementation's own
outputs that do not use the model: structural comparison on the object fields, independent
re-implementations of the substitution operations, type preservation, the Lean `sem` as the
semantic oracle in small finite models, order axioms on triples.
"""
import copy as _copy
import gc
import hashlib
import json
import os
import pickle
import weakref

from harness.common import sexp
from harness.common import kwire
from harness.common.ctx import Timeout, time_limit

EXE = "c03_model"

SPECS = [
    ([["a", 1], ["b", 2]], [["a", 2], ["b", 1]], [["nat", 2], ["list", 2]], 2),
    ([["a", 2], ["b", 2]], [["a", 1], ["b", 2]], [["nat", 1], ["list", 1]], 1),
    ([["a", 3], ["b", 1]], [["a", 2], ["b", 3]], [["nat", 3], ["list", 2]], 2),
]


# ------------------------------------------------------------------ structural oracle (object fields only)
def tkey(T):
    if T.ty == 0:
        return ("S", T.name)
    if T.ty == 1:
        return ("V", T.name)
    return ("C", T.name, tuple(tkey(a) for a in T.args))


def skey(t):
    """structure of a term read from its fields, suggested bound names erased"""
    ty = t.ty
    if ty == 0:
        return ("sv", t.name, tkey(t.T))
    if ty == 1:
        return ("v", t.name, tkey(t.T))
    if ty == 2:
        return ("c", t.name, tkey(t.T))
    if ty == 3:
        return ("ap", skey(t.fun), skey(t.arg))
    if ty == 4:
        return ("ab", tkey(t.var_T), skey(t.body))
    if ty == 5:
        return ("b", t.n)
    raise TypeError(t)


def wire(t):
    return kwire.term_to(t)


def wstr(t):
    return sexp.dumps(kwire.term_to(t))


# ------------------------------------------------------------------ DAG (sharing-preserving) serialisation for replays
def dag_to(roots):
    """roots: list of terms -> (nodes, root indices); a Python object shared in the input is one node"""
    nodes, index = [], {}

    def go(t):
        k = id(t)
        if k in index:
            return index[k]
        ty = t.ty
        if ty in (0, 1, 2):
            n = [["sv", "v", "c"][ty], t.name, sexp.dumps(kwire.ty_to(t.T))]
        elif ty == 3:
            n = ["ap", go(t.fun), go(t.arg)]
        elif ty == 4:
            n = ["ab", t.var_name, sexp.dumps(kwire.ty_to(t.var_T)), go(t.body)]
        else:
            n = ["b", t.n]
        nodes.append(n)
        index[k] = len(nodes) - 1
        return index[k]
    rs = [go(r) for r in roots]
    return {"nodes": nodes, "roots": rs}


def dag_of(d):
    from kernel import term as T
    objs = []
    for n in d["nodes"]:
        k = n[0]
        if k in ("sv", "v", "c"):
            cls = {"sv": T.SVar, "v": T.Var, "c": T.Const}[k]
            objs.append(cls(n[1], kwire.ty_of(sexp.loads(n[2]))))
        elif k == "ap":
            objs.append(T.Comb(objs[n[1]], objs[n[2]]))
        elif k == "ab":
            objs.append(T.Abs(n[1], kwire.ty_of(sexp.loads(n[2])), objs[n[3]]))
        else:
            objs.append(T.Bound(n[1]))
    return [objs[i] for i in d["roots"]]


def ty_js(T):
    return sexp.dumps(kwire.ty_to(T))


def ty_of_js(s):
    return kwire.ty_of(sexp.loads(s))


# ------------------------------------------------------------------ independent re-implementations (no caches, no sharing)
def o_ty_subst(T, d):
    from kernel.type import TConst
    if T.ty == 0:
        return d[T.name] if T.name in d else T
    if T.ty == 1:
        return T
    return TConst(T.name, *[o_ty_subst(a, d) for a in T.args])


def o_subst_type(t, d):
    from kernel.term import SVar, Var, Const, Comb, Abs, Bound
    ty = t.ty
    if ty == 0:
        return SVar(t.name, o_ty_subst(t.T, d))
    if ty == 1:
        return Var(t.name, o_ty_subst(t.T, d))
    if ty == 2:
        return Const(t.name, o_ty_subst(t.T, d))
    if ty == 3:
        return Comb(o_subst_type(t.fun, d), o_subst_type(t.arg, d))
    if ty == 4:
        return Abs(t.var_name, o_ty_subst(t.var_T, d), o_subst_type(t.body, d))
    return Bound(t.n)


def o_incr(t, inc, lev=0):
    from kernel.term import Comb, Abs, Bound
    ty = t.ty
    if ty == 3:
        return Comb(o_incr(t.fun, inc, lev), o_incr(t.arg, inc, lev))
    if ty == 4:
        return Abs(t.var_name, t.var_T, o_incr(t.body, inc, lev + 1))
    if ty == 5:
        return Bound(t.n + inc) if t.n >= lev else Bound(t.n)
    return t


def o_subst_bound(body, s, n=0):
    """body[s / Bound n], s living outside the n local binders"""
    from kernel.term import Comb, Abs, Bound
    ty = body.ty
    if ty == 3:
        return Comb(o_subst_bound(body.fun, s, n), o_subst_bound(body.arg, s, n))
    if ty == 4:
        return Abs(body.var_name, body.var_T, o_subst_bound(body.body, s, n + 1))
    if ty == 5:
        if body.n == n:
            return o_incr(s, n)
        if body.n > n:
            return Bound(body.n - 1)
        return Bound(body.n)
    return body


def o_abstract(t, x, n=0):
    """None = same name at another type (the implementation raises TermException)"""
    from kernel.term import Comb, Abs, Bound
    ty = t.ty
    if ty in (0, 1):
        if ty == x.ty and t.name == x.name:
            if tkey(t.T) != tkey(x.T):
                raise ValueError("wrong type")
            return Bound(n)
        return t
    if ty == 3:
        return Comb(o_abstract(t.fun, x, n), o_abstract(t.arg, x, n))
    if ty == 4:
        return Abs(t.var_name, t.var_T, o_abstract(t.body, x, n + 1))
    return t


def o_subst_vars(t, svmap, vmap):
    """replace schematic variables / variables by closed terms (by name, as the implementation does)"""
    from kernel.term import Comb, Abs
    ty = t.ty
    if ty == 0:
        return svmap.get(t.name, t)
    if ty == 1:
        return vmap.get(t.name, t)
    if ty == 3:
        return Comb(o_subst_vars(t.fun, svmap, vmap), o_subst_vars(t.arg, svmap, vmap))
    if ty == 4:
        return Abs(t.var_name, t.var_T, o_subst_vars(t.body, svmap, vmap))
    return t


def has_redex(t):
    ty = t.ty
    if ty == 3:
        return t.fun.ty == 4 or has_redex(t.fun) or has_redex(t.arg)
    if ty == 4:
        return has_redex(t.body)
    return False


def close(t, ctx):
    """bind the loose bound variables of a term living under the binder types ctx (innermost first)"""
    from kernel.term import Abs
    for T in ctx:
        t = Abs("_c", T, t)
    return t


def rebuild(t, rename=None):
    """fresh objects for the same structure (no sharing); bound names changed by `rename`"""
    from kernel.term import SVar, Var, Const, Comb, Abs, Bound
    ty = t.ty
    if ty == 0:
        return SVar(t.name, rebuild_ty(t.T))
    if ty == 1:
        return Var(t.name, rebuild_ty(t.T))
    if ty == 2:
        return Const(t.name, rebuild_ty(t.T))
    if ty == 3:
        return Comb(rebuild(t.fun, rename), rebuild(t.arg, rename))
    if ty == 4:
        return Abs(rename(t.var_name) if rename else t.var_name, rebuild_ty(t.var_T), rebuild(t.body, rename))
    return Bound(t.n)


def rebuild_ty(T):
    from kernel.type import STVar, TVar, TConst
    if T.ty == 0:
        return STVar(T.name)
    if T.ty == 1:
        return TVar(T.name)
    return TConst(T.name, *[rebuild_ty(a) for a in T.args])


def term_size(t):
    if t.ty == 3:
        return 1 + term_size(t.fun) + term_size(t.arg)
    if t.ty == 4:
        return 1 + term_size(t.body)
    return 1


# ------------------------------------------------------------------ predicted Python hash from the model's hash tree
class _H:
    """stands for an object whose __hash__ returns h"""
    __slots__ = ("h",)

    def __init__(self, h):
        self.h = h

    def __hash__(self):
        return self.h


def pyhash(tree):
    """hash value Python computes for the nest of tuples described by an HTree s-expression"""
    k = tree[0]
    if k == "t":
        return hash(tuple(_item(x) for x in tree[1:]))
    raise ValueError(tree)


def _item(x):
    k = x[0]
    if k == "s":
        return sexp.dec(x[1])
    if k == "n":
        return int(x[1])
    if k == "t":
        return _H(pyhash(x))
    if k == "h":
        return tuple(pyhash(y) for y in x[1:])
    raise ValueError(x)


# ------------------------------------------------------------------ generator of DAG terms
NAMES = ["x", "y", "z", "p", "q", "f", "g", "u"]
ORDER_NAMES = ["x", "X", "x'", "x1", "x_", "xa", "a", "B", "b", "ab", "α", "_t0"]


class DagGen:
    """type-directed generator like gen_terms.Gen, but (1) sub-OBJECTS are reused on purpose
    whenever a previously built object fits the type and the binder context (also across binder
    depths), (2) conj / disj / Let forms occur, (3) bound names are drawn from the free names."""

    def __init__(self, rng, share=0.3, names=None):
        from harness.common.gen_terms import Gen
        self.rng = rng
        self.g = Gen(rng)
        self.share = share
        self.pool = []      # (obj, type key, {loose index: type key})
        self.names = names or NAMES
        self.nshared = 0

    def ty(self, order=1):
        return self.g.ty(order)

    def atom(self, T):
        rng = self.rng
        r = rng.random()
        n = rng.choice(self.names)
        from kernel.term import Var, SVar, Const
        if r < 0.45:
            return Var(n, T)
        if r < 0.75:
            return SVar(n, T)
        return Const(rng.choice(["c", "d", "false", "k"]), T)

    def _req(self, t, ctx, d=0, out=None):
        if out is None:
            out = {}
        ty = t.ty
        if ty == 3:
            self._req(t.fun, ctx, d, out)
            self._req(t.arg, ctx, d, out)
        elif ty == 4:
            self._req(t.body, ctx, d + 1, out)
        elif ty == 5 and t.n >= d:
            out[t.n - d] = tkey(ctx[t.n - d])
        return out

    def _register(self, t, T, ctx):
        self.pool.append((t, tkey(T), self._req(t, ctx)))
        if len(self.pool) > 80:
            del self.pool[0:20]

    def _reuse(self, T, ctx):
        k = tkey(T)
        cks = [tkey(S) for S in ctx]
        c = [o for (o, k2, req) in self.pool
             if k2 == k and all(i < len(cks) and cks[i] == S for i, S in req.items())]
        return self.rng.choice(c) if c else None

    def term(self, T, depth=3, ctx=()):
        rng = self.rng
        if self.pool and rng.random() < self.share:
            o = self._reuse(T, ctx)
            if o is not None and (o.ty >= 3 or rng.random() < 0.3):
                self.nshared += 1
                return o
        t = self._fresh(T, depth, tuple(ctx))
        self._register(t, T, ctx)
        return t

    def _fresh(self, T, depth, ctx):
        from kernel.type import TFun, BoolType
        from kernel.term import Const, Comb, Abs, Bound
        from harness.common.gen_terms import eq_const, all_const, IMPLIES
        rng = self.rng
        cands = [i for i, S in enumerate(ctx) if S == T]
        r = rng.random()
        if cands and r < 0.3:
            return Bound(rng.choice(cands))
        if depth <= 0 or r < 0.38:
            return self.atom(T)
        if T == BoolType and r < 0.78:
            k = rng.random()
            if k < 0.25:
                S = self.ty(1)
                return Comb(Comb(eq_const(S), self.term(S, depth - 1, ctx)), self.term(S, depth - 1, ctx))
            if k < 0.4:
                return Comb(Comb(IMPLIES, self.term(BoolType, depth - 1, ctx)), self.term(BoolType, depth - 1, ctx))
            if k < 0.7:
                c = Const(rng.choice(["conj", "disj"]), TFun(BoolType, BoolType, BoolType))
                return Comb(Comb(c, self.term(BoolType, depth - 1, ctx)), self.term(BoolType, depth - 1, ctx))
            S = self.ty(1)
            return Comb(all_const(S), Abs(rng.choice(self.names), S, self.term(BoolType, depth - 1, (S,) + ctx)))
        if T.is_fun() and len(T.args) == 2 and r < 0.82:
            return Abs(rng.choice(self.names), T.args[0], self.term(T.args[1], depth - 1, (T.args[0],) + ctx))
        if r < 0.88:
            S = self.ty(0)
            let = Const("Let", TFun(S, TFun(S, T), T))
            return Comb(Comb(let, self.term(S, depth - 1, ctx)),
                        Abs(rng.choice(self.names), S, self.term(T, depth - 1, (S,) + ctx)))
        S = self.ty(1)
        return Comb(self.term(TFun(S, T), depth - 1, ctx), self.term(S, depth - 1, ctx))

    def redex(self, T, depth, ctx):
        """(%x::S. body) arg of type T, argument possibly open"""
        from kernel.term import Comb, Abs
        from kernel.term import Bound
        from kernel.type import TFun
        rng = self.rng
        ctx = tuple(ctx)
        if ctx and rng.random() < 0.6:
            # an OPEN argument: refers to a binder of the context, so that it must be shifted
            # when it is put under the binders of the body
            i = rng.randrange(len(ctx))
            if rng.random() < 0.5:
                S, arg = ctx[i], Bound(i)
            else:
                S = self.ty(0)
                arg = Comb(self.term(TFun(ctx[i], S), 1, ctx), Bound(i))
        else:
            S = self.ty(1)
            arg = self.term(S, max(depth - 1, 1), ctx)
        body = self.under_binders(T, depth, (S,) + ctx)
        return Comb(Abs(rng.choice(self.names), S, body), arg)

    def under_binders(self, T, depth, ctx):
        """a body that uses Bound 0 of ctx at several binder depths"""
        from kernel.term import Comb, Abs, Bound
        from kernel.type import TFun
        rng = self.rng
        if rng.random() < 0.5 or depth <= 0:
            return self.term(T, depth, ctx)
        S = ctx[0]
        U = self.ty(0)
        # f (Bound 0) (%y::U. g (Bound 1) y)  : the bound variable at depth 0 and at depth 1
        inner = Abs(rng.choice(self.names), U, Comb(Comb(self.term(TFun(S, U, T), 1, (U,) + ctx), Bound(1)), Bound(0)))
        return Comb(Comb(self.term(TFun(S, TFun(U, T), T), 1, ctx), Bound(0)), inner)

    def ctx(self):
        rng = self.rng
        n = rng.choice([0, 0, 1, 1, 2, 3])
        return tuple(self.g.base() if rng.random() < 0.8 else self.ty(1) for _ in range(n))


def mutate(rng, t):
    """a structurally close but (usually) different term: one field changed"""
    from kernel.term import SVar, Var, Const, Comb, Abs, Bound
    from kernel.type import TVar, BoolType, TConst
    ty = t.ty
    r = rng.random()
    if ty == 3:
        if r < 0.4:
            return Comb(mutate(rng, t.fun), t.arg)
        if r < 0.8:
            return Comb(t.fun, mutate(rng, t.arg))
        return Comb(t.arg, t.fun)
    if ty == 4:
        if r < 0.35:
            T2 = TConst("list", t.var_T) if r < 0.15 else (TVar("b") if t.var_T != TVar("b") else BoolType)
            return Abs(t.var_name, T2, t.body)
        if r < 0.5:
            return Abs(t.var_name + "'", t.var_T, t.body)     # alpha-variant: stays equal
        return Abs(t.var_name, t.var_T, mutate(rng, t.body))
    if ty == 5:
        return Bound(t.n + 1)
    if r < 0.3:
        return [SVar, Var, Const][(ty + 1) % 3](t.name, t.T)
    if r < 0.6:
        return [SVar, Var, Const][ty](t.name + "'", t.T)
    return [SVar, Var, Const][ty](t.name, TConst("list", t.T))


# ------------------------------------------------------------------ plumbing
class Batch:
    """collects driver lines with a callback per answer; one driver call per stream"""

    def __init__(self, ctx, stream):
        self.ctx, self.stream = ctx, stream
        self.lines, self.cbs = [], []

    def ask(self, expr, cb):
        self.lines.append(sexp.dumps(expr))
        self.cbs.append(cb)

    def flush(self):
        ctx = self.ctx
        if not self.lines:
            return
        out = ctx.lean_driver(EXE, self.lines, timeout=3000)
        if out is None or len(out) != len(self.lines):
            ctx.broken("correspondence:c03:%s:driver" % self.stream, "model driver unavailable or short output (%s lines for %d)" % (None if out is None else len(out), len(self.lines)))
            return
        for line, ans, cb in zip(self.lines, out, self.cbs):
            try:
                cb(sexp.loads(ans) if ans != "bad-op" else "bad-op", line)
            except Exception as e:  # noqa
                ctx.broken("correspondence:c03:%s:callback" % self.stream, "%r on %s -> %s" % (e, line[:300], ans[:200]))
        self.lines, self.cbs = [], []


def digest(obj):
    return hashlib.sha1(json.dumps(obj, sort_keys=True, default=str, ensure_ascii=False).encode()).hexdigest()[:12]


def report(ctx, kind, what, rp, key=None):
    rp = dict(rp, kind=kind)
    ctx.count("VIOLATION:" + kind)
    return ctx.violation(key or ("%s:%s" % (kind, digest(rp))), what, rp)


_nbroken = {}


def mismatch(ctx, stream, detail):
    """model and implementation disagree (not by itself a violation)"""
    ctx.coverage["disagreements_checked"] += 1
    _nbroken[stream] = _nbroken.get(stream, 0) + 1
    if _nbroken[stream] <= 3:
        ctx.broken("correspondence:c03:" + stream, detail)


def pycall(f, *a):
    """('ok', value) | ('err', exception class name)"""
    try:
        with time_limit(20):
            return ("ok", f(*a))
    except Timeout:
        return ("err", "timeout")
    except RecursionError:
        return ("err", "RecursionError")
    except Exception as e:  # noqa
        return ("err", type(e).__name__)


def model_term(ans):
    """driver answer (ok Term)|(err K) -> ('ok', sexp string) | ('err',)"""
    if ans == "bad-op":
        return ("bad-op",)
    if ans[0] == "ok":
        return ("ok", sexp.dumps(ans[1]))
    return ("err", ans[1])


def check_op(ctx, B, stream, opname, line, pres, oracle, rp, want_names=True):
    """pres = pycall result holding a Term; oracle = expected Term | 'raise' | None (no opinion).
    Property part: result structurally equal (up to bound names) to the oracle's.
    Correspondence part: equal to the model's, bound names included."""
    ctx.count("%s:%s" % (opname, pres[0] if pres[0] == "ok" else pres[1]))
    if oracle is not None:
        if isinstance(oracle, str):
            if pres[0] == "ok":
                report(ctx, opname, "%s returned %s where it must refuse" % (opname, pres[1]), rp)
        elif pres[0] == "ok":
            if skey(pres[1]) != skey(oracle):
                report(ctx, opname, "%s returned %s, expected %s (independent re-implementation)" % (opname, wstr(pres[1])[:400], wstr(oracle)[:400]), rp)
        elif pres[1] not in ("RecursionError", "timeout"):
            mismatch(ctx, stream + ":" + opname, "implementation raised %s on %s where the reference succeeds" % (pres[1], sexp.dumps(line)[:400]))
    p = ("ok", wstr(pres[1])) if pres[0] == "ok" else ("err",)

    def cb(ans, ln):
        m = model_term(ans)
        if m[0] == "err" and m[1] == "fuel" or pres[0] == "err" and pres[1] in ("RecursionError", "timeout"):
            ctx.count(opname + ":divergence-or-depth")
            return
        if (m[0], m[1] if m[0] == "ok" else None) != (p[0], p[1] if p[0] == "ok" else None):
            mismatch(ctx, stream + ":" + opname, "%s: python=%s model=%s" % (ln[:500], (pres[0], p[1][:300] if p[0] == "ok" else pres[1]), sexp.dumps(ans)[:300]))
    B.ask(line, cb)


def sem_check(ctx, B, kind, line_head, args, what, rp):
    """ask the semantic oracle in a few finite models; a valuation under which the denotations differ is a violation"""
    nm = ctx.scale(2, 3)
    for si, spec in enumerate(SPECS[:nm]):
        def cb(ans, ln, si=si):
            if ans == "bad-op":
                mismatch(ctx, "sem:" + kind, "bad-op " + ln[:300])
            elif ans[0] == "diff":
                report(ctx, kind + "-denotation", what + " — denotations differ in a finite standard model", dict(rp, model_spec=SPECS[si], valuation=ans[1], sem_line=ln))
            elif ans[0] == "skip":
                ctx.count("sem:skipped")
            else:
                ctx.count("sem:same")
        B.ask([line_head] + args + [spec, ctx.scale(60, 400), ctx.seed * 7919 + si, 400], cb)


def type_of(t):
    return pycall(lambda: t.checked_get_type())


# ------------------------------------------------------------------ stream (a): operations on generated DAG terms
def rp_terms(**kw):
    """replay record: terms as one DAG (sharing kept), the rest as given"""
    names = [k for k, v in kw.items() if hasattr(v, "ty") and hasattr(v, "_id")]
    d = dag_to([kw[k] for k in names])
    out = {k: v for k, v in kw.items() if k not in names}
    out["dag"] = d
    out["dag_names"] = names
    out["sexp"] = {k: wstr(kw[k])[:2000] for k in names}
    return out


def eq_hash_case(ctx, B, t, u, tag):
    """`==` both ways against the structure of the fields; equal terms must hash alike"""
    exp = skey(t) == skey(u)
    r1, r2 = pycall(lambda: t == u), pycall(lambda: u == t)
    ctx.count("eq:%s:%s" % (tag, exp))
    for r in (r1, r2):
        if r != ("ok", exp):
            report(ctx, "eq", "== answered %s on terms whose structures (bound names erased) are %s" % (r, "identical" if exp else "different"),
                   rp_terms(t=t, u=u, expected=exp))
            break
    if exp:
        h1, h2 = pycall(lambda: hash(t)), pycall(lambda: hash(u))
        if h1 != h2 or h1[0] != "ok":
            report(ctx, "hash", "equal terms with different hashes: %s / %s" % (h1, h2), rp_terms(t=t, u=u))

    def cb(ans, ln):
        if ans != ("T" if r1 == ("ok", True) else "F"):
            mismatch(ctx, "a:aeq", "%s: python %s model %s" % (ln[:500], r1, ans))
    B.ask(["aeq", wire(t), wire(u)], cb)

    def cbh(ans, ln):
        # the model's hash trees are equal iff the Python hashes are (collisions aside)
        same = pycall(lambda: hash(t) == hash(u))
        if same != ("ok", ans == "T"):
            mismatch(ctx, "a:hasheq", "%s: hash(t)==hash(u) is %s, model trees equal: %s" % (ln[:500], same, ans))
    B.ask(["hasheq", wire(t), wire(u)], cbh)


def hash_case(ctx, B, t):
    h = pycall(lambda: hash(t))

    def cb(ans, ln):
        if ans == "bad-op" or h[0] != "ok" or pyhash(ans) != h[1]:
            mismatch(ctx, "a:hashtree", "%s: hash(t)=%s, hash of the model's tuple nest=%s" % (ln[:400], h, None if ans == "bad-op" else pyhash(ans)))
    B.ask(["hashtree", wire(t)], cb)


def typing_case(ctx, B, t):
    for op, f in (("gettype", lambda: t.get_type()), ("checktype", lambda: t.checked_get_type())):
        r = pycall(f)
        p = ("ok", sexp.dumps(kwire.ty_to(r[1]))) if r[0] == "ok" else ("err",)
        ctx.count("%s:%s" % (op, r[0] if r[0] == "ok" else r[1]))

        def cb(ans, ln, p=p, r=r):
            m = ("ok", sexp.dumps(ans[1])) if ans != "bad-op" and ans[0] == "ok" else ("err",)
            if m != p:
                mismatch(ctx, "a:typing", "%s: python %s model %s" % (ln[:500], r if r[0] != "ok" else p, ans))
        B.ask([op, wire(t)], cb)


def tyinst_choice(rng, dg):
    from kernel.type import STVar, TConst
    d = dg.g.tyinst()
    r = rng.random()
    if r < 0.2:
        d["a"] = TConst("list", STVar("a"))          # not idempotent
    elif r < 0.35:
        d["a"], d["b"] = STVar("b"), STVar("a")      # swap: must be simultaneous
    return d


def ops_case(ctx, B, rng, dg):
    from kernel.type import TyInst, TFun
    from kernel.term import Term, Var, SVar, Comb, Abs, Lambda, Inst, Bound
    cx = dg.ctx()
    T = dg.ty(2)
    t = dg.term(T, rng.randint(1, 4), cx)
    ct = close(t, cx)
    nontriv = term_size(t) >= 4
    ctx.case(("ops", wstr(ct)), nontrivial=nontriv)
    Tc = type_of(ct)
    if Tc[0] != "ok":
        mismatch(ctx, "a:generator", "generated term is not well-typed: %s" % wstr(ct)[:400])
        return
    # ---- equality / hash
    k = [0]

    def ren(n):
        k[0] += 1
        return rng.choice(NAMES) if rng.random() < 0.5 else "%s%d" % (n, k[0])
    eq_hash_case(ctx, B, t, rebuild(t, ren), "alpha-variant")
    eq_hash_case(ctx, B, t, mutate(rng, t), "mutant")
    hash_case(ctx, B, t)
    typing_case(ctx, B, ct)
    # ---- subst_type
    d = tyinst_choice(rng, dg)
    r = pycall(lambda: t.subst_type(TyInst(**d)))
    rp = rp_terms(t=t, ctx=[ty_js(S) for S in cx], tyinst={n: ty_js(S) for n, S in d.items()})
    check_op(ctx, B, "a", "subst_type", ["substtype", kwire.tyinst_to(d), wire(t)], r, o_subst_type(t, d), rp)
    if r[0] == "ok":
        cr = close(r[1], [o_ty_subst(S, d) for S in cx])
        Tr = type_of(cr)
        if Tr[0] != "ok" or tkey(Tr[1]) != tkey(o_ty_subst(Tc[1], d)):
            report(ctx, "subst_type-type", "subst_type changed the type: %s :: %s became %s" % (wstr(ct)[:300], Tc[1], Tr), rp)
        else:
            sem_check(ctx, B, "subst_type", "semeqty", [kwire.tyinst_to(d), wire(ct), wire(cr)], "subst_type", rp)
    # ---- incr_boundvars
    inc = rng.randint(0, 3)
    r = pycall(lambda: t.incr_boundvars(inc))
    check_op(ctx, B, "a", "incr_boundvars", ["incr", inc, wire(t)], r, o_incr(t, inc), rp_terms(t=t, inc=inc))
    # ---- abstract_over
    vs = [v for v in pycall(lambda: t.get_vars() + t.get_svars())[1]] if True else []
    if vs and rng.random() < 0.85:
        x = rng.choice(vs)
        q = rng.random()
        if q < 0.15:
            x = Var(x.name, dg.ty(1))            # same name, (probably) other type
        elif q < 0.25:
            x = (SVar if x.is_var() else Var)(x.name, x.T)
    else:
        x = dg.atom(dg.ty(1))
        if x.is_const():
            x = Var(x.name, x.T)
    try:
        orc = o_abstract(t, x)
    except ValueError:
        orc = "raise"
    r = pycall(lambda: t.abstract_over(x))
    check_op(ctx, B, "a", "abstract_over", ["abstract", wire(t), wire(x)], r, orc, rp_terms(t=t, x=x))
    if not cx:
        r = pycall(lambda: Lambda(x, t))
        orl = "raise" if isinstance(orc, str) else Abs(x.name, x.T, orc)
        rp = rp_terms(t=t, x=x)
        check_op(ctx, B, "a", "Lambda", ["lambda", wire(x), wire(t)], r, orl, rp)
        if r[0] == "ok":
            Tl = type_of(r[1])
            if Tl[0] != "ok" or tkey(Tl[1]) != tkey(TFun(x.T, Tc[1])):
                report(ctx, "Lambda-type", "Lambda(x, t) :: %s for x :: %s, t :: %s" % (Tl, x.T, Tc[1]), rp)
            else:
                sem_check(ctx, B, "Lambda", "semeq", [wire(Comb(r[1], x)), wire(t)], "(Lambda(x, t)) x against t", rp)
    # ---- subst_bound / beta_conv with a possibly open argument
    rx = dg.redex(dg.ty(1), rng.randint(1, 3), cx)
    lam, arg = rx.fun, rx.arg
    rp = rp_terms(lam=lam, arg=arg, ctx=[ty_js(S) for S in cx])
    ctx.case(("subst_bound", wstr(rx)), nontrivial=term_size(lam) >= 4)
    if pycall(lambda: arg.is_open()) == ("ok", True):
        ctx.count("subst_bound:open-argument")
    r = pycall(lambda: lam.subst_bound(arg))
    check_op(ctx, B, "a", "subst_bound", ["substbound", wire(lam), wire(arg)], r, o_subst_bound(lam.body, arg), rp)
    r2 = pycall(lambda: rx.beta_conv())
    check_op(ctx, B, "a", "beta_conv", ["betaconv", wire(rx)], r2, o_subst_bound(lam.body, arg), rp)
    if r[0] == "ok":
        c0, c1 = close(rx, cx), close(r[1], cx)
        T0, T1 = type_of(c0), type_of(c1)
        if T0[0] != "ok":
            mismatch(ctx, "a:generator", "generated redex is not well-typed: %s" % wstr(c0)[:400])
        elif T1[0] != "ok" or tkey(T1[1]) != tkey(T0[1]):
            report(ctx, "subst_bound-type", "subst_bound changed the type: %s :: %s became %s :: %s" % (wstr(c0)[:300], T0[1], wstr(c1)[:300], T1), rp)
        else:
            sem_check(ctx, B, "subst_bound", "semeq", [wire(c0), wire(c1)], "(%x. body) arg against body[arg/x]", rp)
    # ---- beta_norm
    bt = redex_nest(rng, dg, cx)
    cb0 = close(bt, cx)
    rp = rp_terms(t=bt, ctx=[ty_js(S) for S in cx])
    ctx.case(("beta_norm", wstr(cb0)), nontrivial=has_redex(bt))
    r = pycall(lambda: bt.beta_norm())
    check_op(ctx, B, "a", "beta_norm", ["betanorm", 3000, wire(bt)], r, None, rp)
    if r[0] == "ok":
        if has_redex(r[1]):
            report(ctx, "beta_norm-normal", "beta_norm result still contains a redex: %s" % wstr(r[1])[:400], rp)
        T0, T1 = type_of(cb0), type_of(close(r[1], cx))
        if T0[0] != "ok":
            mismatch(ctx, "a:generator", "generated beta_norm input is not well-typed: %s" % wstr(cb0)[:400])
        elif T1[0] != "ok" or tkey(T1[1]) != tkey(T0[1]):
            report(ctx, "beta_norm-type", "beta_norm changed the type: %s :: %s became %s" % (wstr(cb0)[:300], T0[1], T1), rp)
        else:
            sem_check(ctx, B, "beta_norm", "semeq", [wire(cb0), wire(close(r[1], cx))], "t against t.beta_norm()", rp)
    # ---- subst (closed term)
    subst_case(ctx, B, rng, dg)


def redex_nest(rng, dg, cx):
    """a term with several (nested / shared) redexes under cx"""
    from kernel.term import Comb, Abs
    T = dg.ty(1)
    t = dg.redex(T, 2, cx)
    for _ in range(rng.randint(0, 2)):
        S = dg.ty(0)
        r = rng.random()
        if r < 0.4:      # (%y::S. t) s  -- t weakened is not needed: t is rebuilt under the new binder by the generator
            body = dg.term(T, 2, (S,) + tuple(cx))
            t = Comb(Abs(rng.choice(NAMES), S, body), dg.redex(S, 1, cx))
        elif r < 0.7:    # (%f. f (f? ..)) applied to an abstraction: creates new redexes when reduced
            from kernel.type import TFun
            F = TFun(T, T)
            fb = Comb(__import__("kernel.term", fromlist=["Bound"]).Bound(0), o_incr(t, 1))
            t = Comb(Abs("f", F, fb), Abs(rng.choice(NAMES), T, dg.term(T, 1, (T,) + tuple(cx))))
        else:            # the same redex object twice
            from harness.common.gen_terms import eq_const
            t2 = Comb(Comb(eq_const(T), t), t)
            from kernel.type import BoolType
            T = BoolType
            t = t2
    return t


def subst_case(ctx, B, rng, dg):
    from kernel.type import TyInst
    from kernel.term import Inst
    T = dg.ty(2)
    t = dg.term(T, rng.randint(2, 4), ())
    Tc = type_of(t)
    if Tc[0] != "ok":
        mismatch(ctx, "a:generator", "generated term is not well-typed: %s" % wstr(t)[:400])
        return
    svs = pycall(lambda: t.get_svars())[1]
    vs = pycall(lambda: t.get_vars())[1]
    rng.shuffle(svs)
    tyd = tyinst_choice(rng, dg) if rng.random() < 0.7 else {}
    inst = Inst()
    svmap, vmap = {}, {}
    for v in svs[:rng.randint(0, 3)]:
        if v.name in svmap:
            continue
        S = o_ty_subst(v.T, tyd)
        q = rng.random()
        s = dg.term(S, 2, ()) if q < 0.85 else (dg.term(dg.ty(1), 1, ()) if q < 0.93 else dg.g.bad_term())
        inst[v.name] = s
        svmap[v.name] = s
    if vs and rng.random() < 0.3:
        v = rng.choice(vs)
        s = dg.term(o_ty_subst(v.T, tyd), 2, ())
        inst.var_inst[v.name] = s
        vmap[v.name] = s
    if rng.random() < 0.6:
        inst.tyinst = TyInst(**tyd)
    else:
        inst.tyinst = TyInst(**{k: v for k, v in tyd.items() if rng.random() < 0.5})
    before = kwire.inst_to(inst)
    ctx.case(("subst", wstr(t), sexp.dumps(before)), nontrivial=bool(svmap or vmap))
    rp = rp_terms(t=t, inst=sexp.dumps(before))
    r = pycall(lambda: t.subst(inst))
    final = dict(inst.tyinst)
    orc = None
    if r[0] == "ok":
        orc = o_subst_vars(o_subst_type(t, final), svmap, vmap)
    check_op(ctx, B, "a", "subst", ["subst", before, wire(t)], r, orc, rp)
    if r[0] == "ok":
        Tr = type_of(r[1])
        if Tr[0] != "ok" or tkey(Tr[1]) != tkey(o_ty_subst(Tc[1], final)):
            report(ctx, "subst-type", "subst changed the type: %s :: %s became %s :: %s" % (wstr(t)[:300], Tc[1], wstr(r[1])[:300], Tr), rp)
        else:
            sem_check(ctx, B, "subst", "semsubst", [kwire.inst_to(inst), wire(t), wire(r[1])], "t.subst(inst)", rp)


def stream_ops(ctx):
    rng = ctx.rng("ops")
    B = Batch(ctx, "a")
    n = ctx.scale(220, 5000)
    dg = DagGen(rng)
    for i in range(n):
        if i % 40 == 0:
            dg = DagGen(rng, share=rng.choice([0.15, 0.3, 0.5]))
        ops_case(ctx, B, rng, dg)
        ctx.count("shared-subobject-reuses", dg.nshared)
        dg.nshared = 0
        if len(B.lines) > 20000:
            B.flush()
    # ill-typed / open inputs for the two type functions
    for i in range(ctx.scale(60, 600)):
        typing_case(ctx, B, dg.g.bad_term())
    B.flush()
