"""C03 — term equality is alpha-equivalence; substitution is capture-free.

Stages: (1) Lean obligations Holpy.C03.Props; (2) correspondence of the REAL kernel/term.py,
kernel/type.py, kernel/term_ord.py with the Lean model (driver c03_model) on generated DAG terms,
scripted object histories and parsed terms; (3) property oracles on the implementation's own
outputs that do not use the model: structural comparison on the object fields, independent
re-implementations of the substitution operations, type preservation, the Lean `sem` as the
semantic oracle in small finite models, order axioms on triples.
"""
import copy as _copy
import gc
import hashlib
import json
import os
import pickle
import sys
import weakref

from harness.common import sexp
from harness.common import kwire
from harness.common.ctx import Timeout, time_limit

EXE = "c03_model"

SPECS = [
    ([["a", 1], ["b", 2]], [["a", 2], ["b", 1]], [["nat", 2], ["list", 2]], 2),
    ([["a", 2], ["b", 2]], [["a", 1], ["b", 2]], [["nat", 1], ["list", 1]], 1),
    ([["a", 3], ["b", 1]], [["a", 2], ["b", 3]], [["nat", 3], ["list", 2]], 2),
]


# ------------------------------------------------------------------ structural oracle (object fields only)
def tkey(T):
    if T.ty == 0:
        return ("S", T.name)
    if T.ty == 1:
        return ("V", T.name)
    return ("C", T.name, tuple(tkey(a) for a in T.args))


def skey(t):
    """structure of a term read from its fields, suggested bound names erased"""
    ty = t.ty
    if ty == 0:
        return ("sv", t.name, tkey(t.T))
    if ty == 1:
        return ("v", t.name, tkey(t.T))
    if ty == 2:
        return ("c", t.name, tkey(t.T))
    if ty == 3:
        return ("ap", skey(t.fun), skey(t.arg))
    if ty == 4:
        return ("ab", tkey(t.var_T), skey(t.body))
    if ty == 5:
        return ("b", t.n)
    raise TypeError(t)


def wire(t):
    return kwire.term_to(t)


def wstr(t):
    return sexp.dumps(kwire.term_to(t))


# ------------------------------------------------------------------ DAG (sharing-preserving) serialisation for replays
def dag_to(roots):
    """roots: list of terms -> (nodes, root indices); a Python object shared in the input is one node"""
    nodes, index = [], {}

    def go(t):
        k = id(t)
        if k in index:
            return index[k]
        ty = t.ty
        if ty in (0, 1, 2):
            n = [["sv", "v", "c"][ty], t.name, sexp.dumps(kwire.ty_to(t.T))]
        elif ty == 3:
            n = ["ap", go(t.fun), go(t.arg)]
        elif ty == 4:
            n = ["ab", t.var_name, sexp.dumps(kwire.ty_to(t.var_T)), go(t.body)]
        else:
            n = ["b", t.n]
        nodes.append(n)
        index[k] = len(nodes) - 1
        return index[k]
    rs = [go(r) for r in roots]
    return {"nodes": nodes, "roots": rs}


def dag_of(d):
    from kernel import term as T
    objs = []
    for n in d["nodes"]:
        k = n[0]
        if k in ("sv", "v", "c"):
            cls = {"sv": T.SVar, "v": T.Var, "c": T.Const}[k]
            objs.append(cls(n[1], kwire.ty_of(sexp.loads(n[2]))))
        elif k == "ap":
            objs.append(T.Comb(objs[n[1]], objs[n[2]]))
        elif k == "ab":
            objs.append(T.Abs(n[1], kwire.ty_of(sexp.loads(n[2])), objs[n[3]]))
        else:
            objs.append(T.Bound(n[1]))
    return [objs[i] for i in d["roots"]]


def ty_js(T):
    return sexp.dumps(kwire.ty_to(T))


def ty_of_js(s):
    return kwire.ty_of(sexp.loads(s))


# ------------------------------------------------------------------ independent re-implementations (no caches, no sharing)
def o_ty_subst(T, d):
    from kernel.type import TConst
    if T.ty == 0:
        return d[T.name] if T.name in d else T
    if T.ty == 1:
        return T
    return TConst(T.name, *[o_ty_subst(a, d) for a in T.args])


def o_subst_type(t, d):
    from kernel.term import SVar, Var, Const, Comb, Abs, Bound
    ty = t.ty
    if ty == 0:
        return SVar(t.name, o_ty_subst(t.T, d))
    if ty == 1:
        return Var(t.name, o_ty_subst(t.T, d))
    if ty == 2:
        return Const(t.name, o_ty_subst(t.T, d))
    if ty == 3:
        return Comb(o_subst_type(t.fun, d), o_subst_type(t.arg, d))
    if ty == 4:
        return Abs(t.var_name, o_ty_subst(t.var_T, d), o_subst_type(t.body, d))
    return Bound(t.n)


def o_incr(t, inc, lev=0):
    from kernel.term import Comb, Abs, Bound
    ty = t.ty
    if ty == 3:
        return Comb(o_incr(t.fun, inc, lev), o_incr(t.arg, inc, lev))
    if ty == 4:
        return Abs(t.var_name, t.var_T, o_incr(t.body, inc, lev + 1))
    if ty == 5:
        return Bound(t.n + inc) if t.n >= lev else Bound(t.n)
    return t


def o_subst_bound(body, s, n=0):
    """body[s / Bound n], s living outside the n local binders"""
    from kernel.term import Comb, Abs, Bound
    ty = body.ty
    if ty == 3:
        return Comb(o_subst_bound(body.fun, s, n), o_subst_bound(body.arg, s, n))
    if ty == 4:
        return Abs(body.var_name, body.var_T, o_subst_bound(body.body, s, n + 1))
    if ty == 5:
        if body.n == n:
            return o_incr(s, n)
        if body.n > n:
            return Bound(body.n - 1)
        return Bound(body.n)
    return body


def o_abstract(t, x, n=0):
    """None = same name at another type (the implementation raises TermException)"""
    from kernel.term import Comb, Abs, Bound
    ty = t.ty
    if ty in (0, 1):
        if ty == x.ty and t.name == x.name:
            if tkey(t.T) != tkey(x.T):
                raise ValueError("wrong type")
            return Bound(n)
        return t
    if ty == 3:
        return Comb(o_abstract(t.fun, x, n), o_abstract(t.arg, x, n))
    if ty == 4:
        return Abs(t.var_name, t.var_T, o_abstract(t.body, x, n + 1))
    return t


def o_subst_vars(t, svmap, vmap):
    """replace schematic variables / variables by closed terms (by name, as the implementation does)"""
    from kernel.term import Comb, Abs
    ty = t.ty
    if ty == 0:
        return svmap.get(t.name, t)
    if ty == 1:
        return vmap.get(t.name, t)
    if ty == 3:
        return Comb(o_subst_vars(t.fun, svmap, vmap), o_subst_vars(t.arg, svmap, vmap))
    if ty == 4:
        return Abs(t.var_name, t.var_T, o_subst_vars(t.body, svmap, vmap))
    return t


def has_redex(t):
    ty = t.ty
    if ty == 3:
        return t.fun.ty == 4 or has_redex(t.fun) or has_redex(t.arg)
    if ty == 4:
        return has_redex(t.body)
    return False


def close(t, ctx):
    """bind the loose bound variables of a term living under the binder types ctx (innermost first)"""
    from kernel.term import Abs
    for T in ctx:
        t = Abs("_c", T, t)
    return t


def rebuild(t, rename=None):
    """fresh objects for the same structure (no sharing); bound names changed by `rename`"""
    from kernel.term import SVar, Var, Const, Comb, Abs, Bound
    ty = t.ty
    if ty == 0:
        return SVar(t.name, rebuild_ty(t.T))
    if ty == 1:
        return Var(t.name, rebuild_ty(t.T))
    if ty == 2:
        return Const(t.name, rebuild_ty(t.T))
    if ty == 3:
        return Comb(rebuild(t.fun, rename), rebuild(t.arg, rename))
    if ty == 4:
        return Abs(rename(t.var_name) if rename else t.var_name, rebuild_ty(t.var_T), rebuild(t.body, rename))
    return Bound(t.n)


def rebuild_ty(T):
    from kernel.type import STVar, TVar, TConst
    if T.ty == 0:
        return STVar(T.name)
    if T.ty == 1:
        return TVar(T.name)
    return TConst(T.name, *[rebuild_ty(a) for a in T.args])


def term_size(t):
    if t.ty == 3:
        return 1 + term_size(t.fun) + term_size(t.arg)
    if t.ty == 4:
        return 1 + term_size(t.body)
    return 1


# ------------------------------------------------------------------ predicted Python hash from the model's hash tree
class _H:
    """stands for an object whose __hash__ returns h"""
    __slots__ = ("h",)

    def __init__(self, h):
        self.h = h

    def __hash__(self):
        return self.h


def pyhash(tree):
    """hash value Python computes for the nest of tuples described by an HTree s-expression"""
    k = tree[0]
    if k == "t":
        return hash(tuple(_item(x) for x in tree[1:]))
    raise ValueError(tree)


def _item(x):
    k = x[0]
    if k == "s":
        return sexp.dec(x[1])
    if k == "n":
        return int(x[1])
    if k == "t":
        return _H(pyhash(x))
    if k == "h":
        return tuple(pyhash(y) for y in x[1:])
    raise ValueError(x)


# ------------------------------------------------------------------ generator of DAG terms
NAMES = ["x", "y", "z", "p", "q", "f", "g", "u"]
ORDER_NAMES = ["x", "X", "x'", "x1", "x_", "xa", "a", "B", "b", "ab", "α", "_t0"]


class DagGen:
    """type-directed generator like gen_terms.Gen, but (1) sub-OBJECTS are reused on purpose
    whenever a previously built object fits the type and the binder context (also across binder
    depths), (2) conj / disj / Let forms occur, (3) bound names are drawn from the free names."""

    def __init__(self, rng, share=0.3, names=None):
        from harness.common.gen_terms import Gen
        self.rng = rng
        self.g = Gen(rng)
        self.share = share
        self.pool = []      # (obj, type key, {loose index: type key})
        self.names = names or NAMES
        self.nshared = 0

    def ty(self, order=1):
        return self.g.ty(order)

    def atom(self, T):
        rng = self.rng
        r = rng.random()
        n = rng.choice(self.names)
        from kernel.term import Var, SVar, Const
        if r < 0.45:
            return Var(n, T)
        if r < 0.75:
            return SVar(n, T)
        return Const(rng.choice(["c", "d", "false", "k"]), T)

    def _req(self, t, ctx, d=0, out=None):
        if out is None:
            out = {}
        ty = t.ty
        if ty == 3:
            self._req(t.fun, ctx, d, out)
            self._req(t.arg, ctx, d, out)
        elif ty == 4:
            self._req(t.body, ctx, d + 1, out)
        elif ty == 5 and t.n >= d:
            out[t.n - d] = tkey(ctx[t.n - d])
        return out

    def _register(self, t, T, ctx):
        self.pool.append((t, tkey(T), self._req(t, ctx)))
        if len(self.pool) > 80:
            del self.pool[0:20]

    def _reuse(self, T, ctx):
        k = tkey(T)
        cks = [tkey(S) for S in ctx]
        c = [o for (o, k2, req) in self.pool
             if k2 == k and all(i < len(cks) and cks[i] == S for i, S in req.items())]
        return self.rng.choice(c) if c else None

    def term(self, T, depth=3, ctx=()):
        rng = self.rng
        if self.pool and rng.random() < self.share:
            o = self._reuse(T, ctx)
            if o is not None and (o.ty >= 3 or rng.random() < 0.3):
                self.nshared += 1
                return o
        t = self._fresh(T, depth, tuple(ctx))
        self._register(t, T, ctx)
        return t

    def _fresh(self, T, depth, ctx):
        from kernel.type import TFun, BoolType
        from kernel.term import Const, Comb, Abs, Bound
        from harness.common.gen_terms import eq_const, all_const, IMPLIES
        rng = self.rng
        cands = [i for i, S in enumerate(ctx) if S == T]
        r = rng.random()
        if cands and r < 0.3:
            return Bound(rng.choice(cands))
        if depth <= 0 or r < 0.38:
            return self.atom(T)
        if T == BoolType and r < 0.78:
            k = rng.random()
            if k < 0.25:
                S = self.ty(1)
                return Comb(Comb(eq_const(S), self.term(S, depth - 1, ctx)), self.term(S, depth - 1, ctx))
            if k < 0.4:
                return Comb(Comb(IMPLIES, self.term(BoolType, depth - 1, ctx)), self.term(BoolType, depth - 1, ctx))
            if k < 0.7:
                c = Const(rng.choice(["conj", "disj"]), TFun(BoolType, BoolType, BoolType))
                return Comb(Comb(c, self.term(BoolType, depth - 1, ctx)), self.term(BoolType, depth - 1, ctx))
            S = self.ty(1)
            return Comb(all_const(S), Abs(rng.choice(self.names), S, self.term(BoolType, depth - 1, (S,) + ctx)))
        if T.is_fun() and len(T.args) == 2 and r < 0.82:
            return Abs(rng.choice(self.names), T.args[0], self.term(T.args[1], depth - 1, (T.args[0],) + ctx))
        if r < 0.88:
            S = self.ty(0)
            let = Const("Let", TFun(S, TFun(S, T), T))
            return Comb(Comb(let, self.term(S, depth - 1, ctx)),
                        Abs(rng.choice(self.names), S, self.term(T, depth - 1, (S,) + ctx)))
        S = self.ty(1)
        return Comb(self.term(TFun(S, T), depth - 1, ctx), self.term(S, depth - 1, ctx))

    def redex(self, T, depth, ctx):
        """(%x::S. body) arg of type T, argument possibly open"""
        from kernel.term import Comb, Abs
        from kernel.term import Bound
        from kernel.type import TFun
        rng = self.rng
        ctx = tuple(ctx)
        if ctx and rng.random() < 0.6:
            # an OPEN argument: refers to a binder of the context, so that it must be shifted
            # when it is put under the binders of the body
            i = rng.randrange(len(ctx))
            if rng.random() < 0.5:
                S, arg = ctx[i], Bound(i)
            else:
                S = self.ty(0)
                arg = Comb(self.term(TFun(ctx[i], S), 1, ctx), Bound(i))
        else:
            S = self.ty(1)
            arg = self.term(S, max(depth - 1, 1), ctx)
        body = self.under_binders(T, depth, (S,) + ctx)
        return Comb(Abs(rng.choice(self.names), S, body), arg)

    def under_binders(self, T, depth, ctx):
        """a body that uses Bound 0 of ctx at several binder depths"""
        from kernel.term import Comb, Abs, Bound
        from kernel.type import TFun
        rng = self.rng
        if rng.random() < 0.5 or depth <= 0:
            return self.term(T, depth, ctx)
        S = ctx[0]
        U = self.ty(0)
        if rng.random() < 0.5:
            # the SAME object `s = f (Bound 0)` at depth 0, where Bound 0 is the variable of the
            # binder being eliminated, and under `%y::S`, where Bound 0 is y:
            #   h s (%y::S. k s (Bound 1))
            s = Comb(self.atom(TFun(S, U)), Bound(0))
            inner = Abs(rng.choice(self.names), S, Comb(Comb(self.atom(TFun(U, S, T)), s), Bound(1)))
            return Comb(Comb(self.atom(TFun(U, TFun(S, T), T)), s), inner)
        # f (Bound 0) (%y::U. g (Bound 1) y)  : the bound variable at depth 0 and at depth 1
        inner = Abs(rng.choice(self.names), U, Comb(Comb(self.term(TFun(S, U, T), 1, (U,) + ctx), Bound(1)), Bound(0)))
        return Comb(Comb(self.term(TFun(S, TFun(U, T), T), 1, ctx), Bound(0)), inner)

    def ctx(self):
        rng = self.rng
        n = rng.choice([0, 0, 1, 1, 2, 3])
        return tuple(self.g.base() if rng.random() < 0.8 else self.ty(1) for _ in range(n))


def mutate(rng, t):
    """a structurally close but (usually) different term: one field changed"""
    from kernel.term import SVar, Var, Const, Comb, Abs, Bound
    from kernel.type import TVar, BoolType, TConst
    ty = t.ty
    r = rng.random()
    if ty == 3:
        if r < 0.4:
            return Comb(mutate(rng, t.fun), t.arg)
        if r < 0.8:
            return Comb(t.fun, mutate(rng, t.arg))
        return Comb(t.arg, t.fun)
    if ty == 4:
        if r < 0.35:
            T2 = TConst("list", t.var_T) if r < 0.15 else (TVar("b") if t.var_T != TVar("b") else BoolType)
            return Abs(t.var_name, T2, t.body)
        if r < 0.5:
            return Abs(t.var_name + "'", t.var_T, t.body)     # alpha-variant: stays equal
        return Abs(t.var_name, t.var_T, mutate(rng, t.body))
    if ty == 5:
        return Bound(t.n + 1)
    if r < 0.3:
        return [SVar, Var, Const][(ty + 1) % 3](t.name, t.T)
    if r < 0.6:
        return [SVar, Var, Const][ty](t.name + "'", t.T)
    return [SVar, Var, Const][ty](t.name, TConst("list", t.T))


# ------------------------------------------------------------------ plumbing
class Batch:
    """collects driver lines with a callback per answer; one driver call per stream"""

    def __init__(self, ctx, stream):
        self.ctx, self.stream = ctx, stream
        self.lines, self.cbs = [], []

    def ask(self, expr, cb):
        self.lines.append(sexp.dumps(expr))
        self.cbs.append(cb)

    def flush(self):
        ctx = self.ctx
        if not self.lines:
            return
        out = ctx.lean_driver(EXE, self.lines, timeout=3000)
        if out is None or len(out) != len(self.lines):
            ctx.broken("correspondence:c03:%s:driver" % self.stream, "model driver unavailable or short output (%s lines for %d)" % (None if out is None else len(out), len(self.lines)))
            return
        for line, ans, cb in zip(self.lines, out, self.cbs):
            try:
                cb(sexp.loads(ans) if ans != "bad-op" else "bad-op", line)
            except Exception as e:  # noqa
                ctx.broken("correspondence:c03:%s:callback" % self.stream, "%r on %s -> %s" % (e, line[:300], ans[:200]))
        self.lines, self.cbs = [], []


def digest(obj):
    return hashlib.sha1(json.dumps(obj, sort_keys=True, default=str, ensure_ascii=False).encode()).hexdigest()[:12]


def report(ctx, kind, what, rp, key=None):
    rp = dict(rp, kind=kind)
    ctx.count("VIOLATION:" + kind)
    return ctx.violation(key or ("%s:%s" % (kind, digest(rp))), what, rp)


_nbroken = {}


def mismatch(ctx, stream, detail):
    """model and implementation disagree (not by itself a violation)"""
    ctx.coverage["disagreements_checked"] += 1
    _nbroken[stream] = _nbroken.get(stream, 0) + 1
    if _nbroken[stream] <= 3:
        ctx.broken("correspondence:c03:" + stream, detail)


def pycall(f, *a):
    """('ok', value) | ('err', exception class name)"""
    try:
        with time_limit(20):
            return ("ok", f(*a))
    except Timeout:
        return ("err", "timeout")
    except RecursionError:
        return ("err", "RecursionError")
    except Exception as e:  # noqa
        return ("err", type(e).__name__)


def pycall_long(f, *a):
    """as pycall, with a 60 s limit and a recursion limit of 40000 (confirmation of a non-termination)"""
    lim = sys.getrecursionlimit()
    try:
        sys.setrecursionlimit(max(lim, 40000))
        with time_limit(60):
            return ("ok", f(*a))
    except Timeout:
        return ("err", "timeout")
    except RecursionError:
        return ("err", "RecursionError")
    except Exception as e:  # noqa
        return ("err", type(e).__name__)
    finally:
        sys.setrecursionlimit(lim)


def model_term(ans):
    """driver answer (ok Term)|(err K) -> ('ok', sexp string) | ('err',)"""
    if ans == "bad-op":
        return ("bad-op",)
    if ans[0] == "ok":
        return ("ok", sexp.dumps(ans[1]))
    return ("err", ans[1])


def check_op(ctx, B, stream, opname, line, pres, oracle, rp, want_names=True):
    """pres = pycall result holding a Term; oracle = expected Term | 'raise' | None (no opinion).
    Property part: result structurally equal (up to bound names) to the oracle's.
    Correspondence part: equal to the model's, bound names included."""
    ctx.count("%s:%s" % (opname, pres[0] if pres[0] == "ok" else pres[1]))
    if oracle is not None:
        if isinstance(oracle, str):
            if pres[0] == "ok":
                report(ctx, opname, "%s returned %s where it must refuse" % (opname, pres[1]), rp)
        elif pres[0] == "ok":
            if skey(pres[1]) != skey(oracle):
                report(ctx, opname, "%s returned %s, expected %s (independent re-implementation)" % (opname, wstr(pres[1])[:400], wstr(oracle)[:400]), rp)
        elif pres[1] not in ("RecursionError", "timeout"):
            mismatch(ctx, stream + ":" + opname, "implementation raised %s on %s where the reference succeeds" % (pres[1], sexp.dumps(line)[:400]))
    p = ("ok", wstr(pres[1])) if pres[0] == "ok" else ("err",)
    pa = sexp.dumps(kwire.canon_term(wire(pres[1]))) if pres[0] == "ok" else None

    def cb(ans, ln):
        m = model_term(ans)
        if m[0] == "err" and m[1] == "fuel" or pres[0] == "err" and pres[1] in ("RecursionError", "timeout"):
            ctx.count(opname + ":divergence-or-depth")
            return
        # the property speaks of terms up to `==`: the model's answer and the implementation's
        # have to be alpha-equivalent; the suggested bound names are reported as information only
        ma = sexp.dumps(kwire.canon_term(ans[1])) if m[0] == "ok" else None
        if (m[0], ma) != (p[0], pa):
            mismatch(ctx, stream + ":" + opname, "%s: python=%s model=%s" % (ln[:500], (pres[0], p[1][:300] if p[0] == "ok" else pres[1]), sexp.dumps(ans)[:300]))
        elif m[0] == "ok" and m[1] != p[1]:
            ctx.count("info:bound-names-differ-from-model:" + opname)
    B.ask(line, cb)


def sem_check(ctx, B, kind, line_head, args, what, rp):
    """ask the semantic oracle in a few finite models; a valuation under which the denotations differ is a violation"""
    nm = ctx.scale(2, 3)
    for si, spec in enumerate(SPECS[:nm]):
        def cb(ans, ln, si=si):
            if ans == "bad-op":
                mismatch(ctx, "sem:" + kind, "bad-op " + ln[:300])
            elif ans[0] == "diff":
                report(ctx, kind + "-denotation", what + " — denotations differ in a finite standard model", dict(rp, model_spec=SPECS[si], valuation=ans[1], sem_line=ln))
            elif ans[0] == "skip":
                ctx.count("sem:skipped")
            else:
                ctx.count("sem:same")
        B.ask([line_head] + args + [spec, ctx.scale(60, 150), ctx.seed * 7919 + si, 400], cb)


def type_of(t):
    return pycall(lambda: t.checked_get_type())


# ------------------------------------------------------------------ stream (a): operations on generated DAG terms
def rp_terms(**kw):
    """replay record: terms as one DAG (sharing kept), the rest as given"""
    names = [k for k, v in kw.items() if hasattr(v, "ty") and hasattr(v, "_id")]
    d = dag_to([kw[k] for k in names])
    out = {k: v for k, v in kw.items() if k not in names}
    out["dag"] = d
    out["dag_names"] = names
    out["sexp"] = {k: wstr(kw[k])[:2000] for k in names}
    return out


def eq_hash_case(ctx, B, t, u, tag):
    """`==` both ways against the structure of the fields; equal terms must hash alike"""
    exp = skey(t) == skey(u)
    r1, r2 = pycall(lambda: t == u), pycall(lambda: u == t)
    ctx.count("eq:%s:%s" % (tag, exp))
    for r in (r1, r2):
        if r != ("ok", exp):
            report(ctx, "eq", "== answered %s on terms whose structures (bound names erased) are %s" % (r, "identical" if exp else "different"),
                   rp_terms(t=t, u=u, expected=exp))
            break
    if exp:
        h1, h2 = pycall(lambda: hash(t)), pycall(lambda: hash(u))
        if h1 != h2 or h1[0] != "ok":
            report(ctx, "hash", "equal terms with different hashes: %s / %s" % (h1, h2), rp_terms(t=t, u=u))

    def cb(ans, ln):
        if ans != ("T" if r1 == ("ok", True) else "F"):
            mismatch(ctx, "a:aeq", "%s: python %s model %s" % (ln[:500], r1, ans))
    B.ask(["aeq", wire(t), wire(u)], cb)

    def cbh(ans, ln):
        # information only (how __hash__ builds its value is not part of the property): does
        # "model trees equal" coincide with "Python hashes equal"?
        same = pycall(lambda: hash(t) == hash(u))
        ctx.count("info:hash-nest-%s" % ("agrees-with-model" if same == ("ok", ans == "T") else "differs-from-model"))
    B.ask(["hasheq", wire(t), wire(u)], cbh)


def hash_case(ctx, B, t):
    """information only: is hash(t) the hash of the tuple nest of the model?  (A __hash__ that is
    built differently but still gives equal terms equal hashes satisfies the property.)"""
    h = pycall(lambda: hash(t))

    def cb(ans, ln):
        try:
            same = ans != "bad-op" and h[0] == "ok" and pyhash(ans) == h[1]
        except Exception:  # noqa
            same = False
        ctx.count("info:hash-value-%s" % ("is-the-model-nest" if same else "is-not-the-model-nest"))
    B.ask(["hashtree", wire(t)], cb)


def typing_case(ctx, B, t):
    for op, f in (("gettype", lambda: t.get_type()), ("checktype", lambda: t.checked_get_type())):
        r = pycall(f)
        p = ("ok", sexp.dumps(kwire.ty_to(r[1]))) if r[0] == "ok" else ("err",)
        ctx.count("%s:%s" % (op, r[0] if r[0] == "ok" else r[1]))

        def cb(ans, ln, p=p, r=r):
            m = ("ok", sexp.dumps(ans[1])) if ans != "bad-op" and ans[0] == "ok" else ("err",)
            if m != p:
                mismatch(ctx, "a:typing", "%s: python %s model %s" % (ln[:500], r if r[0] != "ok" else p, ans))
        B.ask([op, wire(t)], cb)


def tyinst_choice(rng, dg):
    from kernel.type import STVar, TConst
    d = dg.g.tyinst()
    r = rng.random()
    if r < 0.2:
        d["a"] = TConst("list", STVar("a"))          # not idempotent
    elif r < 0.35:
        d["a"], d["b"] = STVar("b"), STVar("a")      # swap: must be simultaneous
    return d


def mk_events(d):
    """`dag_to` nodes as (mk A NODE) events for the heap ops of the driver"""
    evs = []
    for i, nd in enumerate(d["nodes"]):
        k = nd[0]
        if k in ("sv", "v", "c"):
            node = [k, sexp.enc(nd[1]), sexp.loads(nd[2])]
        elif k == "ap":
            node = ["ap", nd[1], nd[2]]
        elif k == "ab":
            node = ["ab", sexp.enc(nd[1]), sexp.loads(nd[2]), nd[3]]
        else:
            node = ["b", nd[1]]
        evs.append(["mk", i, node])
    return evs


def heap_tie(ctx, B, name, line, result):
    """the heap-level model of an operation (with its _id caches / short cuts) against the
    implementation's result, up to bound names"""
    want = sexp.dumps(kwire.canon_term(wire(result)))

    def cb(ans, ln, want=want):
        got = sexp.dumps(kwire.canon_term(ans[1])) if ans != "bad-op" and ans[0] == "ok" else None
        ctx.count("%s:heap-model-%s" % (name, "agrees" if got == want else "differs"))
        if got != want:
            mismatch(ctx, "a:%s-heap" % name, "%s: python %s, heap model %s" % (ln[:400], want[:300], (got or str(ans))[:300]))
    B.ask(line, cb)


def ops_case(ctx, B, rng, dg):
    from kernel.type import TyInst, TFun
    from kernel.term import Term, Var, SVar, Comb, Abs, Lambda, Inst, Bound
    cx = dg.ctx()
    T = dg.ty(2)
    t = dg.term(T, rng.randint(1, 4), cx)
    ct = close(t, cx)
    nontriv = term_size(t) >= 4
    ctx.case(("ops", wstr(ct)), nontrivial=nontriv)
    Tc = type_of(ct)
    if Tc[0] != "ok":
        mismatch(ctx, "a:generator", "generated term is not well-typed: %s" % wstr(ct)[:400])
        return
    # ---- equality / hash
    k = [0]

    def ren(n):
        k[0] += 1
        return rng.choice(NAMES) if rng.random() < 0.5 else "%s%d" % (n, k[0])
    eq_hash_case(ctx, B, t, rebuild(t, ren), "alpha-variant")
    eq_hash_case(ctx, B, t, mutate(rng, t), "mutant")
    hash_case(ctx, B, t)
    typing_case(ctx, B, ct)
    # ---- subst_type
    d = tyinst_choice(rng, dg)
    r = pycall(lambda: t.subst_type(TyInst(**d)))
    rp = rp_terms(t=t, ctx=[ty_js(S) for S in cx], tyinst={n: ty_js(S) for n, S in d.items()})
    check_op(ctx, B, "a", "subst_type", ["substtype", kwire.tyinst_to(d), wire(t)], r, o_subst_type(t, d), rp)
    if r[0] == "ok":
        cr = close(r[1], [o_ty_subst(S, d) for S in cx])
        Tr = type_of(cr)
        if Tr[0] != "ok" or tkey(Tr[1]) != tkey(o_ty_subst(Tc[1], d)):
            report(ctx, "subst_type-type", "subst_type changed the type: %s :: %s became %s" % (wstr(ct)[:300], Tc[1], Tr), rp)
        else:
            sem_check(ctx, B, "subst_type", "semeqty", [kwire.tyinst_to(d), wire(ct), wire(cr)], "subst_type", rp)
    # ---- incr_boundvars
    inc = rng.randint(0, 3)
    r = pycall(lambda: t.incr_boundvars(inc))
    check_op(ctx, B, "a", "incr_boundvars", ["incr", inc, wire(t)], r, o_incr(t, inc), rp_terms(t=t, inc=inc))
    if r[0] == "ok":
        d = dag_to([t])
        heap_tie(ctx, B, "incr_boundvars", ["incrheap", mk_events(d), d["roots"][0], inc], r[1])
    # ---- abstract_over
    vs = [v for v in pycall(lambda: t.get_vars() + t.get_svars())[1]] if True else []
    if vs and rng.random() < 0.85:
        x = rng.choice(vs)
        q = rng.random()
        if q < 0.15:
            x = Var(x.name, dg.ty(1))            # same name, (probably) other type
        elif q < 0.25:
            x = (SVar if x.is_var() else Var)(x.name, x.T)
    else:
        x = dg.atom(dg.ty(1))
        if x.is_const():
            x = Var(x.name, x.T)
    try:
        orc = o_abstract(t, x)
    except ValueError:
        orc = "raise"
    r = pycall(lambda: t.abstract_over(x))
    check_op(ctx, B, "a", "abstract_over", ["abstract", wire(t), wire(x)], r, orc, rp_terms(t=t, x=x))
    if not cx:
        r = pycall(lambda: Lambda(x, t))
        orl = "raise" if isinstance(orc, str) else Abs(x.name, x.T, orc)
        rp = rp_terms(t=t, x=x)
        check_op(ctx, B, "a", "Lambda", ["lambda", wire(x), wire(t)], r, orl, rp)
        if r[0] == "ok":
            Tl = type_of(r[1])
            if Tl[0] != "ok" or tkey(Tl[1]) != tkey(TFun(x.T, Tc[1])):
                report(ctx, "Lambda-type", "Lambda(x, t) :: %s for x :: %s, t :: %s" % (Tl, x.T, Tc[1]), rp)
            else:
                sem_check(ctx, B, "Lambda", "semeq", [wire(Comb(r[1], x)), wire(t)], "(Lambda(x, t)) x against t", rp)
    # ---- subst_bound / beta_conv with a possibly open argument
    rx = dg.redex(dg.ty(1), rng.randint(1, 3), cx)
    lam, arg = rx.fun, rx.arg
    rp = rp_terms(lam=lam, arg=arg, ctx=[ty_js(S) for S in cx])
    ctx.case(("subst_bound", wstr(rx)), nontrivial=term_size(lam) >= 4)
    if pycall(lambda: arg.is_open()) == ("ok", True):
        ctx.count("subst_bound:open-argument")
    r = pycall(lambda: lam.subst_bound(arg))
    check_op(ctx, B, "a", "subst_bound", ["substbound", wire(lam), wire(arg)], r, o_subst_bound(lam.body, arg), rp)
    isop = pycall(lambda: arg.is_open())
    if isop[0] == "ok" and r[0] == "ok":
        # subst_bound on the heap with its (_id, depth) cache, closed or open argument (Model.lean (e),(f))
        d = dag_to([lam.body, arg])
        heap_tie(ctx, B, "subst_bound", ["sbheap", True, bool(isop[1]), mk_events(d), d["roots"][1], d["roots"][0], 0], r[1])
    r2 = pycall(lambda: rx.beta_conv())
    check_op(ctx, B, "a", "beta_conv", ["betaconv", wire(rx)], r2, o_subst_bound(lam.body, arg), rp)
    if r[0] == "ok":
        c0, c1 = close(rx, cx), close(r[1], cx)
        T0, T1 = type_of(c0), type_of(c1)
        if T0[0] != "ok":
            mismatch(ctx, "a:generator", "generated redex is not well-typed: %s" % wstr(c0)[:400])
        elif T1[0] != "ok" or tkey(T1[1]) != tkey(T0[1]):
            report(ctx, "subst_bound-type", "subst_bound changed the type: %s :: %s became %s :: %s" % (wstr(c0)[:300], T0[1], wstr(c1)[:300], T1), rp)
        else:
            sem_check(ctx, B, "subst_bound", "semeq", [wire(c0), wire(c1)], "(%x. body) arg against body[arg/x]", rp)
    # ---- beta_norm
    bt = redex_nest(rng, dg, cx)
    cb0 = close(bt, cx)
    rp = rp_terms(t=bt, ctx=[ty_js(S) for S in cx])
    ctx.case(("beta_norm", wstr(cb0)), nontrivial=has_redex(bt))
    r = pycall(lambda: bt.beta_norm())
    check_op(ctx, B, "a", "beta_norm", ["betanorm", 3000, wire(bt)], r, None, rp)
    if r[0] == "err":
        # betaNorm_terminates / betaNorm_sem: on a well-typed term beta_norm RETURNS.  A depth/time
        # failure is confirmed with a large recursion limit and a long time limit before it counts.
        if type_of(cb0)[0] != "ok":
            mismatch(ctx, "a:generator", "generated beta_norm input is not well-typed: %s" % wstr(cb0)[:400])
        else:
            r = pycall_long(lambda: bt.beta_norm()) if r[1] in ("RecursionError", "timeout") else r
            if r[0] == "err":
                report(ctx, "beta_norm-termination", "beta_norm does not return on a well-typed term (%s): %s" % (r[1], wstr(cb0)[:400]), rp)
            else:
                ctx.count("beta_norm:returned-only-with-raised-limits")
    if r[0] == "ok":
        if has_redex(r[1]):
            report(ctx, "beta_norm-normal", "beta_norm result still contains a redex: %s" % wstr(r[1])[:400], rp)
        T0, T1 = type_of(cb0), type_of(close(r[1], cx))
        if T0[0] != "ok":
            mismatch(ctx, "a:generator", "generated beta_norm input is not well-typed: %s" % wstr(cb0)[:400])
        elif T1[0] != "ok" or tkey(T1[1]) != tkey(T0[1]):
            report(ctx, "beta_norm-type", "beta_norm changed the type: %s :: %s became %s" % (wstr(cb0)[:300], T0[1], T1), rp)
        else:
            sem_check(ctx, B, "beta_norm", "semeq", [wire(cb0), wire(close(r[1], cx))], "t against t.beta_norm()", rp)
    # ---- subst (closed term)
    subst_case(ctx, B, rng, dg)


def redex_nest(rng, dg, cx):
    """a term with several (nested / shared) redexes under cx"""
    from kernel.term import Comb, Abs
    T = dg.ty(1)
    t = dg.redex(T, 2, cx)
    for _ in range(rng.randint(0, 2)):
        S = dg.ty(0)
        r = rng.random()
        if r < 0.4:      # (%y::S. t) s  -- t weakened is not needed: t is rebuilt under the new binder by the generator
            body = dg.term(T, 2, (S,) + tuple(cx))
            t = Comb(Abs(rng.choice(NAMES), S, body), dg.redex(S, 1, cx))
        elif r < 0.7:    # (%f. f (f? ..)) applied to an abstraction: creates new redexes when reduced
            from kernel.type import TFun
            F = TFun(T, T)
            fb = Comb(__import__("kernel.term", fromlist=["Bound"]).Bound(0), o_incr(t, 1))
            t = Comb(Abs("f", F, fb), Abs(rng.choice(NAMES), T, dg.term(T, 1, (T,) + tuple(cx))))
        else:            # the same redex object twice
            from harness.common.gen_terms import eq_const
            t2 = Comb(Comb(eq_const(T), t), t)
            from kernel.type import BoolType
            T = BoolType
            t = t2
    return t


def subst_case(ctx, B, rng, dg):
    from kernel.type import TyInst
    from kernel.term import Inst
    T = dg.ty(2)
    t = dg.term(T, rng.randint(2, 4), ())
    Tc = type_of(t)
    if Tc[0] != "ok":
        mismatch(ctx, "a:generator", "generated term is not well-typed: %s" % wstr(t)[:400])
        return
    svs = pycall(lambda: t.get_svars())[1]
    vs = pycall(lambda: t.get_vars())[1]
    rng.shuffle(svs)
    tyd = tyinst_choice(rng, dg) if rng.random() < 0.7 else {}
    inst = Inst()
    svmap, vmap = {}, {}
    for v in svs[:rng.randint(0, 3)]:
        if v.name in svmap:
            continue
        S = o_ty_subst(v.T, tyd)
        q = rng.random()
        s = dg.term(S, 2, ()) if q < 0.85 else (dg.term(dg.ty(1), 1, ()) if q < 0.93 else dg.g.bad_term())
        inst[v.name] = s
        svmap[v.name] = s
    if vs and rng.random() < 0.3:
        v = rng.choice(vs)
        s = dg.term(o_ty_subst(v.T, tyd), 2, ())
        inst.var_inst[v.name] = s
        vmap[v.name] = s
    if rng.random() < 0.6:
        inst.tyinst = TyInst(**tyd)
    else:
        inst.tyinst = TyInst(**{k: v for k, v in tyd.items() if rng.random() < 0.5})
    before = kwire.inst_to(inst)
    ctx.case(("subst", wstr(t), sexp.dumps(before)), nontrivial=bool(svmap or vmap))
    rp = rp_terms(t=t, inst=sexp.dumps(before))
    r = pycall(lambda: t.subst(inst))
    final = dict(inst.tyinst)
    orc = None
    if r[0] == "ok":
        orc = o_subst_vars(o_subst_type(t, final), svmap, vmap)
    check_op(ctx, B, "a", "subst", ["subst", before, wire(t)], r, orc, rp)
    if r[0] == "ok":
        # `rec` of Term.subst on the heap with its _id cache (Model.lean (f)), on the type-instantiated
        # term (the DAG itself when there is nothing to instantiate)
        t1 = o_subst_type(t, final) if final else t
        names_sv, names_vv = list(svmap), list(vmap)
        d = dag_to([t1] + [svmap[n] for n in names_sv] + [vmap[n] for n in names_vv])
        rs = d["roots"]
        heap_tie(ctx, B, "subst", ["substheap", mk_events(d),
                                   [[sexp.enc(n), rs[1 + i]] for i, n in enumerate(names_sv)],
                                   [[sexp.enc(n), rs[1 + len(names_sv) + i]] for i, n in enumerate(names_vv)], rs[0]], r[1])
    if r[0] == "ok":
        Tr = type_of(r[1])
        if Tr[0] != "ok" or tkey(Tr[1]) != tkey(o_ty_subst(Tc[1], final)):
            report(ctx, "subst-type", "subst changed the type: %s :: %s became %s :: %s" % (wstr(t)[:300], Tc[1], wstr(r[1])[:300], Tr), rp)
        else:
            sem_check(ctx, B, "subst", "semsubst", [kwire.inst_to(inst), wire(t), wire(r[1])], "t.subst(inst)", rp)


def stream_ops(ctx):
    rng = ctx.rng("ops")
    B = Batch(ctx, "a")
    n = ctx.scale(220, 3000)
    dg = DagGen(rng)
    for i in range(n):
        if i % 40 == 0:
            dg = DagGen(rng, share=rng.choice([0.15, 0.3, 0.5]))
        ops_case(ctx, B, rng, dg)
        if i < 2 and dg.pool:
            ctx.sample({"dag_term": wstr(dg.pool[-1][0])[:400]})
        ctx.count("shared-subobject-reuses", dg.nshared)
        dg.nshared = 0
        if len(B.lines) > 20000:
            B.flush()
    # ill-typed / open inputs for the two type functions
    for i in range(ctx.scale(60, 600)):
        typing_case(ctx, B, dg.g.bad_term())
    B.flush()


# ------------------------------------------------------------------ stream (b): scripted object histories
class TraceError(Exception):
    pass


class Tracer:
    """mirrors the objects of a history into events for the model's heap: every Term object the
    script can reach is announced with the address CPython gave it (`id`), every deallocation is
    seen through a weakref callback at the moment it happens"""

    def __init__(self):
        self.events = []
        self.known = {}

    def _free_cb(self, addr):
        def cb(_ref):
            self.known.pop(addr, None)
            self.events.append(["free", addr])
        return cb

    def _register(self, obj):
        self.known[id(obj)] = weakref.ref(obj, self._free_cb(id(obj)))

    def node(self, t):
        ty = t.ty
        if ty in (0, 1, 2):
            return [["sv", "v", "c"][ty], sexp.enc(t.name), kwire.ty_to(t.T)]
        if ty == 3:
            return ["ap", id(t.fun), id(t.arg)]
        if ty == 4:
            return ["ab", sexp.enc(t.var_name), kwire.ty_to(t.var_T), id(t.body)]
        return ["b", t.n]

    def discover(self, t):
        k = id(t)
        if k in self.known:
            if self.known[k]() is not t:
                raise TraceError("address %d known for another object" % k)
            return
        if t.ty == 3:
            self.discover(t.fun)
            self.discover(t.arg)
        elif t.ty == 4:
            self.discover(t.body)
        self.events.append(["mk", k, self.node(t)])
        self._register(t)

    def wrap(self, new, src):
        self.discover(src)
        if id(new) in self.known:
            raise TraceError("wrap: address already known")
        self.events.append(["wrap", id(new), id(src)])
        self._register(new)

    def copy(self, new, src):
        self.discover(src)
        order = []

        def post(t):
            if t.ty == 3:
                post(t.fun)
                post(t.arg)
            elif t.ty == 4:
                post(t.body)
            if id(t) in self.known:
                raise TraceError("copy: address already known")
            order.append(t)
        post(new)
        self.events.append(["copy", [id(t) for t in order], id(src)])
        for t in order:
            self._register(t)


HIST_TYPES = None


def hist_types():
    from kernel.type import TVar, STVar, TFun, BoolType, TConst
    A = TVar("a")
    return [BoolType, A, STVar("a"), TFun(A, A), TFun(A, BoolType), TFun(BoolType, BoolType, BoolType), TConst("list", A)]


def gen_script(rng, n):
    """random history over numbered slots; every op is plain JSON so that a replay re-runs it"""
    tys = [ty_js(T) for T in hist_types()]
    names = ["a", "b", "c", "f", "x"]
    script, live, nxt = [], [], [0]

    def new():
        nxt[0] += 1
        live.append(nxt[0])
        return nxt[0]

    def atom():
        return ["atom", new(), rng.choice(["sv", "v", "v", "c"]), rng.choice(names), rng.choice(tys)]

    for _ in range(3):
        script.append(atom())
    for _ in range(n):
        r = rng.random()
        if r < 0.14 or len(live) < 2:
            script.append(atom())
        elif r < 0.26:
            f, a = rng.choice(live), rng.choice(live)
            script.append(["comb", new(), f, a])
        elif r < 0.33:
            b = rng.choice(live)
            script.append(["abs", new(), rng.choice(names), rng.choice(tys), b])
        elif r < 0.36:
            script.append(["bound", new(), rng.randint(0, 2)])
        elif r < 0.50:
            # the pattern of the known defect: a copy of an object that dies, then new objects
            how = rng.choice(["wrap", "wrap", "deepcopy", "pickle", "copy"])
            if rng.random() < 0.6:
                d = new()
                script.append(["tmp-" + how, d, rng.choice(["sv", "v", "c"]), rng.choice(names), rng.choice(tys)])
            else:
                s = rng.choice(live)
                d = new()
                script.append([how, d, s])
                if rng.random() < 0.6:
                    script.append(["drop", s])
                    live.remove(s)
            for _ in range(rng.randint(1, 3)):
                a = atom()
                script.append(a)
                script.append(["eq", d, a[1]])
        elif r < 0.60 and len(live) > 3:
            s = rng.choice(live)
            script.append(["drop", s])
            live.remove(s)
            if rng.random() < 0.3:
                script.append(["gc"])
        elif r < 0.66:
            script.append(["churn", rng.randint(1, 30)])
        elif r < 0.86:
            script.append(["eq", rng.choice(live), rng.choice(live)])
        elif r < 0.93:
            script.append(["eqfresh", rng.choice(live)])
        else:
            op = rng.choice(["incr", "abstract", "subst_bound"])
            a, b = rng.choice(live), rng.choice(live)
            script.append(["op", op, new(), a, b])
    # final round: everything against everything (bounded)
    pairs = [(a, b) for a in live for b in live if a < b]
    rng.shuffle(pairs)
    for a, b in pairs[:12]:
        script.append(["eq", a, b])
    return script


def run_script(script, tracer=None):
    """executes a history on the real classes; returns the observations
    [(op index, kind, python answer, answer expected from the structure, detail)]"""
    from kernel import term as K
    slots = {}
    obs = []
    mk = {"sv": K.SVar, "v": K.Var, "c": K.Const}

    def note(t):
        if tracer is not None:
            tracer.discover(t)

    for i, op in enumerate(script):
        k = op[0]
        if k == "atom":
            slots[op[1]] = mk[op[2]](op[3], ty_of_js(op[4]))
            note(slots[op[1]])
        elif k == "comb":
            slots[op[1]] = K.Comb(slots[op[2]], slots[op[3]])
            note(slots[op[1]])
        elif k == "abs":
            slots[op[1]] = K.Abs(op[2], ty_of_js(op[3]), slots[op[4]])
            note(slots[op[1]])
        elif k == "bound":
            slots[op[1]] = K.Bound(op[2])
            note(slots[op[1]])
        elif k in ("wrap", "copy", "deepcopy", "pickle"):
            src = slots[op[2]]
            if k == "wrap":
                new = K.Term(src)
                if tracer is not None:
                    tracer.wrap(new, src)
            elif k == "copy":
                new = _copy.copy(src)
                if tracer is not None:
                    tracer.copy(new, src)
            elif k == "deepcopy":
                new = _copy.deepcopy(src)
                note(new)
            else:
                new = pickle.loads(pickle.dumps(src))
                note(new)
            slots[op[1]] = new
            del src, new
        elif k.startswith("tmp-"):
            how = k[4:]
            T = ty_of_js(op[4])
            if how == "wrap":
                new = K.Term(mk[op[2]](op[3], T))
            elif how == "copy":
                new = _copy.copy(mk[op[2]](op[3], T))
            elif how == "deepcopy":
                new = _copy.deepcopy(mk[op[2]](op[3], T))
            else:
                new = pickle.loads(pickle.dumps(mk[op[2]](op[3], T)))
            slots[op[1]] = new
            note(new)
            del new
        elif k == "drop":
            del slots[op[1]]
        elif k == "gc":
            gc.collect()
        elif k == "churn":
            junk = [K.Var("j%d" % j, K.BoolType) for j in range(op[1])]
            junk = [K.Comb(junk[j], junk[j]) for j in range(0, len(junk), 2)]
            del junk
        elif k == "eq":
            a, b = slots[op[1]], slots[op[2]]
            exp = skey(a) == skey(b)
            r = pycall(lambda: a == b)
            h = pycall(lambda: hash(a) == hash(b))
            obs.append((i, "eq", r, exp, h))
            if tracer is not None:
                tracer.discover(a)
                tracer.discover(b)
                tracer.events.append(["eq", id(a), id(b)])
            del a, b
        elif k == "eqfresh":
            a = slots[op[1]]
            b = rebuild(a, lambda n: n + "_")
            r = pycall(lambda: a == b and b == a)
            h = pycall(lambda: hash(a) == hash(b))
            obs.append((i, "eq", r, True, h))
            del a, b
        elif k == "op":
            a, b = slots[op[3]], slots[op[4]]
            name = op[1]
            if name == "incr":
                r, exp = pycall(lambda: a.incr_boundvars(2)), o_incr(a, 2)
            elif name == "abstract":
                if b.ty in (0, 1):
                    r = pycall(lambda: a.abstract_over(b))
                    try:
                        exp = o_abstract(a, b)
                    except ValueError:
                        exp = None
                else:
                    r, exp = ("err", "skip"), None
            else:
                if a.ty == 4:
                    r, exp = pycall(lambda: a.subst_bound(b)), o_subst_bound(a.body, b)
                else:
                    r, exp = ("err", "skip"), None
            if r[0] == "ok":
                slots[op[2]] = r[1]
                note(r[1])
                if exp is not None:
                    obs.append((i, "op:" + name, ("ok", skey(r[1]) == skey(exp)), True, ("ok", True)))
            else:
                slots[op[2]] = a
            del a, b, r, exp
    return obs


def hist_failures(obs):
    """property part of a history: (index, what)"""
    bad = []
    for i, kind, r, exp, h in obs:
        if r != ("ok", exp):
            bad.append((i, "%s answered %s, the structures say %s" % ("==" if kind == "eq" else kind, r, exp)))
        elif exp and h != ("ok", True):
            bad.append((i, "equal terms, hashes equal: %s" % (h,)))
    return bad


def shrink_script(script, limit=400):
    """drop steps as long as some comparison of the history still fails"""
    def fails(sc):
        try:
            return bool(hist_failures(run_script(sc)))
        except Exception:  # noqa  (a slot that no longer exists)
            return False
    bad = hist_failures(run_script(script))
    if not bad:
        return script
    cur = script[:bad[0][0] + 1]
    if not fails(cur):
        cur = list(script)
    n = 0
    i = len(cur) - 2
    while i >= 0 and n < limit:
        cand = cur[:i] + cur[i + 1:]
        n += 1
        if fails(cand) and fails(cand):     # twice: the allocator must cooperate both times
            cur = cand
        i -= 1
    return cur


def stream_hist(ctx):
    rng = ctx.rng("hist")
    B = Batch(ctx, "b")
    nh = ctx.scale(300, 4000)
    ntrace_err = 0
    for hi in range(nh):
        script = gen_script(rng, rng.randint(10, 45))
        tracer = Tracer()
        try:
            obs = run_script(script, tracer)
        except TraceError as e:
            ntrace_err += 1
            ctx.count("hist:trace-bookkeeping-error")
            obs = run_script(script, None)
            tracer = None
        neq = sum(1 for o in obs if o[1] == "eq")
        ctx.case(("hist", json.dumps(script)), nontrivial=neq >= 3)
        ctx.count("hist:comparisons", neq)
        ctx.count("hist:comparisons-true", sum(1 for o in obs if o[1] == "eq" and o[3]))
        bad = hist_failures(obs)
        if bad:
            small = shrink_script(script)
            bad2 = hist_failures(run_script(small)) or bad
            i, what = bad2[0] if bad2 is not bad else (bad[0][0], bad[0][1])
            src = small if bad2 is not bad else script
            report(ctx, "history", "after the history %s, step %d %s: %s" % (json.dumps(src)[:500], i, src[i], what),
                   {"script": src, "original_script": script})
        if tracer is not None:
            nreuse = len({e[1] for e in tracer.events if e[0] == "free"} & {e[1] for e in tracer.events if e[0] in ("mk", "wrap")})
            ctx.count("hist:addresses-reused-after-free", nreuse)
            pyeq = [o[2] for o in obs if o[1] == "eq" and script[o[0]][0] == "eq"]

            def cb(ans, ln, pyeq=pyeq, script=script):
                if ans == "bad-op" or ans[0] != "ok":
                    mismatch(ctx, "b:heap", "the model cannot follow the history (%s): %s" % (ans, ln[:600]))
                    return
                ms = [x for x in ans[1:] if x[0] == "eq"]
                if len(ms) != len(pyeq):
                    mismatch(ctx, "b:heap", "number of comparisons differs")
                    return
                for m, p in zip(ms, pyeq):
                    want = "T" if p == ("ok", True) else "F"
                    if m[1] != want or m[2] != want:
                        mismatch(ctx, "b:heap", "== is %s, model eqFast %s, aeq of the represented terms %s; history %s" % (p, m[1], m[2], json.dumps(script)[:600]))
                        return
            B.ask(["history", True, tracer.events], cb)
        if hi < 2:
            ctx.sample({"history": script[:14]})
    if ntrace_err > nh // 10:
        ctx.broken("correspondence:c03:b:tracer", "%d of %d histories could not be mirrored into the heap model" % (ntrace_err, nh))
    B.flush()
    stream_inplace(ctx)


def share_roots(a, b):
    """do two terms share a Python object?"""
    ids = set()

    def col(t):
        ids.add(id(t))
        if t.ty == 3:
            col(t.fun)
            col(t.arg)
        elif t.ty == 4:
            col(t.body)

    def hit(t):
        if id(t) in ids:
            return True
        if t.ty == 3:
            return hit(t.fun) or hit(t.arg)
        if t.ty == 4:
            return hit(t.body)
        return False
    col(a)
    return hit(b)


ALIAS_KEY = "stale-hash:subst_type_inplace:alias-outside-target"


def inplace_case(ctx, rng, dg, replay=None, B=None):
    """subst_type_inplace on a DAG: the target must become the instantiated term (every shared
    sub-object updated ONCE), and hash / == must be those of its new structure"""
    from kernel.type import TyInst
    if replay is None:
        T = dg.ty(2)
        terms = [dg.term(dg.ty(2), rng.randint(1, 4), ()) for _ in range(rng.randint(1, 4))]
        from kernel.term import Comb
        # force sharing inside the target and with the bystanders
        x = dg.term(T, 2, ())
        from harness.common.gen_terms import eq_const
        target = Comb(Comb(eq_const(T), x), x) if rng.random() < 0.6 else rng.choice(terms)
        others = [t for t in terms if t is not target] + ([Comb(Comb(eq_const(T), x), dg.term(T, 1, ()))] if rng.random() < 0.5 else [])
        d = tyinst_choice(rng, dg)
    else:
        ts = dag_of(replay["dag"])
        target, others = ts[0], ts[1:]
        d = {n: ty_of_js(S) for n, S in replay["tyinst"].items()}
    rp = dict(dag=dag_to([target] + others), tyinst={n: ty_js(S) for n, S in d.items()}, sexp=wstr(target)[:1500])
    for t in [target] + others:
        hash(t)            # memoise
    before = rebuild(target)
    r = pycall(lambda: target.subst_type_inplace(TyInst(**d)))
    ctx.count("subst_type_inplace:%s" % (r[0] if r[0] == "ok" else r[1]))
    fails = []
    if r[0] != "ok":
        return fails
    want = o_subst_type(before, d)
    if skey(target) != skey(want):
        fails.append(("subst_type_inplace", "subst_type_inplace turned %s into %s, the instance is %s" % (wstr(before)[:300], wstr(target)[:300], wstr(want)[:300]), None))
    for j, t in enumerate([target] + others):
        fresh = rebuild(t)
        e = pycall(lambda: t == fresh and fresh == t)
        h = pycall(lambda: hash(t) == hash(fresh))
        if e != ("ok", True) or h != ("ok", True):
            alias = j > 0 and share_roots(target, t)
            fails.append(("inplace-hash", "after subst_type_inplace on %s: term %d (%s) == fresh copy: %s, hashes equal: %s" % (
                "a term sharing objects with it" if alias else "the term itself" if j == 0 else "an unrelated term", j, wstr(t)[:200], e, h),
                ALIAS_KEY if alias else None))
    for kind, what, key in fails:
        if replay is None:
            report(ctx, kind, what, rp, key=key)
    if B is not None:
        # the same scenario in the model's heap with memoised hashes (Model.lean (d)): the model
        # over-approximates which objects carry a memo (all that `hash` reaches), so only
        # "model consistent => implementation consistent" is demanded
        evs = []
        for i, n in enumerate(rp["dag"]["nodes"]):
            k = n[0]
            if k in ("sv", "v", "c"):
                node = [k, sexp.enc(n[1]), sexp.loads(n[2])]
            elif k == "ap":
                node = ["ap", n[1], n[2]]
            elif k == "ab":
                node = ["ab", sexp.enc(n[1]), sexp.loads(n[2]), n[3]]
            else:
                node = ["b", n[1]]
            evs.append(["mk", i, node])
        roots = rp["dag"]["roots"]
        evs += [["hash", a] for a in roots]
        evs.append(["inplace", kwire.tyinst_to(d), roots[0]])
        evs += [["obs", a] for a in roots]
        pyobs = []
        for t in [target] + others:
            fresh = rebuild(t)
            pyobs.append((pycall(lambda: hash(t) == hash(fresh)) == ("ok", True), sexp.dumps(kwire.canon_term(wire(t)))))
        clean = not any(kind == "subst_type_inplace" for kind, _, _ in fails)

        def cb(ans, ln, pyobs=pyobs, clean=clean):
            if ans == "bad-op" or ans[0] != "ok" or len(ans) - 1 != len(pyobs):
                mismatch(ctx, "b:inplace-model", "the model cannot follow %s: %s" % (ln[:400], ans))
                return
            for (pcons, pstruct), m in zip(pyobs, ans[1:]):
                mstruct = sexp.dumps(kwire.canon_term(m[2])) if m[2] != "none" else None
                if clean and mstruct != pstruct:
                    mismatch(ctx, "b:inplace-structure", "after subst_type_inplace the implementation has %s, the model %s; %s" % (pstruct[:300], (mstruct or "none")[:300], ln[:300]))
                    return
                if m[1] == "T" and not pcons:
                    mismatch(ctx, "b:inplace-memo", "the model predicts a consistent hash, the implementation's is stale: %s" % ln[:500])
                    return
                ctx.count("info:inplace-memo-model-%s-impl-%s" % ("consistent" if m[1] == "T" else "stale", "consistent" if pcons else "stale"))
        B.ask(["memo", True, evs], cb)
    return fails


def stream_inplace(ctx):
    rng = ctx.rng("inplace")
    B = Batch(ctx, "b-inplace")
    for i in range(ctx.scale(150, 3000)):
        # a new pool per case: the objects of an earlier case have been rewritten in place
        inplace_case(ctx, rng, DagGen(rng, share=0.5), B=B)
        ctx.case(("inplace", i), nontrivial=False)
    B.flush()


# ------------------------------------------------------------------ stream (c): terms obtained by parsing text
PARSE_VARS = {"P": "bool", "Q": "bool", "a": "'a", "b": "'a", "c": "'a", "f": "'a => 'a", "g": "'a => 'a",
              "p": "'a => bool", "r": "'a => 'a => bool"}
BINDER_NAMES = ["x", "y", "a", "b", "z", "P"]


class TextGen:
    """generates (text, constructed Term) pairs: a small typed AST is rendered fully parenthesised
    in holpy's concrete syntax and, independently, built with the constructors (de Bruijn indices
    computed here).  Binder names clash with free names on purpose."""

    def __init__(self, rng):
        from kernel.type import TVar, TFun, BoolType
        self.rng = rng
        self.A = TVar("a")
        self.B = BoolType
        self.free = {"P": self.B, "Q": self.B, "a": self.A, "b": self.A, "c": self.A, "f": TFun(self.A, self.A),
                     "g": TFun(self.A, self.A), "p": TFun(self.A, self.B), "r": TFun(self.A, self.A, self.B)}

    def lookup(self, env, name):
        """env: list of (name, type), innermost first"""
        from kernel.term import Var, Bound
        for i, (n, T) in enumerate(env):
            if n == name:
                return Bound(i), T
        return Var(name, self.free[name]), self.free[name]

    def names_of(self, env, T):
        out = []
        for n in set([n for n, _ in env] + list(self.free)):
            _, S = self.lookup(env, n)
            if S == T:
                out.append(n)
        return sorted(out)

    def binder(self, env, T, ren):
        n = self.rng.choice(BINDER_NAMES)
        return n, ren.get(n, n)

    def gen(self, T, depth, env, ren):
        """returns (text, term). `ren` renames binders in the TEXT only (alpha-variant texts)."""
        from kernel.term import Const, Comb, Abs
        from kernel.type import TFun
        rng = self.rng
        A, Bo = self.A, self.B

        def var(T):
            n = rng.choice(self.names_of(env, T))
            t, _ = self.lookup(env, n)
            # the text uses the renamed binder name when n is bound
            for (bn, _t) in env:
                if bn == n:
                    return ren.get(n, n), t
            return n, t

        def app(fn, *args):
            ftxt, ft = var(fn)
            txt, t = ftxt, ft
            for a in args:
                atxt, at = self.gen(a, depth - 1, env, ren)
                txt, t = "%s (%s)" % (txt, atxt), Comb(t, at)
            return "(%s)" % txt, t

        def binder(sym, S, bodyT):
            n = rng.choice(BINDER_NAMES)
            btxt, bt = self.gen(bodyT, depth - 1, [(n, S)] + env, ren)
            ann = "::'a" if S == A else "::bool"
            return "(%s%s%s. %s)" % (sym, ren.get(n, n), ann, btxt), Abs(n, S, bt)

        r = rng.random()
        if T == A:
            if depth <= 0 or r < 0.4:
                return var(A)
            if r < 0.75 and self.names_of(env, TFun(A, A)):
                return app(TFun(A, A), A)
            ltxt, lt = binder("%", A, A)
            atxt, at = self.gen(A, depth - 1, env, ren)
            return "(%s (%s))" % (ltxt, atxt), Comb(lt, at)
        # bool
        if depth <= 0 or r < 0.15:
            return var(Bo) if self.names_of(env, Bo) else app(TFun(A, Bo), A)
        if r < 0.3:
            return app(TFun(A, Bo), A) if rng.random() < 0.5 or not self.names_of(env, TFun(A, A, Bo)) else app(TFun(A, A, Bo), A, A)
        if r < 0.4:
            ltxt, lt = self.gen(A, depth - 1, env, ren)
            rtxt, rt = self.gen(A, depth - 1, env, ren)
            return "((%s) = (%s))" % (ltxt, rtxt), Comb(Comb(Const("equals", TFun(A, A, Bo)), lt), rt)
        if r < 0.7:
            op, cn = rng.choice([("&", "conj"), ("|", "disj"), ("-->", "implies")])
            ltxt, lt = self.gen(Bo, depth - 1, env, ren)
            rtxt, rt = self.gen(Bo, depth - 1, env, ren)
            return "((%s) %s (%s))" % (ltxt, op, rtxt), Comb(Comb(Const(cn, TFun(Bo, Bo, Bo)), lt), rt)
        if r < 0.78:
            ltxt, lt = self.gen(Bo, depth - 1, env, ren)
            return "(~(%s))" % ltxt, Comb(Const("neg", TFun(Bo, Bo)), lt)
        sym, cn = rng.choice([("!", "all"), ("?", "exists")])
        S = A if rng.random() < 0.8 else Bo
        btxt, bt = binder(sym, S, Bo)
        return btxt, Comb(Const(cn, TFun(TFun(S, Bo), Bo)), bt)


def stream_parse(ctx):
    from logic import context
    from syntax import parser
    from kernel.term import Term
    rng = ctx.rng("parse")
    B = Batch(ctx, "c")
    try:
        context.set_context('logic_base', vars=PARSE_VARS)
    except Exception as e:  # noqa
        ctx.broken("correspondence:c03:c:context", "set_context failed: %r" % e)
        return
    n = ctx.scale(120, 2500)
    nfail = 0
    for i in range(n):
        tg = TextGen(rng)
        ren = {bn: bn + "2" if rng.random() < 0.5 else "w" + bn for bn in BINDER_NAMES}
        T0, d0 = (tg.B if rng.random() < 0.7 else tg.A), rng.randint(1, 4)
        st = rng.getstate()
        text, built = tg.gen(T0, d0, [], {})
        rng.setstate(st)
        text2, built2 = TextGen(rng).gen(T0, d0, [], ren)
        ctx.case(("parse", text), nontrivial="%" in text or "!" in text or "?" in text)
        p1 = pycall(lambda: parser.parse_term(text))
        p2 = pycall(lambda: Term(text))
        p3 = pycall(lambda: parser.parse_term(text2))
        if p1[0] != "ok" or p2[0] != "ok" or p3[0] != "ok":
            nfail += 1
            ctx.count("parse:failed")
            if nfail <= 2:
                mismatch(ctx, "c:parse", "text does not parse (%s / %s / %s): %s || %s" % (p1, p2, p3, text[:300], text2[:300]))
            continue
        ctx.count("parse:ok")
        if skey(built) != skey(built2):
            ctx.count("parse:generator-desync")
            continue
        objs = {"parsed": p1[1], "Term(text)": p2[1], "parsed-alpha-variant": p3[1], "constructed": built}
        if skey(p1[1]) != skey(built):
            # what the parser builds for this text is C07's business; here the four objects only
            # have to be compared consistently
            ctx.count("parse:structure-differs-from-expected")
        names = list(objs)
        for x in names:
            for y in names:
                a, b = objs[x], objs[y]
                exp = skey(a) == skey(b)
                r = pycall(lambda: a == b)
                if r != ("ok", exp):
                    report(ctx, "eq-parsed", "%s == %s answered %s, structures %s; text %s" % (x, y, r, "identical" if exp else "different", text[:300]),
                           {"text": text, "text2": text2, "x": x, "y": y})
                elif exp and pycall(lambda: hash(a) == hash(b)) != ("ok", True):
                    report(ctx, "hash-parsed", "%s == %s but the hashes differ; text %s" % (x, y, text[:300]), {"text": text, "text2": text2, "x": x, "y": y})
        eq_hash_case(ctx, B, p1[1], built, "parsed-vs-constructed")
        eq_hash_case(ctx, B, p2[1], p3[1], "Term(text)-vs-alpha-variant")
        hash_case(ctx, B, p2[1])
        typing_case(ctx, B, p1[1])
        # an operation through the _id caches on the parsed object
        if p1[1].is_comb() and p1[1].arg.is_abs():
            lam = p1[1].arg
            from kernel.term import Var
            v = Var("a", lam.var_T)
            r = pycall(lambda: lam.subst_bound(v))
            check_op(ctx, B, "c", "subst_bound", ["substbound", wire(lam), wire(v)], r, o_subst_bound(lam.body, v), rp_terms(lam=lam, arg=v, text=text))
        if i < 2:
            ctx.sample({"text": text, "alpha_variant": text2})
    if nfail > n // 20:
        ctx.broken("correspondence:c03:c:parse", "%d of %d generated texts do not parse" % (nfail, n))
    B.flush()


# ------------------------------------------------------------------ stream (d): the term / type ordering
def sgn(x):
    return (x > 0) - (x < 0)


def type_pool(rng, dg, n):
    from kernel.type import TVar, STVar, TConst, TFun
    out = []
    for _ in range(n):
        r = rng.random()
        nm = rng.choice(ORDER_NAMES)
        if r < 0.2:
            out.append(TVar(nm))
        elif r < 0.35:
            out.append(STVar(nm))
        elif r < 0.5:
            out.append(TConst(nm, *[rng.choice(out) if out and rng.random() < 0.7 else TVar(rng.choice(ORDER_NAMES)) for _ in range(rng.randint(0, 3))]))
        elif r < 0.7 and len(out) >= 2:
            out.append(TFun(rng.choice(out), rng.choice(out)))
        else:
            out.append(dg.ty(2))
    return out


def stream_order(ctx):
    from kernel import term_ord
    from kernel.term import Var, SVar, Const, Comb, Abs, Bound
    rng = ctx.rng("order")
    B = Batch(ctx, "d")
    dg = DagGen(rng, names=ORDER_NAMES)
    # ---- types
    tys = type_pool(rng, dg, ctx.scale(60, 400))

    def tcmp(a, b):
        return pycall(lambda: term_ord.fast_compare_typ(a, b))
    for _ in range(ctx.scale(400, 8000)):
        a, b, c = rng.choice(tys), rng.choice(tys), rng.choice(tys)
        if rng.random() < 0.3:
            b = rebuild_ty(a)
        ab, ba, bc, ac = tcmp(a, b), tcmp(b, a), tcmp(b, c), tcmp(a, c)
        rp = {"a": ty_js(a), "b": ty_js(b), "c": ty_js(c)}
        ctx.case(("cmpty", rp["a"], rp["b"]), nontrivial=tkey(a) != tkey(b))
        ctx.count("cmpty:%s" % (ab[1] if ab[0] == "ok" else "err"))
        if any(x[0] != "ok" for x in (ab, ba, bc, ac)):
            report(ctx, "order-type-total", "fast_compare_typ raised: %s %s %s %s" % (ab, ba, bc, ac), rp)
            continue
        eqab = pycall(lambda: a == b)
        if eqab != ("ok", tkey(a) == tkey(b)):
            report(ctx, "eq-type", "Type.__eq__ answered %s, structures %s" % (eqab, "identical" if tkey(a) == tkey(b) else "different"), rp)
        elif eqab == ("ok", True) and pycall(lambda: hash(a) == hash(b)) != ("ok", True):
            report(ctx, "hash-type", "equal types with different hashes", rp)
        if sgn(ab[1]) != -sgn(ba[1]):
            report(ctx, "order-type-antisym", "fast_compare_typ(a,b)=%s, (b,a)=%s" % (ab[1], ba[1]), rp)
        if (ab[1] == 0) != (tkey(a) == tkey(b)) or (ab[1] == 0) != (a == b):
            report(ctx, "order-type-eq", "fast_compare_typ(a,b)=%s but a == b is %s (structures %s)" % (ab[1], a == b, tkey(a) == tkey(b)), rp)
        if ab[1] <= 0 and bc[1] <= 0 and ac[1] > 0:
            report(ctx, "order-type-trans", "a<=b, b<=c but fast_compare_typ(a,c)=%s" % ac[1], rp)
        # Type.__lt__ / __le__
        lt, gt, eq, le = pycall(lambda: a < b), pycall(lambda: b < a), pycall(lambda: a == b), pycall(lambda: a <= b)
        if [lt, gt, eq].count(("ok", True)) != 1 or le != ("ok", lt[1] or eq[1]):
            report(ctx, "type-lt", "Type.__lt__/__le__: a<b %s, b<a %s, a==b %s, a<=b %s" % (lt, gt, eq, le), rp)
        if lt == ("ok", True) and pycall(lambda: b < c) == ("ok", True) and pycall(lambda: a < c) != ("ok", True):
            report(ctx, "type-lt-trans", "Type.__lt__ not transitive", rp)

        def cb(ans, ln, ab=ab):
            if ans == "bad-op" or int(ans) != sgn(ab[1]):
                mismatch(ctx, "d:cmpty", "%s: python %s model %s" % (ln[:400], ab[1], ans))
        B.ask(["cmpty", kwire.ty_to(a), kwire.ty_to(b)], cb)
    # ---- terms: families of equal size so that the comparison goes past the size test
    fams = []
    for _ in range(ctx.scale(40, 500)):
        cx = dg.ctx()
        base = dg.term(dg.ty(2), rng.randint(0, 3), cx)
        fam = [base]
        for _ in range(rng.randint(2, 6)):
            src = rng.choice(fam)
            fam.append(mutate(rng, src) if rng.random() < 0.8 else rebuild(src, lambda n: n + "9"))
        fams.append(fam)
    allterms = [t for f in fams for t in f]

    def cmp(a, b):
        return pycall(lambda: term_ord.fast_compare(a, b))
    for _ in range(ctx.scale(500, 10000)):
        fam = rng.choice(fams) if rng.random() < 0.8 else allterms
        a, b, c = rng.choice(fam), rng.choice(fam), rng.choice(fam)
        ab, ba, bc, ac = cmp(a, b), cmp(b, a), cmp(b, c), cmp(a, c)
        rp = rp_terms(a=a, b=b, c=c)
        ctx.case(("cmp", wstr(a), wstr(b)), nontrivial=skey(a) != skey(b) and term_size(a) == term_size(b))
        ctx.count("cmp:%s" % (ab[1] if ab[0] == "ok" else "err"))
        if any(x[0] != "ok" for x in (ab, ba, bc, ac)):
            report(ctx, "order-total", "fast_compare raised: %s %s %s %s" % (ab, ba, bc, ac), rp)
            continue
        if sgn(ab[1]) != -sgn(ba[1]):
            report(ctx, "order-antisym", "fast_compare(a,b)=%s, (b,a)=%s" % (ab[1], ba[1]), rp)
        if (ab[1] == 0) != (skey(a) == skey(b)) or (ab[1] == 0) != (a == b):
            report(ctx, "order-eq", "fast_compare(a,b)=%s but a == b is %s (structures identical: %s)" % (ab[1], a == b, skey(a) == skey(b)), rp)
        if ab[1] <= 0 and bc[1] <= 0 and ac[1] > 0:
            report(ctx, "order-trans", "a<=b, b<=c but fast_compare(a,c)=%s" % ac[1], rp)

        def cb(ans, ln, ab=ab):
            if ans == "bad-op" or int(ans) != sgn(ab[1]):
                mismatch(ctx, "d:cmp", "%s: python %s model %s" % (ln[:500], ab[1], ans))
        B.ask(["cmp", wire(a), wire(b)], cb)
    # ---- sorted_terms
    for _ in range(ctx.scale(40, 600)):
        L = [rng.choice(allterms) for _ in range(rng.randint(2, 12))]
        L += [rebuild(rng.choice(L), lambda n: n + "7")]
        r1 = pycall(lambda: term_ord.sorted_terms(L))
        L2 = [rebuild(t) for t in L]
        rng.shuffle(L2)
        r2 = pycall(lambda: term_ord.sorted_terms(L2))
        rp = rp_terms(**{"t%d" % i: t for i, t in enumerate(L)})
        ctx.count("sorted_terms:%s" % r1[0])
        if r1[0] != "ok" or r2[0] != "ok":
            report(ctx, "sorted_terms", "sorted_terms raised %s / %s" % (r1, r2), rp)
            continue
        k1, k2 = [skey(t) for t in r1[1]], [skey(t) for t in r2[1]]
        ok = (k1 == k2 and set(k1) == {skey(t) for t in L} and len(set(k1)) == len(k1)
              and all(term_ord.fast_compare(r1[1][i], r1[1][i + 1]) < 0 for i in range(len(k1) - 1)))
        if not ok:
            report(ctx, "sorted_terms", "sorted_terms: not a strictly increasing duplicate-free arrangement of the input, or dependent on the input order / object identities", rp)
    B.flush()


# ------------------------------------------------------------------ replay of one recorded failing input
def _terms_of(r):
    ts = dag_of(r["dag"])
    return dict(zip(r["dag_names"], ts))


def _redo_op(base, r):
    """re-run the operation of a recorded case: (python result, oracle term or 'raise' or None, closing context)"""
    from kernel.type import TyInst
    from kernel.term import Lambda, Abs, Comb
    ts = _terms_of(r)
    cx = [ty_of_js(S) for S in r.get("ctx", [])]
    if base == "subst_type":
        d = {n: ty_of_js(S) for n, S in r["tyinst"].items()}
        return pycall(lambda: ts["t"].subst_type(TyInst(**d))), o_subst_type(ts["t"], d), ("ty", ts["t"], cx, d)
    if base == "incr_boundvars":
        return pycall(lambda: ts["t"].incr_boundvars(r["inc"])), o_incr(ts["t"], r["inc"]), None
    if base in ("abstract_over", "Lambda"):
        try:
            orc = o_abstract(ts["t"], ts["x"])
        except ValueError:
            orc = "raise"
        if base == "abstract_over":
            return pycall(lambda: ts["t"].abstract_over(ts["x"])), orc, None
        res = pycall(lambda: Lambda(ts["x"], ts["t"]))
        return res, ("raise" if isinstance(orc, str) else Abs(ts["x"].name, ts["x"].T, orc)), ("lam", ts["t"], ts["x"])
    if base in ("subst_bound", "beta_conv"):
        lam, arg = ts["lam"], ts["arg"]
        f = (lambda: lam.subst_bound(arg)) if base == "subst_bound" else (lambda: Comb(lam, arg).beta_conv())
        return pycall(f), o_subst_bound(lam.body, arg), ("eq", Comb(lam, arg), cx)
    if base == "beta_norm":
        return pycall(lambda: ts["t"].beta_norm()), None, ("eq", ts["t"], cx)
    if base == "subst":
        inst_s = sexp.loads(r["inst"])
        from kernel.term import Inst
        inst = Inst()
        inst.tyinst = TyInst(**{sexp.dec(k): kwire.ty_of(v) for k, v in inst_s[1]})
        for k, v in inst_s[2]:
            inst[sexp.dec(k)] = kwire.term_of(v)
        for k, v in inst_s[3]:
            inst.var_inst[sexp.dec(k)] = kwire.term_of(v)
        svmap, vmap = dict(inst.items()), dict(inst.var_inst)
        res = pycall(lambda: ts["t"].subst(inst))
        orc = o_subst_vars(o_subst_type(ts["t"], dict(inst.tyinst)), svmap, vmap) if res[0] == "ok" else None
        return res, orc, ("subst", ts["t"], inst)
    raise KeyError(base)


def replay(ctx, rp):
    from logic import basic
    basic.load_theory('logic_base')
    r = rp["replay"]
    kind = r["kind"]
    print("replaying", kind, "--", rp.get("what", "")[:300])
    if kind == "history":
        bad = hist_failures(run_script(r["script"]))
        print("failing comparisons:", bad[:3])
        return bool(bad)
    if kind in ("inplace-hash", "subst_type_inplace"):
        fails = inplace_case(ctx, None, None, replay=r)
        print(fails[:3])
        return bool(fails)
    if kind in ("pickle-eq", "pickle-hash", "pickle-id"):
        res = _pickle_read(ctx, [_pickle_case(r["kind_obj"] if "kind_obj" in r else r.get("obj", "term"), r["wire"], r["hashed"])])
        print("reader:", res)
        return res is None or "err" in res[0] or not all(res[0].values())
    if kind in ("eq", "hash"):
        ts = _terms_of(r)
        t, u = ts["t"], ts["u"]
        exp = skey(t) == skey(u)
        res = (pycall(lambda: t == u), pycall(lambda: u == t), pycall(lambda: hash(t) == hash(u)))
        print("structures identical:", exp, " ==:", res[0], res[1], " hashes equal:", res[2])
        return res[0] != ("ok", exp) or res[1] != ("ok", exp) or (exp and res[2] != ("ok", True))
    if kind in ("eq-parsed", "hash-parsed"):
        from logic import context
        from syntax import parser
        from kernel.term import Term
        context.set_context('logic_base', vars=PARSE_VARS)
        objs = [parser.parse_term(r["text"]), Term(r["text"]), parser.parse_term(r["text2"])]
        bad = [(i, j) for i, a in enumerate(objs) for j, b in enumerate(objs)
               if (a == b) != (skey(a) == skey(b)) or (skey(a) == skey(b) and hash(a) != hash(b))]
        print("inconsistent pairs:", bad)
        return bool(bad)
    if kind.startswith("order-type") or kind.startswith("type-lt") or kind in ("eq-type", "hash-type"):
        from kernel import term_ord
        a, b, c = ty_of_js(r["a"]), ty_of_js(r["b"]), ty_of_js(r["c"])
        f = term_ord.fast_compare_typ
        ab, ba, bc, ac = f(a, b), f(b, a), f(b, c), f(a, c)
        print("cmp:", ab, ba, bc, ac, " a==b:", a == b, " a<b, b<a:", a < b, b < a)
        return (sgn(ab) != -sgn(ba) or (ab == 0) != (tkey(a) == tkey(b)) or (ab <= 0 and bc <= 0 and ac > 0)
                or (a == b) != (tkey(a) == tkey(b)) or (a == b and hash(a) != hash(b))
                or [a < b, b < a, a == b].count(True) != 1 or (a <= b) != (a < b or a == b) or (a < b and b < c and not a < c))
    if kind.startswith("order-"):
        from kernel import term_ord
        ts = _terms_of(r)
        a, b, c = ts["a"], ts["b"], ts["c"]
        f = term_ord.fast_compare
        ab, ba, bc, ac = f(a, b), f(b, a), f(b, c), f(a, c)
        print("cmp:", ab, ba, bc, ac, " a==b:", a == b, "structures identical:", skey(a) == skey(b))
        return sgn(ab) != -sgn(ba) or (ab == 0) != (skey(a) == skey(b)) or (ab <= 0 and bc <= 0 and ac > 0)
    if kind == "sorted_terms":
        from kernel import term_ord
        L = list(_terms_of(r).values())
        o1 = term_ord.sorted_terms(L)
        o2 = term_ord.sorted_terms(list(reversed([rebuild(t) for t in L])))
        k1, k2 = [skey(t) for t in o1], [skey(t) for t in o2]
        ok = (k1 == k2 and set(k1) == {skey(t) for t in L} and len(set(k1)) == len(k1)
              and all(term_ord.fast_compare(o1[i], o1[i + 1]) < 0 for i in range(len(k1) - 1)))
        print("sorted_terms consistent:", ok)
        return not ok
    base = kind.split("-")[0]
    res, orc, sem = _redo_op(base, r)
    print("result:", res if res[0] != "ok" else wstr(res[1])[:600])
    if kind == base:
        if isinstance(orc, str):
            return res[0] == "ok"
        return res[0] == "ok" and orc is not None and skey(res[1]) != skey(orc)
    if res[0] != "ok":
        return False
    if kind.endswith("-normal"):
        return has_redex(res[1])
    # type / denotation
    if sem[0] == "ty":
        _, t, cx, d = sem
        c0, c1 = close(t, cx), close(res[1], [o_ty_subst(S, d) for S in cx])
        T0, T1 = type_of(c0), type_of(c1)
        tybad = T0[0] == "ok" and (T1[0] != "ok" or tkey(T1[1]) != tkey(o_ty_subst(T0[1], d)))
        line = ["semeqty", kwire.tyinst_to(d), wire(c0), wire(c1)]
    elif sem[0] == "lam":
        from kernel.term import Comb
        from kernel.type import TFun
        _, t, x = sem
        T0, T1 = type_of(t), type_of(res[1])
        tybad = T0[0] == "ok" and (T1[0] != "ok" or tkey(T1[1]) != tkey(TFun(x.T, T0[1])))
        line = ["semeq", wire(Comb(res[1], x)), wire(t)]
    elif sem[0] == "subst":
        _, t, inst = sem
        T0, T1 = type_of(t), type_of(res[1])
        tybad = T0[0] == "ok" and (T1[0] != "ok" or tkey(T1[1]) != tkey(o_ty_subst(T0[1], dict(inst.tyinst))))
        line = ["semsubst", kwire.inst_to(inst), wire(t), wire(res[1])]
    else:
        _, t, cx = sem
        c0, c1 = close(t, cx), close(res[1], cx)
        T0, T1 = type_of(c0), type_of(c1)
        tybad = T0[0] == "ok" and (T1[0] != "ok" or tkey(T1[1]) != tkey(T0[1]))
        line = ["semeq", wire(c0), wire(c1)]
    print("types:", T0, T1)
    if kind.endswith("-type"):
        return tybad
    out = ctx.lean_driver(EXE, [sexp.dumps(line + [r.get("model_spec", SPECS[0]), 5000, 1, 400])])
    print("semantic oracle:", out)
    return bool(out) and out[0].startswith("(diff")


# ------------------------------------------------------------------ corpus: minimised past failures, replayed first
def corpus(ctx):
    d = os.path.join(ctx.verif, "corpus")
    for fn in sorted(os.listdir(d)) if os.path.isdir(d) else []:
        if not (fn.startswith("c03") and fn.endswith(".json")):
            continue
        with open(os.path.join(d, fn)) as f:
            rp = json.load(f)
        try:
            import io
            import contextlib
            with contextlib.redirect_stdout(io.StringIO()):
                still = replay(ctx, rp)
        except Exception as e:  # noqa
            ctx.broken("corpus:c03:" + fn, "replay raised %r" % e)
            continue
        ctx.count("corpus:%s" % ("fails" if still else "passes"))
        ctx.case(("corpus", fn), nontrivial=True)
        if still:
            ctx.violation(rp.get("key", "corpus:" + fn), rp.get("what", fn), rp["replay"])


# ------------------------------------------------------------------ stream (e): terms pickled by one process, read by another
_READER = r"""
import sys, json, pickle, base64
sys.path[:0] = [sys.argv[1], sys.argv[2]]
from harness.common import kwire, sexp
out = []
for line in sys.stdin:
    c = json.loads(line)
    try:
        t = pickle.loads(base64.b64decode(c["pk"]))
        if c["kind"] == "term":
            u = kwire.term_of(sexp.loads(c["wire"]))
            back = sexp.dumps(kwire.term_to(t))
        else:
            u = kwire.ty_of(sexp.loads(c["wire"]))
            back = sexp.dumps(kwire.ty_to(t))
        out.append({"eq": bool(t == u) and bool(u == t), "hash": hash(t) == hash(u), "inset": t in {u} and u in {t},
                    "same": back == c["wire"], "id_own": c["kind"] != "term" or t._id == id(t)})
    except Exception as e:
        out.append({"err": type(e).__name__ + ": " + str(e)[:200]})
print(json.dumps(out))
"""


def _pickle_read(ctx, cases):
    """run the reader process (another string-hash seed) on the cases; None if the process failed"""
    import subprocess
    env = dict(os.environ, PYTHONHASHSEED=str(1 + ctx.seed % 1000))
    verif = os.path.dirname(os.path.dirname(os.path.dirname(os.path.abspath(__file__))))
    pr = None
    try:
        pr = subprocess.run([sys.executable, "-c", _READER, ctx.repo, verif], input="".join(json.dumps(c) + "\n" for c in cases),
                            capture_output=True, text=True, timeout=300, env=env)
        return json.loads(pr.stdout)
    except Exception as e:  # noqa
        ctx.broken("correspondence:c03:e:reader", "reader process failed: %r %s" % (e, pr.stderr[-300:] if pr is not None else ""))
        return None


def _pickle_case(kind, w, hashed):
    import base64
    obj = kwire.term_of(sexp.loads(w)) if kind == "term" else kwire.ty_of(sexp.loads(w))
    if hashed:
        pycall(lambda: hash(obj))
    return {"kind": kind, "wire": w, "hashed": hashed, "pk": base64.b64encode(pickle.dumps(obj)).decode()}


def stream_pickle(ctx):
    """`however they were obtained`: a term / type written with pickle by THIS process (after hash() memoised
    `_hash_val` on some of its objects) and read by ANOTHER process (own string-hash seed) must there be == to the
    same term built from scratch, with the same hash, and be found in a set holding it."""
    import base64
    rng = ctx.rng("pickle")
    dg = DagGen(rng, share=0.3)
    cases = []
    for i in range(ctx.scale(40, 400)):
        T = dg.ty(rng.randint(0, 2))
        if i % 4 == 3:
            obj, kind, w = T, "type", sexp.dumps(kwire.ty_to(T))
        else:
            obj = dg.term(T, rng.randint(1, 3), ())
            kind, w = "term", wstr(obj)
        hashed = rng.random() < 0.7
        if hashed:
            pycall(lambda: hash(obj))
        ctx.case(("pickle-x", kind, w, hashed), nontrivial=hashed)
        cases.append({"kind": kind, "wire": w, "hashed": hashed, "pk": base64.b64encode(pickle.dumps(obj)).decode()})
    res = _pickle_read(ctx, cases)
    if res is None:
        return
    for c, r in zip(cases, res):
        if "err" in r:
            ctx.count("pickle-x:reader-error")
            mismatch(ctx, "e:reader", "reader raised %s on %s" % (r["err"], c["wire"][:300]))
            continue
        ctx.count("pickle-x:%s:%s" % (c["kind"], "hashed" if c["hashed"] else "fresh"))
        rp = {"obj": c["kind"], "wire": c["wire"], "hashed": c["hashed"]}
        if not r["same"] or not r["eq"]:
            report(ctx, "pickle-eq", "a %s read back from a pickle is not == to the same %s built from scratch: %s" % (c["kind"], c["kind"], c["wire"][:300]), rp)
        elif not r["hash"] or not r["inset"]:
            report(ctx, "pickle-hash", "a %s that was hashed, pickled and read by another process is == to the same %s built there but has a "
                   "different hash: %s" % (c["kind"], c["kind"], c["wire"][:300]), rp, key="stale-hash:pickle:read-by-another-process")
        elif not r["id_own"]:
            report(ctx, "pickle-id", "a term read from a pickle does not carry its own address as _id: %s" % c["wire"][:300], rp)


# ------------------------------------------------------------------ run
def run(ctx):
    ctx.coverage["rule"] = (
        "stream a: type-directed DAG terms (bool, 'a 'b, ?'a ?'b, nat, list, function types up to order 2) under 0-3 enclosing binders, "
        "Python sub-objects reused on purpose (also across binder depths), bound names drawn from the free names, conj/disj/Let forms; per term: "
        "== and hash against an alpha-variant and a one-field mutant, hash value against the model's tuple nest, get_type/checked_get_type, "
        "subst_type (incl. non-idempotent and swapping instantiations), incr_boundvars, abstract_over/Lambda (incl. same name at another type/kind), "
        "subst_bound/beta_conv with open arguments and the bound variable at two depths, beta_norm on nested/shared redexes, subst (svars, var_inst, "
        "partial tyinst, wrong-type/open instances). stream b: random histories (atoms, Comb/Abs over slots, Term(t), Term(temporary), copy, "
        "deepcopy, pickle, drop, gc, churn, ops through the _id caches, comparisons) mirrored with the real addresses into the heap model; "
        "subst_type_inplace on DAGs. stream c: texts rendered from a typed AST (binder names clashing with free names) parsed by parse_term / "
        "Term(text) / as alpha-variant, against the constructed term. stream d: fast_compare_typ / Type.__lt__ / fast_compare on triples from "
        "families of equal-size terms, sorted_terms. A case = one term (a), history (b), text (c), pair (d); non-trivial: size >= 4 (a), >= 3 "
        "comparisons (b), has a binder (c), different structures of equal size (d); distinct by the canonical s-expression. stream e: generated "
        "terms and types, most of them hashed first, pickled by this process and read by a second process with another string-hash seed, compared "
        "there (==, hash, set membership, _id) with the same term built from scratch; non-trivial: the object was hashed before pickling.")
    ok = ctx.lean_props(["Holpy.C03.Props"], exes=[EXE])
    if ctx.tier == "thorough" and ok:
        ctx.lean_check_modules(["Holpy.C03.Props"])
    ctx.coverage["trusted_base"] += [
        "correspondence harness harness/props/c03.py + harness/common/kwire.py (field-level serialisation of real Term/Type objects)",
        "Python's hash of equal tuples of equal strings/ints is equal; str comparison is by code point as Lean's String order",
        "the Lean evaluator `sem` run as an executable oracle (same definition the theorems are about)",
        "CPython reference counting: an object is freed when the last reference is dropped (weakref callbacks report it to the heap model)"]
    ctx.assumptions += [
        "finite standard models only; semantic comparisons whose types exceed the size cap are skipped (counted)",
        "beta_norm: the Python recursion is modelled with a depth bound (fuel); the theorems say that some depth suffices for every well-typed term "
        "and that the depth is not observable — that CPython's recursion limit is large enough for a given term is not part of the model",
        "subst_type_inplace rewrites shared objects: terms sharing objects with its target are outside the theorems (known finding)"]
    # known_findings.json is generated from FINDINGS (tools_manifest.py): a `known` entry listed below is effective at once
    for f in FINDINGS:
        if f.get("status") == "known" and not any(g.get("key") == f["key"] for g in ctx.findings):
            ctx.findings.append(dict(f, property="C03"))
    from logic import basic
    basic.load_theory('logic_base')
    corpus(ctx)
    for name, f in (("a", stream_ops), ("b", stream_hist), ("c", stream_parse), ("d", stream_order), ("e", stream_pickle)):
        t0 = ctx.coverage["evaluations"]
        try:
            f(ctx)
        except Timeout:
            raise
        ctx.log("stream %s: %d cases" % (name, ctx.coverage["evaluations"] - t0))


MANIFEST = {
    "text": "Lean theorems about the shared kernel model and the C03 model: == (structural branch) is equality of name-erased terms with identical "
            "type annotations and an equivalence; equal terms/types have equal hash trees (the tuple nest __hash__ hashes, incl. CONJ/DISJ/LET), and "
            "the memoised _hash_val is the hash of the CURRENT nest for every history of constructors, Term(t), copy, frees, hash calls and "
            "subst_type_inplace as long as no memoised term outside the rewritten objects shares one of them (hash_memo_sound; counterexamples for "
            "the alias case = the known finding, and for dropping the memo only on nodes with a type annotation); fast_compare / fast_compare_typ "
            "are total orders whose equivalence is ==; in a heap whose allocator may return any free address and whose objects may be freed at "
            "any time every constructor / Term(t) / copy keeps `_id = own address`, hence the _id fast path of == agrees with the structural "
            "comparison (fails on the pinned tree: 4-step counterexample), and subst_bound run on the heap with its (_id, depth)-keyed cache and "
            "_id-based re-use — closed or OPEN argument, the latter through the heap-level incr_boundvars (incr_heap_sound) — returns a "
            "representation of the pure result (substBound_cache_sound; counterexample for the key without depth), likewise `rec` of Term.subst "
            "with its _id-keyed cache (subst_cache_sound; counterexample when IdInv fails); for every history (MSteps: constructors, Term(t), copy, "
            "frees, hash, subst_type_inplace, allocating operations) == on two heap objects is alpha-equivalence of their unfoldings and their "
            "hashes agree (heap_eq_iff_alpha); fast_compare is transitive in all four </= combinations, antisymmetric and constant on == classes "
            "(cmp_trans, cmp_antisymm), hence a strictly sorted list is determined up to == by its elements (sorted_canonical); beta_conv keeps "
            "type and denotation (betaConv_sem); beta_norm TERMINATES on every term on which checked_get_type succeeds, under any binder context "
            "(betaNorm_terminates: normalisation of the code's own strategy — normalise fun and arg, contract at the root, normalise the contractum — "
            "proved as termination of hereditary substitution, induction on the size of the bound variable's type then on the normal body); it "
            "never raises TermException on any term (betaNorm_no_exception), its answer does not depend on the recursion depth "
            "(betaNorm_depth_irrelevant), and for a well-typed term the unique answer is beta-normal, typed at the same type and equal in "
            "denotation (betaNorm_sem, full statement: exists depth, same answer at every depth that suffices); "
            "subst_type, subst, subst_bound, abstract_over/Lambda (closed bodies), beta_conv, beta_norm preserve well-typedness, the type and the "
            "denotation in every finite standard model (for every valuation and environment: no capture). The model is tied to kernel/term.py, "
            "type.py, term_ord.py by differential execution on generated DAG terms, object histories with the real addresses, and parsed terms; "
            "the VERDICT rests on independent oracles on the implementation (field-level structure, == implies equal hashes for terms and types, "
            "re-implementations up to alpha, type preservation, `sem` in finite models, order axioms).",
    "note": "Trusted: Lean kernel; propext/Classical.choice/Quot.sound; Python's tuple/str hashing and str order; the correspondence is only as "
            "good as the generated cases. How __hash__ builds its value and which bound names results carry are NOT checked (reported as "
            "info:* counters): a refactoring that keeps 'equal terms have equal hashes' passes. beta_norm: the recursion of the Python is a depth bound in the model; termination is proved as 'some depth "
            "suffices', so a RecursionError of CPython on a very deep term is outside the theorems (the oracle re-runs such a case with a raised "
            "limit before reporting non-termination). The caches of subst / incr_boundvars / abstract_over short cuts are covered by _id injectivity (theorem) plus differential "
            "testing on shared DAGs; the caches of subst_bound and of subst's rec are modelled on the heap (subst's preceding subst_type and the "
            "abs_name_inst renaming are not). __copy__ is a model operation (copyRec, MStep.copy); deepcopy and pickle within one process are mirrored into the heap model "
            "as Term(t)-like events (correspondence only, no separate Lean operation); a pickle read by ANOTHER process is judged by the oracle "
            "only (stream e) — the model's hash nest abstracts from the per-process string hash, which is exactly what the finding "
            "stale-hash:pickle:read-by-another-process was about (fixed in /repo by d4024a9, fixes/C03-4.patch). Infinite models outside the property.",
    "design_ref": "DESIGN.md 4/C03",
}
FINDINGS = [
    {"status": "fixed", "key": "stale-hash:pickle:read-by-another-process", "commit": "d4024a9",
     "what": "a term or type that was hashed, pickled and loaded by another process keeps the writer's memoised _hash_val (string hashes are "
             "per process), so it is == to the same term built by the reader but has a different hash: Comb(Var f, Var a) hashed, pickled "
             "under PYTHONHASHSEED=1, read under PYTHONHASHSEED=2 (fixes/C03-4.patch: __setstate__ drops _hash_val)"},
    {"status": "fixed", "key": "history:stale-id-Term(t)", "commit": "4812387",
     "what": "Term(t) copied t._id: Term(Var('a', bool)) == Var('b', bool) was True once the temporary was freed and its address reused"},
    {"status": "fixed", "key": "history:stale-id-deepcopy", "commit": "a013fa9",
     "what": "copy.deepcopy / pickle rebuilt terms with the _id of the original: deepcopy(Var('a', bool)) == Var('b', bool) could be True"},
    {"status": "fixed", "key": "subst_type_inplace:shared-subobject-twice", "commit": "fe62d74",
     "what": "subst_type_inplace applied the instantiation twice to a sub-object occurring twice in the term (f x x with shared x, {a: ?'a list}) giving an ill-typed term"},
    {"status": "known", "key": ALIAS_KEY,
     "what": "subst_type_inplace rewrites the objects of its target in place; another live term that shares one of these objects changes with it but keeps "
             "its memoised _hash_val, so it is == to a freshly built equal term with a different hash (only parser output is rewritten in place in the "
             "repository, which shares with nothing else: latent)"},
]
