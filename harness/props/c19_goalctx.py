"""C19 stream: HISTORIES on Goal objects -- nested goals created one after the other from one enclosing goal.

`Goal.proof_by_case`, `Goal.proof_by_induction` and the well-formedness sub-goals build several `Goal` objects from
the enclosing goal's context; each branch has its own *stated* conditions (the conditions of the goal it belongs to
and of every enclosing goal -- nothing else).  A rule applied in one branch must keep the value of the expression
for every parameter value admitted by the stated conditions of THAT branch; what was stated for a sibling branch,
for a branch created later, or for a proof attempt that was abandoned must not influence it.

A case is a small script on one live `CompFile`:

    ["split",  path, "p = c"]        goal at `path`.proof_by_case("p = c")        -> children 1 (p = c), 2 (p != c)
    ["induct", path, "n"]            goal at `path`.proof_by_induction("n")        -> children 1 (base), 2 (step)
    ["calc",   path, side, rule]     goal at `path`: proof by calculation (started if the goal has none of that kind,
                                     which abandons an earlier case split), `rule` on the lhs / rhs calculation

with path = [] (the goal itself), [2] (its second branch), [2, 1] ...  Branches are visited in random order, splits are
nested, the enclosing goal is sometimes calculated directly after its branches were created.  Oracle: every
calculation step is judged numerically (StepJudge of c19.py: two precisions, interior / near-bound / wide samples)
at parameter values satisfying the stated conditions collected along the `parent` chain of Goal objects -- never the
conditions read back from a context object.

Entry points (called from c19.py):  goal_context_stream(ctx, I, H, n),  replay_goalctx(ctx, I, H, rp) -> bool.
"""
import time

from harness.common.ctx import Timeout, time_limit

# (lhs, rhs, conditions, candidate split constants) -- {p}, {q} are replaced by parameter names.  Every left side
# depends on {p} in a way that substituting a constant for it, or assuming a sign for it, changes the value.
TEMPLATES = [
    ("(INT x:[0,1]. x ^ {p})", "1 / ({p} + 1)", ["{p} > -1"], ["0", "1", "2"]),
    ("(INT x:[0,1]. x ^ ({p} + 1))", "1 / ({p} + 2)", ["{p} > -1"], ["0", "1", "-1/2"]),
    ("(INT x:[0,{p}]. x ^ 2)", "{p} ^ 3 / 3", ["{p} > 0"], ["1", "2", "1/2"]),
    ("(INT x:[0,1]. ({p} + x) ^ 2)", "{p} ^ 2 + {p} + 1/3", [], ["0", "1", "-1"]),
    ("(INT x:[0,1]. {p} * x + {q})", "{p} / 2 + {q}", [], ["0", "1", "2"]),
    ("(INT x:[0,1]. exp({p} * x))", "(exp({p}) - 1) / {p}", ["{p} > 0"], ["1", "2"]),
    ("{p} ^ 2 * sin({p}) + {q} * {p}", "{p} * ({p} * sin({p}) + {q})", [], ["0", "1", "2"]),
    ("exp({p}) * cos({q} * {p}) + {p}", "{p} + cos({p} * {q}) * exp({p})", [], ["0", "1"]),
    ("(INT x:[0,pi]. sin({p} * x) + {q})", "(1 - cos({p} * pi)) / {p} + {q} * pi", ["{p} > 0"], ["1", "2"]),
    ("(INT x:[1,2]. {p} / x + {q} * x)", "{p} * log(2) + 3/2 * {q}", [], ["0", "1", "3"]),
    ("abs({p}) * (INT x:[0,1]. x) + {q}", "abs({p}) / 2 + {q}", [], ["0", "1", "-1"]),
    ("sqrt({p} ^ 2 + 1) + {q} ^ 2", "{q} ^ 2 + sqrt(1 + {p} ^ 2)", [], ["0", "1"]),
]
# goals about a natural number: induction, then a case split inside the induction step
INDUCT_TEMPLATES = [
    ("(INT x:[0,1]. x ^ {n})", "1 / ({n} + 1)", ["{n} >= 0"], ["0", "1", "2"]),
    ("(INT x:[0,1]. ({n} + 1) * x ^ {n} + {q})", "1 + {q}", ["{n} >= 0"], ["0", "1"]),
]
RULES = ["FullSimplify", "FullSimplify", "FullSimplify", "Simplify", "ExpandPolynomial"]
PARAMS = ["a", "b", "c", "k", "m", "t"]


def mk_rule(I, name):
    R = I.rules
    if name == "Simplify":
        return R.Simplify()
    if name == "ExpandPolynomial":
        return R.ExpandPolynomial()
    return R.FullSimplify()


def goal_at(I, root, path):
    """-> (goal object, stated conditions along the chain root .. goal) or (None, why)."""
    cs = I.compstate
    g, stated = root, list(root.conds.data)
    for k in path:
        pr = g.proof
        if isinstance(pr, cs.CaseProof):
            g = pr.case_1 if k == 1 else pr.case_2
        elif isinstance(pr, cs.InductionProof):
            g = pr.base_case if k == 1 else pr.induct_case
        else:
            return None, "no-branches"
        stated += list(g.conds.data)
    return g, stated


def run_script(I, H, goal, conds, script):
    """Runs the script on a fresh CompFile; yields (op index, op, before, after, stated conditions, status) for every
    "calc" op (status "ok" | "raises:<Exc>" | "stop:<why>"); a "stop" ends the script."""
    cs = I.compstate
    with H.quiet():
        file = cs.CompFile(I.context.Context(), "c19_goalctx")
        root = file.add_goal(goal, conds=list(conds))
    for i, op in enumerate(script):
        with H.quiet():
            g, stated = goal_at(I, root, op[1])
        if g is None:
            yield i, op, None, None, None, "stop:" + stated
            return
        if op[0] == "split":
            try:
                with H.quiet():
                    g.proof_by_case(op[2])
            except Exception as ex:  # noqa
                yield i, op, None, None, None, "stop:split-raises:" + type(ex).__name__
                return
        elif op[0] == "induct":
            try:
                with H.quiet():
                    g.proof_by_induction(op[2])
            except Exception as ex:  # noqa
                yield i, op, None, None, None, "stop:induct-raises:" + type(ex).__name__
                return
        else:
            with H.quiet():
                if not isinstance(g.proof, cs.CalculationProof):
                    g.proof_by_calculation()
                calc = g.proof.lhs_calc if op[2] == "lhs" else g.proof.rhs_calc
                before = calc.last_expr
            try:
                with H.quiet(), time_limit(30):
                    calc.perform_rule(mk_rule(I, op[3]))
                after = calc.last_expr
            except Timeout:
                yield i, op, before, None, stated, "raises:Timeout"
                continue
            except Exception as ex:  # noqa
                yield i, op, before, None, stated, "raises:" + type(ex).__name__
                continue
            yield i, op, before, after, stated, "ok"


def show_script(script):
    out = []
    for op in script:
        where = "goal" if not op[1] else "branch " + ".".join(str(k) for k in op[1])
        if op[0] == "split":
            out.append("%s: proof by cases on %s" % (where, op[2]))
        elif op[0] == "induct":
            out.append("%s: induction on %s" % (where, op[2]))
        else:
            out.append("%s: %s on the %s" % (where, op[3], op[2]))
    return "; ".join(out)


def judge_case(ctx, I, H, judge, goal, conds, script, intvars):
    """Runs one script and judges its calculation steps; reports the first failing step.  -> True if one failed."""
    E = I.expr
    for i, op, before, after, stated, status in run_script(I, H, goal, conds, script):
        if status != "ok":
            ctx.count("goalctx:" + status.split(":")[0] + ":" + status.split(":")[1])
            continue
        # the re-parsed printed form: what the user sees is what is judged (and nothing is shared with the live objects)
        try:
            with H.quiet():
                b0 = I.parser.parse_expr(str(before))
                a0 = I.parser.parse_expr(str(after))
                st = [I.parser.parse_expr(str(c)) for c in stated]
            iv = set(intvars) | H.integer_vars(E, [b0, a0])
            verdict, detail = judge.judge(b0, a0, st, {}, {}, iv)
        except Exception as ex:  # noqa
            verdict, detail = "skip:evaluator-error:" + type(ex).__name__, None
        ctx.count("goalctx:step:" + verdict.split(":")[0])
        ctx.count("goalctx:depth%d:%s" % (len(op[1]), "changed" if str(before) != str(after) else "unchanged"))
        if verdict == "bad":
            upto = script[:i + 1]
            key = "goalctx:%s|%s|%s" % (goal, ",".join(conds), show_script(upto))
            ctx.violation(key, "goal %s under [%s]; history: %s.  The last step rewrites %s to %s, which is a different value at "
                          "parameter values satisfying the conditions stated for that branch [%s]: %s"
                          % (goal, ", ".join(conds), show_script(upto), before, after, ", ".join(str(c) for c in stated), detail),
                          {"kind": "goalctx", "goal": goal, "conds": list(conds), "script": upto, "intvars": sorted(intvars)})
            return True
    return False


def gen_case(rng):
    """-> (goal string, conditions, script, integer variables)"""
    p, q = rng.sample(PARAMS, 2)
    script, intvars = [], []
    if rng.random() < 0.15:
        lhs, rhs, conds, consts = rng.choice(INDUCT_TEMPLATES)
        p = "n"
        fill = lambda s: s.replace("{n}", "n").replace("{q}", q)     # noqa: E731
        intvars = ["n"]
        script.append(["induct", [], "n"])
        base = [2]
        leaves = [[1]]
    else:
        lhs, rhs, conds, consts = rng.choice(TEMPLATES)
        fill = lambda s: s.replace("{p}", p).replace("{q}", q)       # noqa: E731
        base = []
        leaves = []
    goal = "%s = %s" % (fill(lhs), fill(rhs))
    conds = [fill(c) for c in conds]
    c1 = rng.choice(consts)
    script.append(["split", base, "%s = %s" % (p, c1)])
    nested = rng.random() < 0.4
    if nested:
        # a second split inside one branch: on another constant of p in the branch p != c1, on q in either branch
        if rng.random() < 0.5 and len(consts) > 1:
            c2 = rng.choice([c for c in consts if c != c1])
            inner = base + [2]
            script.append(["split", inner, "%s = %s" % (p, c2)])
        else:
            inner = base + [rng.choice([1, 2])]
            script.append(["split", inner, "%s = %s" % (q, rng.choice(["0", "1", "2"]))])
        other = base + [3 - inner[-1]]
        leaves += [inner + [1], inner + [2], other]
    else:
        leaves += [base + [1], base + [2]]
    rng.shuffle(leaves)
    for leaf in leaves:
        sides = ["lhs", "rhs"] if rng.random() < 0.6 else [rng.choice(["lhs", "lhs", "rhs"])]
        for side in sides:
            script.append(["calc", leaf, side, rng.choice(RULES)])
            if rng.random() < 0.25:
                script.append(["calc", leaf, side, rng.choice(RULES)])
    r = rng.random()
    if r < 0.3:
        # the case split is abandoned: the enclosing goal is calculated directly
        script.append(["calc", base, "lhs", "FullSimplify"])
        if rng.random() < 0.5:
            script.append(["calc", base, "rhs", "FullSimplify"])
    elif r < 0.45 and nested:
        # only the inner split is abandoned
        script.append(["calc", inner, "lhs", "FullSimplify"])
    return goal, conds, script, intvars


def goal_context_stream(ctx, I, H, n):
    """n generated histories on Goal objects (see the module docstring)."""
    rng = ctx.rng("goalctx")
    judge = H.StepJudge(I, rng, nsamples=3, budget_s=3.0)
    t0 = time.time()
    sampled = False
    nbad = 0
    for _ in range(n):
        goal, conds, script, intvars = gen_case(rng)
        ctx.case(("goalctx", goal, tuple(conds), repr(script)), nontrivial=True)
        ctx.count("goalctx:generated")
        try:
            with time_limit(90):
                bad = judge_case(ctx, I, H, judge, goal, conds, script, intvars)
        except Timeout:
            ctx.count("goalctx:timeout")
            continue
        if not sampled:
            ctx.sample({"goalctx": {"goal": goal, "conds": conds, "history": show_script(script)}})
            sampled = True
        if bad:
            ctx.count("goalctx:bad")
            nbad += 1
            if nbad >= 3:          # three written-out failing histories are enough for one run
                break
    ctx.log("goal/branch histories done: %d in %.1fs" % (n, time.time() - t0))


def replay_goalctx(ctx, I, H, rp):
    """Re-run one recorded history through the same oracle; True if it still fails."""
    rng = ctx.rng("replay")
    judge = H.StepJudge(I, rng, nsamples=4, budget_s=10.0)
    script = [list(op) for op in rp["script"]]
    return judge_case(ctx, I, H, judge, rp["goal"], list(rp.get("conds", [])), script, rp.get("intvars", []))
