"""C11 — definitional items are conservative and survive save/load/edit.

Stages: (1) Lean obligations Holpy.C11.Props (`def_conservative`, `def_conservative_poly`,
`def_keeps_consistency`, four `…_counterexample`s, `def_ext_welltyped`) + driver `c11_model`;
(2) stream `library`: EVERY item of the library theory files is parsed exactly as
`monitor.check_theory` does it (theory loaded up to the item), its extensions are checked against the
extended signature with `Theory.check_type/check_term` and `Thm.check_thm_type`, and the two round
trips `parse_item(export_json()) == item`, `parse_edit(get_display()) == item` are compared the way
`check_theory` compares them; (3) stream `generated`: definitions / datatypes / inductive predicates /
recursive functions written as item descriptions (strings, as in the JSON files), including
adversarial ones; for `def` the accept/reject verdict of `Definition.parse` is compared with the Lean
`defOK` on the parsed term (correspondence) and — property oracle — every ACCEPTED definition is
handed to a finite-model search (Lean `sem`): a valuation of the old signature under which no value
of the new constant satisfies all generated type instances of the equation for all values of the
variables is a violation; so is an accepted definition of an already declared (overlapping)
constant instance, an ill-typed extension, or a failed round trip.
"""
import copy
import json
import os

from harness.common import sexp
from harness.common import kwire
from harness.common.ctx import Timeout, time_limit

EXE = "c11_model"

QUICK_THEORIES = ["logic_base", "logic", "nat", "function", "set", "list", "int", "rat", "iterate",
                  "expr", "hoare", "gcl", "string", "sat"]


# ------------------------------------------------------------------ helpers on real objects
def all_types_of_term(t, acc):
    if t.is_svar() or t.is_var() or t.is_const():
        acc.append(t.T)
    elif t.is_comb():
        all_types_of_term(t.fun, acc)
        all_types_of_term(t.arg, acc)
    elif t.is_abs():
        acc.append(t.var_T)
        all_types_of_term(t.body, acc)
    return acc


def check_extensions(thy, exts):
    """Every extension is well-formed over the (already extended) theory `thy`.
    Returns a list of defect strings (empty = fine)."""
    from kernel.term import Const
    bad = []
    for ext in exts:
        try:
            if ext.is_constant():
                thy.check_type(ext.T)
                # the constant is usable at its declared type
                thy.check_term(Const(ext.name, ext.T))
            elif ext.is_theorem():
                th = ext.th
                for t in list(th.hyps) + [th.prop]:
                    for T in all_types_of_term(t, []):
                        thy.check_type(T)
                    # Theory.check_term has no case for schematic variables (TypeError): go through
                    # the constants, which is all check_term looks at
                    for c in t.get_consts():
                        thy.check_term(c)
                    if t.is_open():
                        raise ValueError("open term")
                th.check_thm_type()
            elif ext.is_attribute():
                if not thy.has_theorem(ext.name):
                    raise ValueError("attribute for a missing theorem")
        except Timeout:
            raise
        except Exception as e:  # noqa
            bad.append("%s %s: %s: %s" % (("const", "thm", "attr", "tconst", "overload")[
                2 if ext.is_attribute() else 1 if ext.is_theorem() else 0 if ext.is_constant() else 3 if ext.is_tconst() else 4],
                getattr(ext, "name", "?"), type(e).__name__, str(getattr(e, "str", e))[:160]))
    return bad


def item_name(item):
    return str(getattr(item, "name", None))


def canon_json(x):
    return json.dumps(x, sort_keys=True, ensure_ascii=False, default=str)


def err_sig(item):
    e = item.error
    return None if e is None else "%s: %s" % (type(e).__name__, str(getattr(e, "str", e))[:200])


def same_item(a, b, thy):
    """`a` and `b` are the same item as far as anything observable goes: `Item.__eq__` (which is
    what monitor.check_theory uses, but which ignores whatever a class forgets to list), the file
    form `export_json()` and the editor/display form `get_display()`.  Items that carry an error
    compare the error by class and message (exception objects are never `==`).  Returns None or a
    description of the first difference."""
    from kernel import theory
    from syntax.settings import global_setting
    if err_sig(a) != err_sig(b):
        return "error differs: %s / %s" % (err_sig(a), err_sig(b))
    if a.error is None and not (a == b):
        return "!= item (Item.__eq__)"
    theory.thy = thy
    ja, jb = canon_json(a.export_json()), canon_json(b.export_json())
    if ja != jb:
        return "export_json() differs: %s / %s" % (first_diff(ja, jb))
    with global_setting(unicode=True, highlight=False, line_length=None):
        da, db = canon_json(canon_display(a.get_display())), canon_json(canon_display(b.get_display()))
    if da != db:
        return "get_display() differs: %s / %s" % (first_diff(da, db))
    return None


def canon_display(d):
    """variable declarations are a dictionary (`vars`): the files are written with sort_keys, so
    their order is not part of the item"""
    if isinstance(d, dict) and isinstance(d.get('vars'), str):
        d = dict(d)
        d['vars'] = "\n".join(sorted(d['vars'].split("\n")))
    return d


def first_diff(x, y):
    i = 0
    while i < min(len(x), len(y)) and x[i] == y[i]:
        i += 1
    return x[max(0, i - 30): i + 40], y[max(0, i - 30): i + 40]


class ItemRun:
    """What `monitor.check_theory` does for one raw item, plus the extension check and the JSON
    round trip.  `theory.thy` must be the theory just before the item; afterwards it is the theory
    extended by the item (if accepted)."""

    def __init__(self, raw, widths=None):
        self.raw = raw
        self.widths = ALL_WIDTHS if widths is None else widths   # (line_length, unicode) besides monitor's (None, True)
        self.status = None        # 'error' | 'ext-raises' | 'extend-fails' | 'accepted'
        self.err = None
        self.defects = []         # (class, detail)
        self.hazards = []         # (class, detail): accepted definitional item that is not conservative
        self.item = None
        self.exts = None
        self.old_thy = None

    def run(self):
        # the parser prints "When parsing: …" on failures: keep the check's output readable
        import contextlib
        import io
        with contextlib.redirect_stdout(io.StringIO()):
            return self._run()

    def _run(self):
        from kernel import theory
        from server import items
        raw = self.raw
        self.types_before = set(theory.thy.get_data("type_sig"))     # Datatype.parse itself adds the type
        self.consts_before = dict(theory.thy.get_data("term_sig"))
        self.overloaded_before = set(theory.thy.get_data("overload"))
        item = items.parse_item(copy.deepcopy(raw))
        self.item = item
        return self._rest(item)

    def rejected_roundtrips(self, item):
        """A rejected item keeps the text it was given (that is what the user has to repair): its
        file form and its editor form parse back to an item with the same error and the same text."""
        from kernel import theory
        from server import items
        from syntax.settings import global_setting
        thy0 = copy.copy(theory.thy)
        try:
            with global_setting(unicode=True, highlight=False):
                item.get_display()
        except Timeout:
            raise
        except Exception as e:  # noqa
            # export_web() shows rejected items too: no editor form at all
            self.defects.append(("display-rejected", "get_display() of the rejected item raises %s: %s" % (type(e).__name__, str(e)[:120])))
            theory.thy = thy0
            return
        try:
            js = json.loads(json.dumps(item.export_json(), ensure_ascii=False, sort_keys=True))
            theory.thy = copy.copy(thy0)
            item3 = items.parse_item(js)
            d = same_item(item, item3, copy.copy(thy0))
            if d is not None:
                self.defects.append(("json-roundtrip-rejected", "parse_item(export_json()) of the rejected item: " + d))
        except Timeout:
            raise
        except Exception as e:  # noqa
            self.defects.append(("json-roundtrip-rejected", "raises %s: %s" % (type(e).__name__, str(e)[:160])))
        try:
            theory.thy = copy.copy(thy0)
            with global_setting(unicode=True, highlight=False):
                edit_item = item.get_display()
            theory.thy = copy.copy(thy0)
            item2 = items.parse_edit(edit_item)
            if item.ty == 'thm':
                item2.proof, item2.steps, item2.num_gaps = item.proof, item.steps, item.num_gaps
            d = same_item(item, item2, copy.copy(thy0))
            if d is not None:
                self.defects.append(("edit-roundtrip-rejected", "parse_edit(get_display()) of the rejected item: " + d))
        except Timeout:
            raise
        except Exception as e:  # noqa
            self.defects.append(("edit-roundtrip-rejected", "raises %s: %s" % (type(e).__name__, str(e)[:160])))
        theory.thy = thy0

    def edit_roundtrip_at(self, item, old_thy, new_thy, L, uni):
        """parse_edit(get_display()) with the editor form produced under line_length=L; returns a
        description of the failure or None"""
        from kernel import theory
        from server import items
        from syntax.settings import global_setting
        try:
            theory.thy = new_thy                       # the item is displayed in the extended theory
            with global_setting(line_length=L):
                with global_setting(unicode=uni, highlight=False):
                    edit_item = item.get_display()
            theory.thy = copy.copy(old_thy)
            item2 = items.parse_edit(edit_item)
            if item.ty == 'thm':
                item2.proof = item.proof
                item2.steps = item.steps
                item2.num_gaps = item.num_gaps
            if item2.error is not None:
                return "parse_edit(get_display()) fails: %s: %s" % (type(item2.error).__name__, str(item2.error)[:120])
            d = same_item(item, item2, new_thy)
            if d is not None:
                return "parse_edit(get_display()) " + d
        except Timeout:
            raise
        except Exception as e:  # noqa
            return "raises %s: %s" % (type(e).__name__, str(e)[:120])
        return None

    def _rest(self, item):
        from kernel import theory
        from server import items
        from syntax.settings import global_setting
        raw = self.raw
        if item.error is not None:
            self.status, self.err = "error", "%s: %s" % (type(item.error).__name__, str(item.error)[:200])
            self.rejected_roundtrips(item)
            return self
        try:
            exts = item.get_extension()
        except Timeout:
            raise
        except Exception as e:  # noqa
            self.status, self.err = "ext-raises", "%s: %s" % (type(e).__name__, str(e)[:200])
            self.defects.append(("extension-raises", self.err))
            return self
        self.exts = exts
        old_thy = copy.copy(theory.thy)
        self.old_thy = old_thy
        try:
            theory.thy.unchecked_extend(exts)
        except Timeout:
            raise
        except Exception as e:  # noqa
            # e.g. "Constant already exists": the item is not accepted; the theory is restored
            theory.thy = old_thy
            self.status, self.err = "extend-fails", "%s: %s" % (type(e).__name__, str(getattr(e, "str", e))[:200])
            return self
        new_thy = theory.thy
        self.status = "accepted"
        if item.ty in ('def', 'def.ind', 'def.pred', 'type.ind'):
            # "the NEW constant": a definitional item must not give equations to a constant that exists
            # already (whatever introduced it, in this or in an imported theory, at whatever type)
            for e in exts:
                if e.is_constant() and e.name in self.consts_before and e.name not in self.overloaded_before:
                    self.hazards.append(("redeclared-constant", "the constant %s :: %s exists already (declared %s)" % (
                        e.name, e.T, self.consts_before[e.name])))
                    break
        if item.ty == 'type.ind' and item.name in getattr(self, "types_before", ()):
            # a second "definition" of an existing type: its induction / distinctness theorems join
            # (or replace) those of the first one, constants of the old type change their meaning
            self.hazards.append(("redeclared-type", "the type %s exists already" % item.name))
        for d in check_extensions(new_thy, exts):
            self.defects.append(("ill-typed-extension", d))
        # -- editor round trip, exactly as monitor.check_theory
        try:
            with global_setting(unicode=True, highlight=False):
                edit_item = item.get_display()
            theory.thy = copy.copy(old_thy)
            item2 = items.parse_edit(edit_item)
            if item.ty == 'thm':
                item2.proof = item.proof
                item2.steps = item.steps
                item2.num_gaps = item.num_gaps
            if item2.error is not None:
                self.defects.append(("edit-roundtrip", "parse_edit(get_display()) fails: %s: %s" % (
                    type(item2.error).__name__, str(item2.error)[:160])))
            else:
                d = same_item(item, item2, new_thy)
                if d is not None:
                    self.defects.append(("edit-roundtrip", "parse_edit(get_display()) " + d))
        except Timeout:
            raise
        except Exception as e:  # noqa
            self.defects.append(("edit-roundtrip", "raises %s: %s" % (type(e).__name__, str(e)[:160])))
        # -- the same round trip under the ambient settings the IDE uses: app/ide.py builds the editor
        # form (`export_web`: get_display under highlight=False, unicode=True) inside
        # global_setting(line_length=<client width>) and hands it back to parse_edit
        failing = []
        for (L, uni) in self.widths:
            d = self.edit_roundtrip_at(item, old_thy, new_thy, L, uni)
            if d is not None:
                failing.append("line_length=%s unicode=%s: %s" % (L, uni, d))
        if failing:
            self.defects.append(("edit-roundtrip-width", failing[0] + (" (and %d more settings)" % (len(failing) - 1) if len(failing) > 1 else "")))
        # -- file round trip
        try:
            # holpy writes a file from the loaded theory (the item's own constants exist when it is printed) and
            # reads it back item by item (the item is parsed in the theory before it)
            theory.thy = new_thy
            js = item.export_json()
            js = json.loads(json.dumps(js, ensure_ascii=False, sort_keys=True))   # what the file holds
            theory.thy = copy.copy(old_thy)
            item3 = items.parse_item(js)
            if item3.error is not None:
                self.defects.append(("json-roundtrip", "parse_item(export_json()) fails: %s: %s" % (
                    type(item3.error).__name__, str(item3.error)[:160])))
            else:
                d = same_item(item, item3, new_thy)
                if d is not None:
                    self.defects.append(("json-roundtrip", "parse_item(export_json()) " + d))
        except Timeout:
            raise
        except Exception as e:  # noqa
            self.defects.append(("json-roundtrip", "raises %s: %s" % (type(e).__name__, str(e)[:160])))
        theory.thy = new_thy
        return self


ALL_WIDTHS = [(120, True), (80, True), (60, True), (40, True), (None, False), (60, False)]


# ------------------------------------------------------------------ stream (a): the library
def library_names(ctx):
    d = os.path.join(ctx.repo, "library")
    return sorted(f[:-5] for f in os.listdir(d) if f.endswith(".json"))


def load_failure(ctx, name, e):
    """the library no longer loads: some accepted item of an imported theory has an extension the
    theory refuses (or parse_item itself raises)"""
    ctx.violation("%s:load" % name, "the imports of library theory %s cannot be loaded: %s: %s" % (
        name, type(e).__name__, str(getattr(e, "str", e))[:300]), {"stream": "library-load", "theory": name})


def run_library(ctx, names):
    from logic import basic
    from kernel import theory
    nitems = 0
    nrej = {}
    for name in names:
        data = basic.load_json_data(name)
        try:
            with time_limit(600):
                basic.load_theory(name, limit='start')
        except Timeout:
            raise
        except Exception as e:  # noqa
            load_failure(ctx, name, e)
            continue
        for idx, raw in enumerate(data['content']):
            ty = raw.get('ty')
            widths = None
            if ty == 'thm' and ctx.tier == "quick":      # thousands of theorems: two of the settings each, rotating
                k = (idx + ctx.seed) % len(ALL_WIDTHS)
                widths = [ALL_WIDTHS[k], ALL_WIDTHS[(k + 3) % len(ALL_WIDTHS)]]
            with time_limit(180):
                r = ItemRun(raw, widths).run()
            nitems += 1
            ctx.count("library:%s:%s" % (ty, r.status))
            ctx.case(("lib", name, idx), nontrivial=(r.status == "accepted" and ty != "header"))
            if r.status == "error":
                # The property does not say that a library item has to be ACCEPTED (it speaks about what
                # accepted items generate, and about round trips).  A rejected library item is therefore
                # no violation; but the extension and acceptance obligations of this item - and of the
                # items that depend on it - are then not exercised, which is reported as a stream that
                # no longer checks (once per theory) and counted.
                nrej[name] = nrej.get(name, 0) + 1
                if nrej[name] == 1:
                    ctx.broken("library:c11:rejected-item:%s" % name,
                               "library item %s %s of theory %s is rejected (%s): its extensions and those of dependent items are not exercised" % (
                                   ty, item_name(r.item), name, r.err))
            elif r.status in ("ext-raises", "extend-fails"):
                # an accepted item whose extension cannot be generated, or is refused by the theory it
                # extends, is not "well-typed over the extended signature"
                ctx.violation("%s:%s:%s" % (name, item_name(r.item), r.status),
                              "library item %s %s of theory %s: %s (%s)" % (ty, item_name(r.item), name, r.status, r.err),
                              {"stream": "library", "theory": name, "index": idx, "raw": raw})
            if r.status == "accepted" and ty == "def.ind":
                try:
                    okp, why = prim_rec_ok(r.item, theory.thy)
                except Timeout:
                    raise
                except Exception as e:  # noqa
                    okp, why = False, "judge-crashed:%s" % type(e).__name__
                ctx.count("primRecOK:library:%s" % ("yes" if okp else "no:" + str(why)))
                ctx.coverage.setdefault("primRecOK", {"library_yes": [], "library_no": {}})
                if okp:
                    ctx.coverage["primRecOK"]["library_yes"].append("%s:%s" % (name, item_name(r.item)))
                else:
                    ctx.coverage["primRecOK"]["library_no"]["%s:%s" % (name, item_name(r.item))] = str(why)
            if r.status == "accepted":
                for cls, detail in definitional_hazards(r.item) + r.hazards:
                    ctx.violation("%s:%s:%s" % (name, item_name(r.item), cls),
                                  "library %s item %s of theory %s is not conservative: %s" % (ty, item_name(r.item), name, detail),
                                  {"stream": "library", "theory": name, "index": idx, "raw": raw, "defect": cls})
            if ty == "def" and r.status == "accepted":
                for cond in not_a_definition(r.item.name, r.item.type, r.item.prop):
                    ctx.violation("%s:%s:not-a-definition:%s" % (name, item_name(r.item), cond),
                                  "library definition %s of theory %s violates the side condition '%s'" % (item_name(r.item), name, cond),
                                  {"stream": "library", "theory": name, "index": idx, "raw": raw, "defect": "not-a-definition"})
            for cls, detail in r.defects:
                ctx.violation("%s:%s:%s" % (name, item_name(r.item), cls),
                              "library item %s %s of theory %s: %s" % (ty, item_name(r.item), name, detail),
                              {"stream": "library", "theory": name, "index": idx, "raw": raw, "defect": cls})
    return nitems


# ------------------------------------------------------------------ stream (b): generated items
# types as tuples: ("bool",) ("nat",) ("tv", n) ("stv", n) ("fun", A, B) ("list", A)
BOOL, NAT = ("bool",), ("nat",)
TA, TB, TC = ("tv", "a"), ("tv", "b"), ("tv", "c")


def fun(*ts):
    r = ts[-1]
    for a in reversed(ts[:-1]):
        r = ("fun", a, r)
    return r


def ty_str(T, top=True):
    k = T[0]
    if k == "bool":
        return "bool"
    if k == "nat":
        return "nat"
    if k == "int":
        return "int"
    if k == "tv":
        return "'" + T[1]
    if k == "stv":
        return "?'" + T[1]
    if k == "list":
        return ty_str(T[1], False) + " list"
    if k == "fun":
        s = "%s => %s" % (ty_str(T[1], False), ty_str(T[2], True))
        return s if top else "(" + s + ")"
    raise ValueError(T)


def ty_tvars(T, acc=None):
    acc = [] if acc is None else acc
    if T[0] == "tv":
        if T[1] not in acc:
            acc.append(T[1])
    elif T[0] in ("fun", "list"):
        for a in T[1:]:
            ty_tvars(a, acc)
    return acc


BASES = [BOOL, TA, TB, NAT, BOOL, TA]
ARG_TYPES = BASES + [fun(TA, BOOL), fun(TA, TA), fun(NAT, BOOL), fun(TA, TB), fun(BOOL, BOOL), ("list", TA), fun(TA, TA, BOOL)]
VNAMES = ["x", "y", "z", "f", "g", "p", "q", "u", "v", "w"]
BNAMES = ["k", "m", "r", "s", "t"]


class DefGen:
    """Writes `def` item descriptions (the strings of a JSON theory file)."""

    def __init__(self, rng, counter):
        self.rng = rng
        self.counter = counter
        self.bases = BASES          # base types binders / equations may use (type variables of the constant's type)

    def fresh(self, prefix):
        self.counter[0] += 1
        return "%s%d" % (prefix, self.counter[0])

    def base(self):
        return self.rng.choice(BASES)

    def term(self, T, depth, env, extra_tv=None):
        """a fully parenthesised term of type T over env = [(name, type)]"""
        rng = self.rng
        cands = [n for n, S in env if S == T]
        fcands = [(n, S) for n, S in env if S[0] == "fun" and self.result_after(S, T) is not None]
        r = rng.random()
        if depth <= 0 or r < 0.3:
            if cands and rng.random() < 0.85:
                return rng.choice(cands)
            return self.leaf(T, env)
        if fcands and r < 0.55:
            n, S = rng.choice(fcands)
            args = self.result_after(S, T)
            return "(" + " ".join([n] + [self.term(A, depth - 1, env) for A in args]) + ")"
        k = T[0]
        if k == "bool":
            c = rng.randrange(9)
            if c == 0:
                S = rng.choice(self.bases + ([fun(TA, BOOL)] if TA in self.bases else []))
                return "(%s = %s)" % (self.term(S, depth - 1, env), self.term(S, depth - 1, env))
            if c == 1:
                return "(%s --> %s)" % (self.term(BOOL, depth - 1, env), self.term(BOOL, depth - 1, env))
            if c == 2:
                return "(~%s)" % self.term(BOOL, depth - 1, env)
            if c == 3:
                return "(%s & %s)" % (self.term(BOOL, depth - 1, env), self.term(BOOL, depth - 1, env))
            if c == 4:
                return "(%s | %s)" % (self.term(BOOL, depth - 1, env), self.term(BOOL, depth - 1, env))
            if c in (5, 6):
                S = rng.choice(self.bases)
                v = rng.choice(BNAMES + [n for n, _ in env][:1])
                return "(%s%s::%s. %s)" % ("!" if c == 5 else "?", v, ty_str(S), self.term(BOOL, depth - 1, [(v, S)] + [e for e in env if e[0] != v]))
            if c == 7:
                return "(%s <--> %s)" % (self.term(BOOL, depth - 1, env), self.term(BOOL, depth - 1, env))
            return "(if %s then %s else %s)" % (self.term(BOOL, depth - 1, env), self.term(BOOL, depth - 1, env), self.term(BOOL, depth - 1, env))
        if k == "nat":
            c = rng.randrange(4)
            if c == 0:
                return "(Suc %s)" % self.term(NAT, depth - 1, env)
            if c == 1:
                return "(%s + %s)" % (self.term(NAT, depth - 1, env), self.term(NAT, depth - 1, env))
            if c == 2:
                return "(if %s then %s else %s)" % (self.term(BOOL, depth - 1, env), self.term(NAT, depth - 1, env), self.term(NAT, depth - 1, env))
            return self.leaf(T, env)
        if k == "fun":
            v = rng.choice(BNAMES)
            return "(%%%s::%s. %s)" % (v, ty_str(T[1]), self.term(T[2], depth - 1, [(v, T[1])] + [e for e in env if e[0] != v]))
        if k == "list":
            if rng.random() < 0.5:
                return "(%s # %s)" % (self.term(T[1], depth - 1, env), self.term(T, depth - 1, env))
            return self.leaf(T, env)
        if cands:
            if rng.random() < 0.5:
                return "(if %s then %s else %s)" % (self.term(BOOL, depth - 1, env), rng.choice(cands), rng.choice(cands))
            return rng.choice(cands)
        return self.leaf(T, env)

    def result_after(self, S, T):
        """argument types to apply a function of type S to in order to get T (None if impossible)"""
        args = []
        while S[0] == "fun":
            args.append(S[1])
            S = S[2]
            if S == T:
                return args
        return None

    def leaf(self, T, env):
        rng = self.rng
        cands = [n for n, S in env if S == T]
        if cands and rng.random() < 0.7:
            return rng.choice(cands)
        k = T[0]
        if k == "bool":
            return rng.choice(["true", "false"])
        if k == "nat":
            return rng.choice(["(0::nat)", "(1::nat)"])
        if k == "list":
            return "([]::%s)" % ty_str(T)
        if k == "fun":
            v = rng.choice(BNAMES)
            return "(%%%s::%s. %s)" % (v, ty_str(T[1]), self.leaf(T[2], [(v, T[1])] + [e for e in env if e[0] != v]))
        return "(SOME %s::%s. true)" % (rng.choice(BNAMES), ty_str(T))

    def valid(self):
        """a definition that satisfies every side condition: (name, type, args, rhs-string, result type)"""
        rng = self.rng
        n = rng.choice([0, 1, 1, 2, 2, 3])
        argTs = [rng.choice(ARG_TYPES) for _ in range(n)]
        tv = []
        for A in argTs:
            ty_tvars(A, tv)
        self.bases = [B for B in BASES if B[0] != "tv" or B[1] in tv]
        resC = [BOOL, BOOL, NAT] + [("tv", v) for v in tv] + ([fun(TA, BOOL)] if "a" in tv else []) + ([("list", TA)] if "a" in tv else [])
        R = rng.choice(resC)
        names = rng.sample(VNAMES, n)
        env = list(zip(names, argTs))
        rhs = self.term(R, rng.randint(0, 3), env)
        return self.fresh("c"), fun(*(argTs + [R])), env, rhs, R

    def lhs_str(self, name, env, annotate=True):
        return " ".join([name] + [("(%s::%s)" % (n, ty_str(T)) if annotate else n) for n, T in env])

    def eq_str(self, lhs, rhs, R):
        return "%s %s %s" % (lhs, "<-->" if R == BOOL and self.rng.random() < 0.7 else "=", rhs)

    def item(self):
        """returns (kind-of-case, raw item dict)"""
        rng = self.rng
        name, T, env, rhs, R = self.valid()
        r = rng.random()
        kind = "valid"
        lhs = self.lhs_str(name, env, annotate=rng.random() < 0.8)
        tstr = ty_str(T)
        if r < 0.34:
            pass
        elif r < 0.44:       # (4) the constant occurs in its own definition
            kind = "self-ref"
            call = "(%s)" % " ".join([name] + [self.term(A, 1, env) for _, A in env]) if env else name
            if R == BOOL:
                rhs = rng.choice(["(~%s)" % call, "(%s --> false)" % call, "(%s & %s)" % (rhs, call), "(!k::bool. k = %s)" % call, call])
            elif R == NAT:
                rhs = rng.choice(["(Suc %s)" % call, "(%s + %s)" % (call, rhs), "(if %s = 0 then 1 else 0)" % call, call])
            else:
                rhs = rng.choice([call, "(if %s = %s then %s else %s)" % (call, rhs, rhs, call)])
        elif r < 0.54:       # (3) a type variable of the rhs that is not in the type of the constant
            kind = "extra-tvar"
            ex = rng.choice([TC, TC, fun(TC, BOOL), ("list", TC)] + ([TB] if "b" not in ty_tvars(T) else []))
            S = ty_str(ex)
            cl = rng.choice(["(!k::%s. !m::%s. k = m)" % (S, S), "(?k::%s. ?m::%s. ~(k = m))" % (S, S), "((%%k::%s. k) = (%%k::%s. k))" % (S, S),
                             "(!k::%s. ?m::%s. ~(k = m))" % (S, S)])
            if R == BOOL:
                rhs = rng.choice([cl, "(%s & %s)" % (rhs, cl), "(%s --> %s)" % (cl, rhs)])
            elif R == NAT:
                rhs = "(if %s then %s else (Suc %s))" % (cl, rhs, rhs)
            else:
                rhs = "(if %s then %s else %s)" % (cl, rhs, self.term(R, 1, env))
        elif r < 0.62:       # (1) repeated argument
            kind = "repeated-arg"
            if env:
                i = rng.randrange(len(env))
                j = rng.randrange(len(env))
                env2 = list(env)
                env2[j] = (env[i][0], env[j][1]) if rng.random() < 0.5 else (env[i][0], env[i][1])
                if i == j:
                    env2 = env + [env[i]]
                    T = fun(*([A for _, A in env2] + [R]))
                else:
                    T = fun(*([A for _, A in env2] + [R]))
                tstr = ty_str(T)
                lhs = self.lhs_str(name, env2, annotate=rng.random() < 0.7)
        elif r < 0.70:       # (1) an argument that is not a variable
            kind = "non-var-arg"
            A = rng.choice(BASES + [fun(TA, TA)])
            arg = rng.choice([self.leaf(A, []), self.term(A, 1, env), "(%s)" % self.term(A, 2, env)])
            pos = rng.randint(0, len(env))
            parts = [("(%s::%s)" % (n, ty_str(S))) for n, S in env]
            parts.insert(pos, arg)
            Ts = [S for _, S in env]
            Ts.insert(pos, A)
            T = fun(*(Ts + [R]))
            tstr = ty_str(T)
            lhs = " ".join([name] + parts)
        elif r < 0.78 and r >= 0.73 and env:
            # (2) a variable is a (name, type) pair: an occurrence on the rhs that has the NAME of an
            # argument but, by an explicit annotation, ANOTHER type is a free variable that is not an
            # argument (type inference leaves annotated occurrences alone)
            kind = "retyped-arg"
            n0, S0 = rng.choice(env)
            tvT = ty_tvars(T)
            S = rng.choice([B for B in [R, NAT, BOOL, NAT, BOOL] + [("list", S0), fun(S0, BOOL)] + self.bases
                            if B != S0 and all(v in tvT for v in ty_tvars(B))])
            occ = "(%s::%s)" % (n0, ty_str(S))
            if S == R and rng.random() < 0.7:
                rhs = rng.choice([occ, "(if %s = %s then %s else %s)" % (occ, rhs, rhs, occ), "(if %s then %s else %s)" % (self.term(BOOL, 1, env), occ, rhs)])
            elif R == BOOL:
                rhs = "(%s & (%s = %s))" % (rhs, occ, self.leaf(S, [])) if rng.random() < 0.5 else "((%s = %s) --> %s)" % (occ, self.leaf(S, []), rhs)
            else:
                rhs = "(if (%s = %s) then %s else %s)" % (occ, self.leaf(S, []), rhs, self.term(R, 1, env))
        elif r < 0.78:       # (2) a free / schematic variable on the rhs
            kind = "free-var"
            S = rng.choice([R, NAT, BOOL])
            fv = rng.choice(["fv", "?fv", "fv", env[0][0] + "x" if env else "n"])
            if S == R:
                rhs = rng.choice(["(%s::%s)" % (fv, ty_str(R)), "(if (%s::%s) = %s then %s else %s)" % (fv, ty_str(R), rhs, rhs, self.term(R, 1, env))])
            elif R == BOOL:
                rhs = "(%s & ((%s::%s) = %s))" % (rhs, fv, ty_str(S), self.leaf(S, env))
            else:
                rhs = "(if ((%s::%s) = %s) then %s else %s)" % (fv, ty_str(S), self.leaf(S, env), rhs, self.term(R, 1, env))
        elif r < 0.84:       # schematic type variables
            kind = "stvar"
            if rng.random() < 0.5:
                tstr = tstr.replace("'a", "?'a") if "'a" in tstr else "?'a => " + tstr
                lhs = self.lhs_str(name, env, annotate=False) if "'a" in ty_str(T) else name + " fv"
            else:
                rhs = "(%s = %s)" % (rhs, rhs) if R != BOOL else "(%s & (!k::?'c. k = k))" % rhs
                if R != BOOL:
                    rhs = "(if (!k::?'c. k = k) then %s else %s)" % (self.term(R, 1, env), self.term(R, 1, env))
        elif r < 0.90:       # wrong shape: not an equation / wrong head / head at another type
            kind = "shape"
            c = rng.randrange(5)
            if c == 0:
                return kind, {"ty": "def", "name": name, "type": tstr, "prop": "%s --> %s" % (lhs if R == BOOL else "(%s = %s)" % (lhs, rhs), "true")}
            if c == 1:
                return kind, {"ty": "def", "name": name, "type": tstr, "prop": self.eq_str(rhs, lhs, R)}
            if c == 2:
                return kind, {"ty": "def", "name": name, "type": tstr, "prop": self.eq_str(lhs.replace(name, "gg", 1), rhs, R)}
            if c == 3:
                return kind, {"ty": "def", "name": name, "type": tstr, "prop": "~(%s = %s)" % (lhs, rhs)}
            return kind, {"ty": "def", "name": name, "type": ty_str(fun(NAT, T)), "prop": self.eq_str(lhs, rhs, R)}
        elif r < 0.95:       # fewer arguments than the type has (lambda on the right): fine
            kind = "eta"
            if env:
                k = rng.randrange(len(env))
                rest = env[k:]
                lhs = self.lhs_str(name, env[:k], annotate=True)
                for n, S in reversed(rest):
                    rhs = "(%%%s::%s. %s)" % (n, ty_str(S), rhs)
                R = fun(*([S for _, S in rest] + [R]))
        else:                # shadowing: bound variable named like an argument; argument named like the constant
            kind = "shadow"
            if env:
                n0, S0 = env[0]
                rhs = "(%s & (!%s::%s. %s = %s))" % (rhs, n0, ty_str(S0), n0, n0) if R == BOOL else rhs
        return kind, {"ty": "def", "name": name, "type": tstr, "prop": self.eq_str(lhs, rhs, R)}


OVERLOADED = [  # (name, generic type) of the overloaded constants of theory nat
    ("zero", TA), ("one", TA), ("plus", fun(TA, TA, TA)), ("times", fun(TA, TA, TA)), ("minus", fun(TA, TA, TA)),
    ("less", fun(TA, TA, BOOL)), ("less_eq", fun(TA, TA, BOOL)), ("of_nat", fun(NAT, TA)), ("power", fun(TA, TB, TA))]
INT = ("int",)


def subst_ty(T, m):
    if T[0] == "tv":
        return m.get(T[1], T)
    if T[0] in ("fun", "list"):
        return (T[0],) + tuple(subst_ty(a, m) for a in T[1:])
    return T


def overloaded_items(rng, g):
    g.bases = [BOOL, NAT]
    return _overloaded_items(rng, g)


def _overloaded_items(rng, g):
    """definitions of instances of overloaded constants: new instances (bool, 'a list, nat => nat …)
    with right-hand sides that use the same name at another instance (allowed when the types are
    apart), at the same instance or at an overlapping one (must be rejected), and re-definitions of
    instances that already exist."""
    out = []
    insts = [BOOL, ("list", TA), ("list", NAT), fun(NAT, NAT), fun(TA, BOOL), NAT, INT, ("list", ("list", TA))]
    for _ in range(1):
        name, G = rng.choice(OVERLOADED)
        I = rng.choice(insts)
        m = {"a": I, "b": rng.choice([I, NAT])}
        T = subst_ty(G, m)
        argTs = []
        S = T
        while S[0] == "fun" and len(argTs) < 3 and (S != I or G == TA):
            argTs.append(S[1])
            S = S[2]
            if S == subst_ty(G_result(G), m):
                break
        R = S
        names = rng.sample(VNAMES, len(argTs))
        env = list(zip(names, argTs))
        head = "(%s::%s)" % (name, ty_str(T))
        lhs = " ".join([head] + names)
        c = rng.randrange(6)
        kind = "overload:new"
        if c == 0:
            rhs = g.term(R, 2, env)
        elif c == 1:      # same name at nat / int: apart unless I is nat / int
            J = rng.choice([NAT, INT])
            TJ = subst_ty(G, {"a": J, "b": NAT})
            kind = "overload:other-instance"
            rhs = use_at(g, name, TJ, R, env)
        elif c == 2:      # same name at the same instance
            kind = "overload:self"
            rhs = use_at(g, name, T, R, env)
        elif c == 3:      # same name at an overlapping instance ('a list vs nat list, generic 'a)
            kind = "overload:overlap"
            J = rng.choice([TA, ("list", TB), ("list", NAT), fun(TA, TA), TB])
            TJ = subst_ty(G, {"a": J, "b": NAT})
            rhs = use_at(g, name, TJ, R, env)
        elif c == 4:      # an instance that already exists
            kind = "overload:redefine"
            I = rng.choice([NAT, INT])
            T = subst_ty(G, {"a": I, "b": NAT})
            argTs, S = [], T
            while S[0] == "fun":
                argTs.append(S[1])
                S = S[2]
            R = S
            names = rng.sample(VNAMES, len(argTs))
            env = list(zip(names, argTs))
            head = "(%s::%s)" % (name, ty_str(T))
            lhs = " ".join([head] + names)
            rhs = g.term(R, 1, env) if R in (BOOL, NAT) else (names[0] if names and argTs[0] == R else "(SOME k::%s. true)" % ty_str(R))
        else:             # instantiating the overloaded type variable by a type variable
            kind = "overload:tvar-instance"
            T = subst_ty(G, {"a": TB, "b": TB})
            argTs, S = [], T
            while S[0] == "fun":
                argTs.append(S[1])
                S = S[2]
            R = S
            names = rng.sample(VNAMES, len(argTs))
            env = list(zip(names, argTs))
            head = "(%s::%s)" % (name, ty_str(T))
            lhs = " ".join([head] + names)
            rhs = g.term(R, 1, env)
        out.append((kind, {"ty": "def", "name": name, "type": ty_str(T), "prop": "%s = %s" % (lhs, rhs)}))
    return out


def G_result(G):
    while G[0] == "fun":
        G = G[2]
    return G


def use_at(g, name, TJ, R, env):
    """a term of type R that mentions `name` at type TJ"""
    argTs, S = [], TJ
    while S[0] == "fun":
        argTs.append(S[1])
        S = S[2]
    call = "(" + " ".join(["(%s::%s)" % (name, ty_str(TJ))] + [g.term(A, 1, env) for A in argTs]) + ")"
    if S == R:       # as hostile as the type allows: no fixed point
        return "(~%s)" % call if R == BOOL else ("(Suc %s)" % call if R == NAT else call)
    if R == BOOL:
        return "(%s = %s)" % (call, call)
    return "(if %s = %s then %s else %s)" % (call, call, g.term(R, 1, env), g.term(R, 1, env))


def datatype_item(rng, g):
    name = g.fresh("dt")
    targs = rng.choice([[], [], ["a"], ["a"], ["a", "b"]])
    Tstr = name if not targs else ("'a %s" % name if len(targs) == 1 else "('a, 'b) %s" % name)
    kind = "datatype:valid"
    constrs = []
    pool = [NAT, BOOL, "self", ("list", NAT)] + [("tv", v) for v in targs] + ([("list", TA)] if targs else [])
    adv = rng.random()
    for i in range(rng.randint(1, 3)):
        cname = g.fresh("K")
        n = rng.choice([0, 1, 1, 2, 3])
        argTs = [rng.choice(pool) for _ in range(n)]
        anames = rng.sample(VNAMES, n)
        tys = [Tstr if A == "self" else ty_str(A) for A in argTs]
        constrs.append({"name": cname, "args": anames, "type": " => ".join(["(%s)" % t for t in tys] + [Tstr])})
    if adv < 0.45:
        pass
    elif adv < 0.55:     # fewer / more argument names than the constructor type has arguments
        kind = "datatype:args-mismatch"
        c = rng.choice(constrs)
        if c["args"] and rng.random() < 0.5:
            c["args"] = c["args"][:-1]
        else:
            c["args"] = c["args"] + ["n"]
    elif adv < 0.63:     # the constructor does not build the datatype
        kind = "datatype:wrong-result"
        c = rng.choice(constrs)
        c["type"] = c["type"][: len(c["type"]) - len(Tstr)] + rng.choice(["nat", "bool", "'a list"])
    elif adv < 0.71:     # repeated argument names
        kind = "datatype:dup-arg-names"
        c = rng.choice(constrs)
        if len(c["args"]) >= 2:
            c["args"][1] = c["args"][0]
    elif adv < 0.79:     # a constructor named like an overloaded / existing constant
        kind = "datatype:constructor-overloads"
        c = rng.choice(constrs)
        c["name"] = rng.choice(["zero", "one", "plus", "true", "Suc", constrs[0]["name"]])
    elif adv < 0.87:     # a type variable that is not a parameter of the datatype
        kind = "datatype:free-tvar"
        c = rng.choice(constrs)
        c["args"] = c["args"] + ["e"]
        c["type"] = "'e => " + c["type"]
    elif adv < 0.93:     # argument names that clash with the generated names (x / x1, P)
        kind = "datatype:name-clash"
        c = rng.choice(constrs)
        if len(c["args"]) >= 2:
            c["args"][0], c["args"][1] = "x", "x1"
        elif len(c["args"]) == 1:
            c["args"][0] = "P"
    else:                # unknown type in a constructor
        kind = "datatype:unknown-type"
        c = rng.choice(constrs)
        c["args"] = c["args"] + ["e"]
        c["type"] = "nosuchtype => " + c["type"]
    return kind, {"ty": "type.ind", "name": name, "args": targs, "constrs": constrs}


def fun_item(rng, g):
    g.bases = [BOOL, NAT, TA]
    name = g.fresh("fn")
    R = rng.choice([NAT, BOOL, TA, ("list", TA)])
    over = rng.choice([NAT, NAT, ("list", TA)])
    extra = rng.choice([[], [], [rng.choice([NAT, TA, BOOL])]])
    T = fun(*([over] + extra + [R]))
    en = rng.sample(["y", "z", "w"], len(extra))
    eenv = list(zip(en, extra))
    kind = "fun:valid"
    if over == NAT:
        pats = [("0", []), ("(Suc n)", [("n", NAT)])]
    else:
        pats = [("[]", []), ("(x # xs)", [("x", TA), ("xs", over)])]
    rules = []
    for pat, penv in pats:
        env = penv + eenv
        rhs = g.term(R, 2, env)
        if penv and rng.random() < 0.6:
            rec = "(%s)" % " ".join([name, penv[-1][0]] + [g.term(A, 1, env) for _, A in eenv])
            if R == BOOL:
                rhs = "(%s & %s)" % (rhs, rec)
            elif R == NAT:
                rhs = "(%s + %s)" % (rhs, rec)
            else:
                rhs = rec
        rules.append({"prop": "%s %s = %s" % (name, " ".join([pat] + en), rhs)})
    adv = rng.random()
    tstr = ty_str(T)
    if adv < 0.5:
        pass
    elif adv < 0.6:
        kind = "fun:free-var"
        rules[-1]["prop"] = rules[-1]["prop"] + (" + fv" if R == NAT else "")
        if R != NAT:
            rules[-1]["prop"] = "%s %s = (if (fv::nat) = 0 then %s else %s)" % (name, " ".join([pats[-1][0]] + en), g.leaf(R, eenv), g.leaf(R, eenv))
    elif adv < 0.68:
        kind = "fun:wrong-head"
        rules[0]["prop"] = rules[0]["prop"].replace(name, "hh", 1)
    elif adv < 0.76:
        kind = "fun:not-equation"
        rules[0]["prop"] = "%s 0 --> true" % name if R == BOOL and not extra else "~(%s)" % rules[0]["prop"]
    elif adv < 0.86:
        kind = "fun:overloaded-name"
        nm, G = rng.choice(OVERLOADED[:5])
        I = rng.choice([BOOL, ("list", TA), fun(NAT, NAT)])
        T2 = subst_ty(G, {"a": I, "b": NAT})
        args, S = [], T2
        while S[0] == "fun" and len(args) < 2:
            args.append(S[1])
            S = S[2]
        ns = ["x", "y"][: len(args)]
        return kind, {"ty": "def.ind", "name": nm, "type": ty_str(T2),
                      "rules": [{"prop": "(%s::%s) %s = %s" % (nm, ty_str(T2), " ".join(ns), g.term(S, 1, list(zip(ns, args))))}]}
    elif adv < 0.93:
        kind = "fun:type-mismatch"
        tstr = ty_str(fun(BOOL, T))
    else:
        kind = "fun:schematic"
        rules[-1]["prop"] = "%s %s = ?sv" % (name, " ".join([pats[-1][0]] + en))
    return kind, {"ty": "def.ind", "name": name, "type": tstr, "rules": rules}


def inductive_item(rng, g):
    g.bases = [BOOL, NAT, TA]
    name = g.fresh("pr")
    argTs = rng.choice([[NAT], [NAT, NAT], [TA, ("list", TA)], [TA], [NAT, BOOL]])
    T = fun(*(argTs + [BOOL]))
    kind = "inductive:valid"
    rules = []
    vn = ["m", "n", "x", "xs"]

    def atom(env):
        return "(%s)" % " ".join([name] + [g.term(A, 1, env) for A in argTs])
    for i in range(rng.randint(1, 3)):
        env = [(vn[j], A) for j, A in enumerate(argTs)]
        concl = atom(env)
        prems = [rng.choice([atom(env), g.term(BOOL, 1, env)]) for _ in range(rng.randint(0, 2))]
        rules.append({"name": g.fresh("%s_r" % name), "prop": " --> ".join(prems + [concl])})
    adv = rng.random()
    if adv < 0.55:
        pass
    elif adv < 0.67:
        kind = "inductive:wrong-head"
        rules[-1]["prop"] = rules[-1]["prop"] + " --> true"
    elif adv < 0.77:
        kind = "inductive:negative"
        rules[-1]["prop"] = "~%s --> %s" % (atom([(vn[j], A) for j, A in enumerate(argTs)]), rules[-1]["prop"])
    elif adv < 0.87:
        kind = "inductive:rule-name-clash"
        rules[-1]["name"] = rng.choice([rules[0]["name"], "conjI", name + "_cases"])
    elif adv < 0.94:
        kind = "inductive:var-clash"      # rule variables named like the variables of the case rule
        rules[-1]["prop"] = "(P::bool) --> (%s)" % " ".join([name] + ["(_a%d::%s)" % (j + 1, ty_str(A)) for j, A in enumerate(argTs)]) \
            if rng.random() < 0.5 else "(P::bool) --> %s" % rules[-1]["prop"]
    else:
        kind = "inductive:overloaded-name"
        return kind, {"ty": "def.pred", "name": "less", "type": "bool => bool => bool",
                      "rules": [{"name": g.fresh("bl"), "prop": "(less::bool => bool => bool) false true"}]}
    return kind, {"ty": "def.pred", "name": name, "type": ty_str(T), "rules": rules}


def ty_rename(T, m):
    """rename / instantiate type variables by the map m (name -> type tuple)"""
    return subst_ty(T, m)


def related_selfref_item(rng, g):
    """a definition whose right-hand side NEGATES the constant at a type related to, but written
    differently from, the type being defined: type variables permuted ('a => 'b vs 'b => 'a),
    merged ('a => 'a), renamed to fresh ones, partially instantiated (nat for 'b), wrapped
    ('a list), or of a different but unifiable shape.  Whenever the two types have a common
    instance the definition is unsound (c x x <--> ~(c x x) at the instance) and must be rejected."""
    rng_ = rng
    g.bases = [BOOL, NAT]
    shapes = [
        [TA, TB], [TA, TB, TA], [fun(TA, TB), TA], [("list", TA), ("list", TB)], [TA, fun(TB, BOOL)],
        [TA, TB, TC], [fun(TA, TA), TB], [("list", TA), TB], [TA, NAT, TB], [TA], [fun(TA, TB)], [("list", ("list", TA)), TB],
    ]
    argTs = list(rng_.choice(shapes))
    R = rng_.choice([BOOL, BOOL, NAT])
    T = fun(*(argTs + [R]))
    tv = ty_tvars(T)
    fam = rng_.choice(["permute", "permute", "merge", "fresh", "partial", "wrap", "identity-annotated", "other-shape"])
    if fam == "permute" and len(tv) >= 2:
        p = tv[:]
        while p == tv:
            rng_.shuffle(p)
        m = {a: ("tv", b) for a, b in zip(tv, p)}
    elif fam == "merge" and len(tv) >= 2:
        tgt = rng_.choice(tv)
        m = {a: ("tv", tgt) for a in tv}
    elif fam == "fresh":
        fresh = ["d", "e", "f"]
        m = {a: ("tv", fresh[i]) for i, a in enumerate(tv) if rng_.random() < 0.8}
    elif fam == "partial":
        m = {a: rng_.choice([NAT, BOOL, ("list", NAT), ("tv", a)]) for a in tv}
    elif fam == "wrap":
        a = rng_.choice(tv)
        m = {a: rng_.choice([("list", ("tv", a)), fun(("tv", a), ("tv", a)), ("list", ("tv", rng_.choice(tv)))])}
    elif fam == "other-shape":       # not an instance of T at all: the parser / checks must cope
        S = fun(*(list(reversed(argTs)) + [R]))
        m = None
    else:
        fam = "identity-annotated" if fam == "identity-annotated" else fam + "->identity"
        m = {}
    S = ty_rename(T, m) if m is not None else S
    name = g.fresh("c")
    names = rng_.sample(VNAMES, len(argTs))
    env = list(zip(names, argTs))
    # arguments of the recursive occurrence: variables of the right type where there are any
    sargs, X = [], S
    while X[0] == "fun" and len(sargs) < len(argTs):
        sargs.append(X[1])
        X = X[2]
    call_args = []
    for A in sargs:
        c = [n for n, B in env if B == A]
        call_args.append(rng_.choice(c) if c else g.leaf(A, env))
    call = "(" + " ".join(["(%s::%s)" % (name, ty_str(S))] + call_args) + ")"
    rhs = "(~%s)" % call if R == BOOL else "(Suc %s)" % call
    if rng_.random() < 0.3:
        rhs = "(%s & %s)" % (g.term(BOOL, 1, env), rhs) if R == BOOL else "(%s + %s)" % (rhs, g.term(NAT, 1, env))
    lhs = " ".join([name] + ["(%s::%s)" % (n, ty_str(A)) for n, A in env])
    return "related-selfref:" + fam, {"ty": "def", "name": name, "type": ty_str(T), "prop": "%s = %s" % (lhs, rhs)}


def compound_arg_item(rng, g):
    """a definition with compound (non-variable) arguments whose variables are, in total, exactly as
    many as there are arguments, and a right-hand side over these variables: `c (x = x) = x`,
    `c (x & y) true = x`, `c (Suc x) y = x + y`.  Counting variables instead of looking at the
    arguments accepts them; `c true = true, c false = false` but `(true = true) = (false = false)`."""
    g.bases = [BOOL, NAT]
    n = rng.choice([1, 1, 2, 2, 3])
    vs = rng.sample(VNAMES, n)
    vts = [rng.choice([BOOL, NAT]) for _ in range(n)]
    env = list(zip(vs, vts))
    # distribute the variables over n arguments: some arguments get several, some none (a constant)
    groups = [[] for _ in range(n)]
    for e in env:
        groups[rng.randrange(n)].append(e)

    def unit(v, T):
        if T == BOOL:
            return rng.choice([(v, BOOL), ("(~%s)" % v, BOOL), ("(%s = %s)" % (v, v), BOOL)])
        return rng.choice([("(Suc %s)" % v, NAT), ("(%s = %s)" % (v, v), BOOL), ("(%s + 1)" % v, NAT)])
    args, argTs = [], []
    for gp in groups:
        if not gp:
            T = rng.choice([BOOL, NAT])
            args.append(g.leaf(T, []))
            argTs.append(T)
            continue
        us = [unit(v, T) for v, T in gp]
        if len(us) == 1:
            t, T = us[0]
            if t == gp[0][0]:
                t = "(~%s)" % t
        elif all(T == NAT for _, T in us) and rng.random() < 0.5:
            t, T = "(" + " + ".join(u for u, _ in us) + ")", NAT
        else:
            bs = [u if T == BOOL else "(%s = %s)" % (u, u) for u, T in us]
            t, T = "(" + rng.choice([" & ", " | ", " --> "]).join(bs) + ")", BOOL
        args.append(t)
        argTs.append(T)
    R = rng.choice([BOOL, NAT])
    rhs = g.term(R, 1, env)
    name = g.fresh("c")
    return "compound-arg", {"ty": "def", "name": name, "type": ty_str(fun(*(argTs + [R]))), "prop": "%s %s = %s" % (name, " ".join(args), rhs)}


def long_item(rng, g):
    """items whose printed rules / statements are longer than the widths an editor window has
    (60-200 characters): the editor form is then broken over several lines, or must not be"""
    c = rng.randrange(6)
    if c == 0:      # recursive function with long right-hand sides
        g.bases = [BOOL, NAT]
        name = g.fresh("fn")
        k = rng.randint(4, 9)
        rhs0 = " + ".join("(%s)" % g.term(NAT, 2, []) for _ in range(k))
        rhs1 = " + ".join(["(%s n)" % name] + ["(if %s then n else %s)" % (g.term(BOOL, 1, [("n", NAT)]), g.term(NAT, 1, [("n", NAT)])) for _ in range(k)])
        return "long:fun", {"ty": "def.ind", "name": name, "type": "nat => nat",
                            "rules": [{"prop": "%s 0 = %s" % (name, rhs0)}, {"prop": "%s (Suc n) = %s" % (name, rhs1)}]}
    if c == 1:      # inductive predicate with many premises
        g.bases = [BOOL, NAT]
        name = g.fresh("pr")
        env = [("m", NAT), ("n", NAT)]
        rules = []
        for i in range(rng.randint(1, 3)):
            prems = ["(%s %s %s)" % (name, g.term(NAT, 1, env), g.term(NAT, 1, env)) if rng.random() < 0.5 else g.term(BOOL, 2, env)
                     for _ in range(rng.randint(4, 8))]
            rules.append({"name": g.fresh("%s_rule" % name), "prop": " --> ".join(prems + ["%s (Suc m) (m + n)" % name])})
        return "long:inductive", {"ty": "def.pred", "name": name, "type": "nat => nat => bool", "rules": rules}
    if c == 2:      # datatype with long constructor lists
        name = g.fresh("dt")
        constrs = []
        for i in range(rng.randint(2, 4)):
            n = rng.randint(5, 9)
            anames = ["argument_%d_%d" % (i, j) for j in range(n)]
            tys = [rng.choice(["nat", "bool", "'a", "nat list", "'a => nat", "'a %s" % name]) for _ in range(n)]
            constrs.append({"name": g.fresh("Constructor"), "args": anames, "type": " => ".join(["(%s)" % t for t in tys] + ["'a %s" % name])})
        return "long:datatype", {"ty": "type.ind", "name": name, "args": ["a"], "constrs": constrs}
    if c == 3:      # definition with a long right-hand side
        g.bases = [BOOL, NAT]
        name = g.fresh("c")
        env = [("x", NAT), ("p", fun(NAT, BOOL))]
        rhs = " & ".join("(%s)" % g.term(BOOL, 3, env) for _ in range(rng.randint(3, 7)))
        return "long:def", {"ty": "def", "name": name, "type": "nat => (nat => bool) => bool", "prop": "%s x p <--> %s" % (name, rhs)}
    g.bases = BASES
    env = [("x", NAT), ("y", TA), ("f", fun(TA, TA)), ("p", fun(NAT, BOOL))]
    prop = " --> ".join("(%s)" % g.term(BOOL, 3, env) for _ in range(rng.randint(3, 7)))
    it = {"ty": "thm.ax" if c == 4 else "thm", "name": g.fresh("long_th"), "vars": {n: ty_str(T) for n, T in env}, "prop": prop}
    if rng.random() < 0.5:
        it["attributes"] = ["hint_rewrite"]
    return "long:theorem", it


def adversarial_item(rng, g):
    """(kind, raw) or (kind, raw, [items processed before it]): unchecked definitional kinds with
    overlapping / non-exhaustive / non-terminating equations, non-positive occurrences, wrong
    conclusions; name clashes between theorems, constants and types; attributes that loop"""
    c = rng.randrange(16)
    g.bases = [BOOL, NAT]
    if c == 0:
        f = g.fresh("fn")
        v = rng.choice([("0", "0", "(0::nat)", "(1::nat)"), ("n", "(Suc n)", "(0::nat)", "(Suc n)"), ("(Suc n)", "(Suc (Suc m))", "n", "(Suc m + m)")])
        return "adv:fun:overlap", {"ty": "def.ind", "name": f, "type": "nat => nat",
                                   "rules": [{"prop": "%s %s = %s" % (f, v[0], v[2])}, {"prop": "%s %s = %s" % (f, v[1], v[3])}]}
    if c == 1:
        f = g.fresh("fn")
        return "adv:fun:overlap-2args", {"ty": "def.ind", "name": f, "type": "nat => nat => bool", "rules": [
            {"prop": "%s x 0 = true" % f}, {"prop": "%s 0 y = false" % f}, {"prop": "%s (Suc x) (Suc y) = %s x y" % (f, f)}]}
    if c == 2:
        f = g.fresh("fn")
        return "adv:fun:not-exhaustive", {"ty": "def.ind", "name": f, "type": "nat => nat",
                                          "rules": [{"prop": "%s (Suc (Suc n)) = %s" % (f, g.term(NAT, 1, [("n", NAT)]))}]}
    if c == 3:
        f = g.fresh("fn")
        R = rng.choice([("nat", "Suc (%s n)"), ("bool", "~(%s n)"), ("nat", "%s n + 1")])
        return "adv:fun:non-terminating", {"ty": "def.ind", "name": f, "type": "nat => %s" % R[0],
                                           "rules": [{"prop": "%s n = %s" % (f, R[1] % f)}]}
    if c == 4:
        f = g.fresh("fn")
        return "adv:fun:same-equation-twice", {"ty": "def.ind", "name": f, "type": "nat => nat",
                                               "rules": [{"prop": "%s 0 = 0" % f}, {"prop": "%s 0 = 0" % f}, {"prop": "%s (Suc n) = %s n" % (f, f)}]}
    if c == 5:
        p = g.fresh("pr")
        concl = rng.choice(["true", "(%s m) --> false" % p, "~(%s m)" % p, "m = m", "(%s m) & (%s m)" % (p, p)])
        return "adv:inductive:conclusion-not-predicate", {"ty": "def.pred", "name": p, "type": "nat => bool", "rules": [
            {"name": p + "_base", "prop": "%s 0" % p}, {"name": p + "_bad", "prop": "%s n --> %s" % (p, concl)}]}
    if c == 6:
        p = g.fresh("pr")
        prem = rng.choice(["~(%s n)" % p, "((%s n) --> false)" % p, "(!k::nat. ~(%s k))" % p, "((%s n) = false)" % p, "((%s n --> %s (Suc n)) --> false)" % (p, p)])
        return "adv:inductive:negative-premise", {"ty": "def.pred", "name": p, "type": "nat => bool",
                                                  "rules": [{"name": p + "_neg", "prop": "%s --> %s n" % (prem, p)}]}
    if c == 7:
        d = g.fresh("dt")
        A = rng.choice(["(%s => bool)" % d, "((%s => nat) => nat)" % d, "(nat => %s => bool)" % d, "((%s => bool) list)" % d])
        return "adv:datatype:non-positive", {"ty": "type.ind", "name": d, "args": [], "constrs": [
            {"name": g.fresh("K"), "args": [], "type": d}, {"name": g.fresh("K"), "args": ["f"], "type": "%s => %s" % (A, d)}]}
    if c == 8:
        d = g.fresh("dt")
        return "adv:datatype:positive-function-argument", {"ty": "type.ind", "name": d, "args": [], "constrs": [
            {"name": g.fresh("K"), "args": [], "type": d}, {"name": g.fresh("K"), "args": ["f"], "type": "(nat => %s) => %s" % (d, d)}]}
    if c == 9:      # an existing type declared again
        nm, args = rng.choice([("nat", []), ("nat", ["a"]), ("list", ["a"]), ("list", []), ("bool", []), ("fun", ["a", "b"])])
        Ts = nm if not args else ("'a %s" % nm if len(args) == 1 else "('a, 'b) %s" % nm)
        if rng.random() < 0.5:
            return "adv:clash:type-redeclared", {"ty": "type.ax", "name": nm, "args": args}
        return "adv:clash:datatype-redeclared", {"ty": "type.ind", "name": nm, "args": args, "constrs": [{"name": g.fresh("K"), "args": [], "type": Ts}]}
    if c == 10:     # an existing (not overloaded) constant defined / declared again
        nm, T = rng.choice([("true", "bool"), ("conj", "bool => bool => bool"), ("Suc", "nat => nat"), ("nil", "'a list"), ("equals", "nat => nat => bool")])
        k = rng.randrange(3)
        if k == 0:
            return "adv:clash:constant-redeclared", {"ty": "def.ax", "name": nm, "type": T}
        if k == 1:
            return "adv:clash:constant-redefined", {"ty": "def", "name": nm, "type": "bool", "prop": "(%s::bool) <--> false" % nm}
        return "adv:clash:constant-as-function", {"ty": "def.ind", "name": nm, "type": "nat => nat", "rules": [{"prop": "(%s::nat => nat) n = n" % nm}]}
    if c == 11:     # a theorem name used twice / a definition whose theorem name is taken
        nm = g.fresh("c")
        ax = {"ty": "thm.ax", "name": nm + "_def", "vars": {"x": "nat"}, "prop": "x = x"}
        k = rng.randrange(4)
        if k == 0:
            return "adv:clash:def-theorem-name-taken", {"ty": "def", "name": nm, "type": "nat", "prop": "%s = (0::nat)" % nm}, [ax]
        if k == 1:
            return "adv:clash:axiom-twice", dict(ax, prop="x = x + 0"), [ax]
        if k == 2:
            return "adv:clash:axiom-named-like-library-theorem", {"ty": "thm.ax", "name": rng.choice(["conjI", "nat_induct", "nat_one_def"]), "vars": {}, "prop": "false"}
        return "adv:clash:inductive-rule-named-like-library-theorem", {"ty": "def.pred", "name": nm, "type": "nat => bool",
                                                                       "rules": [{"name": rng.choice(["conjI", "nat_induct"]), "prop": "%s 0" % nm}]}
    if c == 12:     # the same definitional item twice
        nm = g.fresh("c")
        k = rng.randrange(3)
        if k == 0:
            it = {"ty": "def", "name": nm, "type": "nat", "prop": "%s = (0::nat)" % nm}
            return "adv:clash:def-twice", dict(it, prop="%s = (1::nat)" % nm), [it]
        if k == 1:
            it = {"ty": "def.ind", "name": nm, "type": "nat => nat", "rules": [{"prop": "%s n = n" % nm}]}
            return "adv:clash:fun-twice", dict(it, rules=[{"prop": "%s n = Suc n" % nm}]), [it]
        d = g.fresh("dt")
        it = {"ty": "type.ind", "name": d, "args": [], "constrs": [{"name": g.fresh("K"), "args": [], "type": d}]}
        return "adv:clash:datatype-twice", {"ty": "type.ind", "name": d, "args": [], "constrs": [{"name": g.fresh("K"), "args": ["n"], "type": "nat => " + d}]}, [it]
    if c == 13:     # a constant named like a type / theorem, a type named like a constant
        k = rng.randrange(3)
        if k == 0:
            return "adv:clash:constant-named-like-type", {"ty": "def", "name": "nat", "type": "nat", "prop": "(nat::nat) = 0"}
        if k == 1:
            return "adv:clash:type-named-like-constant", {"ty": "type.ind", "name": "Suc", "args": [], "constrs": [{"name": g.fresh("K"), "args": [], "type": "Suc"}]}
        return "adv:clash:constant-named-like-theorem", {"ty": "def", "name": "conjI", "type": "bool", "prop": "conjI <--> true"}
    # attributes: rewrite rules that loop, hints on statements of the wrong shape, unknown and repeated attributes
    env = [("x", NAT), ("y", NAT)]
    prop, attrs = rng.choice([
        ("x + y = y + x", ["hint_rewrite"]), ("x = x + 0", ["hint_rewrite"]), ("x + y = x + y", ["hint_rewrite"]),
        ("(x = y) --> (x = y)", ["hint_backward"]), ("x = y --> y = x", ["hint_forward", "hint_backward"]),
        ("x = x", ["no_such_attribute"]), ("Suc x = Suc x", ["hint_rewrite", "hint_rewrite"]), ("x = y", ["hint_rewrite", "hint_resolve", "var_induct"])])
    return "adv:attributes", {"ty": rng.choice(["thm.ax", "thm"]), "name": g.fresh("ax"), "vars": {n: ty_str(T) for n, T in env}, "prop": prop, "attributes": attrs}


LIB_CONSTS = [("true", "bool"), ("false", "bool"), ("conj", "bool => bool => bool"), ("neg", "bool => bool"), ("Suc", "nat => nat"),
              ("nil", "'a list"), ("cons", "'a => 'a list => 'a list"), ("Pre", "nat => nat"), ("even", "nat => bool"),
              ("append", "'a list => 'a list => 'a list"), ("length", "'a list => nat"), ("comp_fun", "('b => 'c) => ('a => 'b) => 'a => 'c")]


def history_item(rng, g):
    """(kind, raw, [earlier items]): a definitional item that re-uses the name of an item declared
    earlier - in the same file or in an imported library theory - at exactly the SAME type (same
    type-variable names).  The second one must not be accepted."""
    g.bases = [BOOL, NAT]
    name = g.fresh("h")
    shape = rng.choice([("bool", [], BOOL), ("nat", [], NAT), ("nat => bool", [("x", NAT)], BOOL), ("'a => 'a => bool", [("x", TA), ("y", TA)], BOOL),
                        ("nat => nat", [("n", NAT)], NAT)])
    tstr, env, R = shape
    lhs = " ".join([name] + [n for n, _ in env])

    def a_def(i):
        if not env:
            rhs = ["true", "false"][i % 2] if R == BOOL else ["(0::nat)", "(1::nat)"][i % 2]
        elif R == BOOL:
            rhs = ["true", "false", "(%s = %s)" % (env[0][0], env[0][0]), "(~(%s = %s))" % (env[0][0], env[0][0])][(i + rng.randrange(2) * 2) % 4]
        else:
            rhs = ["%s" % env[0][0], "(Suc %s)" % env[0][0]][i % 2]
        return {"ty": "def", "name": name, "type": tstr, "prop": "%s = %s" % (lhs, rhs)}

    def a_fun(i):
        if not env or env[0][1] != NAT:
            return None
        rest = " ".join(n for n, _ in env[1:])
        v = ["true", "false"][i % 2] if R == BOOL else ["(0::nat)", "(1::nat)"][i % 2]
        return {"ty": "def.ind", "name": name, "type": tstr, "rules": [{"prop": "%s 0 %s = %s" % (name, rest, v)}, {"prop": "%s (Suc k) %s = %s" % (name, rest, v)}]}

    def a_pred(i):
        if R != BOOL or not env:
            return None
        return {"ty": "def.pred", "name": name, "type": tstr, "rules": [{"name": "%s_intro%d" % (name, i), "prop": lhs}]}

    def an_ax(i):
        return {"ty": "def.ax", "name": name, "type": tstr}
    if rng.random() < 0.25:    # a valid history: the later definition USES the earlier constant
        n2 = g.fresh("h")
        call = "(%s)" % lhs if env else name
        second = {"ty": "def", "name": n2, "type": tstr,
                  "prop": "%s = %s" % (" ".join([n2] + [n for n, _ in env]), "(~%s)" % call if R == BOOL else "(Suc %s)" % call)}
        return "history:valid-sequence", second, [a_def(0)]
    firsts = [("def", a_def), ("def.ax", an_ax), ("def.ind", a_fun), ("def.pred", a_pred)]
    seconds = [("def", a_def), ("def", a_def), ("def.ind", a_fun), ("def.pred", a_pred)]
    r = rng.random()
    if r < 0.25:       # after an item of an imported theory
        nm, T = rng.choice(LIB_CONSTS)
        args, X = [], parse_ty_str(T)
        vs = ["x", "y", "z"]
        k = 0
        while X[0] == "fun" and k < 3:
            args.append((vs[k], X[1]))
            X = X[2]
            k += 1
        hd = "(%s::%s)" % (nm, T)
        rhs = g.leaf(X, []) if X in (BOOL, NAT) else (args[-1][0] if args and args[-1][1] == X else "(SOME k::%s. true)" % ty_str(X))
        return "history:def-after-library:%s" % nm, {"ty": "def", "name": nm, "type": T, "prop": "%s = %s" % (" ".join([hd] + [a for a, _ in args]), rhs)}
    for _ in range(20):
        (k1, f1), (k2, f2) = rng.choice(firsts), rng.choice(seconds)
        a, b = f1(0), f2(1)
        if a is not None and b is not None:
            return "history:%s-after-%s" % (k2, k1), b, [a]
    return "history:def-after-def", a_def(1), [a_def(0)]


def parse_ty_str(t):
    """the few type strings of LIB_CONSTS as tuples"""
    t = t.strip()
    depth = 0
    for i in range(len(t) - 1):
        c = t[i]
        depth += (c == "(") - (c == ")")
        if depth == 0 and t[i:i + 2] == "=>":
            return ("fun", parse_ty_str(t[:i]), parse_ty_str(t[i + 2:]))
    if t.startswith("(") and t.endswith(")"):
        return parse_ty_str(t[1:-1])
    if t.endswith(" list"):
        return ("list", parse_ty_str(t[:-5]))
    if t.startswith("'"):
        return ("tv", t[1:])
    return (t,)


def other_item(rng, g):
    """axiomatic constants, axioms, theorems with attributes, axiomatic types, headers"""
    g.bases = BASES
    c = rng.randrange(6)
    if c == 0:
        return "constant", {"ty": "def.ax", "name": g.fresh("ac"), "type": ty_str(rng.choice(ARG_TYPES))}
    if c == 1:
        return "constant:overloaded", {"ty": "def.ax", "name": g.fresh("oc"), "type": ty_str(fun(TA, TA)), "overloaded": True}
    if c == 2:
        env = [("x", rng.choice(BASES)), ("y", rng.choice(BASES))]
        it = {"ty": "thm.ax", "name": g.fresh("ax"), "vars": {n: ty_str(T) for n, T in env}, "prop": g.term(BOOL, 2, env)}
        if rng.random() < 0.5:
            it["attributes"] = rng.sample(["hint_rewrite", "hint_backward", "hint_forward"], rng.randint(1, 2))
        return "axiom", it
    if c == 3:
        env = [("x", rng.choice(BASES)), ("f", fun(TA, TA))]
        it = {"ty": "thm", "name": g.fresh("th"), "vars": {n: ty_str(T) for n, T in env}, "prop": g.term(BOOL, 3, env)}
        if rng.random() < 0.5:
            it["attributes"] = ["hint_rewrite"]
        if rng.random() < 0.3:
            it["num_gaps"] = rng.randint(0, 2)
            it["proof"] = [{"id": "0", "rule": "sorry", "args": "", "prevs": [], "th": "|- " + it["prop"]}]
            it["steps"] = [{"method_name": "introduction", "goal_id": "0"}]
        return "theorem", it
    if c == 4:
        return "axtype", {"ty": "type.ax", "name": g.fresh("at"), "args": rng.choice([[], ["a"], ["a", "b"]])}
    return "header", {"ty": "header", "name": "Section %d" % rng.randrange(100), "depth": rng.randrange(3)}


# ------------------------------------------------------------------ oracle helpers (s-expression level)
def sx_ty_tvars(x, acc):
    if x[0] == "V":
        if x[1] not in acc:
            acc.append(x[1])
    elif x[0] == "C":
        for a in x[2:]:
            sx_ty_tvars(a, acc)
    return acc


def sx_term_tvars(x, acc):
    k = x[0]
    if k in ("sv", "v", "c"):
        sx_ty_tvars(x[2], acc)
    elif k == "ap":
        sx_term_tvars(x[1], acc)
        sx_term_tvars(x[2], acc)
    elif k == "ab":
        sx_ty_tvars(x[2], acc)
        sx_term_tvars(x[3], acc)
    return acc


def sx_ty_subst(x, m):
    if x[0] == "V":
        return m.get(x[1], x)
    if x[0] == "C":
        return x[:2] + [sx_ty_subst(a, m) for a in x[2:]]
    return x


def sx_term_subst(x, m):
    k = x[0]
    if k in ("sv", "v", "c"):
        return [k, x[1], sx_ty_subst(x[2], m)]
    if k == "ap":
        return ["ap", sx_term_subst(x[1], m), sx_term_subst(x[2], m)]
    if k == "ab":
        return ["ab", x[1], sx_ty_subst(x[2], m), sx_term_subst(x[3], m)]
    return x


def sx_consts(x, acc):
    k = x[0]
    if k == "c":
        acc.append((x[1], x[2]))
    elif k == "ap":
        sx_consts(x[1], acc)
        sx_consts(x[2], acc)
    elif k == "ab":
        sx_consts(x[3], acc)
    return acc


def sx_unify(a, b):
    """most general unifier of two type s-expressions over disjoint type variables (dict) or None;
    independent of `Type.is_apart`"""
    sub = {}

    def walk(t):
        while t[0] == "V" and t[1] in sub:
            t = sub[t[1]]
        return t

    def occurs(v, t):
        t = walk(t)
        if t[0] == "V":
            return t[1] == v
        return t[0] == "C" and any(occurs(v, u) for u in t[2:])

    def uni(s, t):
        s, t = walk(s), walk(t)
        if s[0] == "V" and t[0] == "V" and s[1] == t[1]:
            return True
        if s[0] == "V":
            if occurs(s[1], t):
                return False
            sub[s[1]] = t
            return True
        if t[0] == "V":
            return uni(t, s)
        if s[0] != "C" or t[0] != "C":
            return s == t
        if s[1] != t[1] or len(s) != len(t):
            return False
        return all(uni(u, v) for u, v in zip(s[2:], t[2:]))

    def resolve(t):
        t = walk(t)
        if t[0] == "C":
            return t[:2] + [resolve(u) for u in t[2:]]
        return t
    if not uni(a, b):
        return None
    return {v: resolve(["V", v]) for v in list(sub)}


def rename_apart(x, suffix):
    if x[0] == "V":
        return ["V", x[1] + suffix]
    if x[0] == "C":
        return x[:2] + [rename_apart(a, suffix) for a in x[2:]]
    return x


U1, U2, U3 = ["V", "u1"], ["V", "u2"], ["V", "u3"]
SXBOOL = ["C", "bool"]
#        stvars                 tvars (u1,u2,u3 fixed)                        constructors              default
SPECS = [([], [["u1", 1], ["u2", 2], ["u3", 3]], [["nat", 2], ["int", 2], ["list", 2]], 2),
         ([], [["u1", 1], ["u2", 2], ["u3", 3]], [["nat", 3], ["int", 1], ["list", 1]], 1),
         ([], [["u1", 1], ["u2", 2], ["u3", 3]], [["nat", 1], ["int", 3], ["list", 3]], 2)]


def oracle_groups(rng, name_s, T_s, prop_s, ngroups):
    """Lists of ground-ish instances of the defining equation that share the type of the defined
    constant (so that one value of the constant has to satisfy all of them).  Type variables are
    instantiated by bool and by the type variables u1/u2/u3 (sizes 1/2/3 in every model spec)."""
    tvT = sx_ty_tvars(T_s, [])
    tvP = sx_term_tvars(prop_s, [])
    extra = [v for v in tvP if v not in tvT]
    choices = [U1, U2, SXBOOL, U3]
    sigmas = [{v: U2 for v in tvT}, {v: U1 for v in tvT}]
    for _ in range(max(0, ngroups - 2)):
        sigmas.append({v: rng.choice(choices) for v in tvT})
    # instances at which an occurrence of the constant on the right meets the constant being defined
    eq = prop_s
    rhs = eq[2]
    for (n, S) in sx_consts(rhs, []):
        if n == name_s and S != T_s:
            th = sx_unify(T_s, rename_apart(S, "~"))
            if th is not None:
                th = {v: t for v, t in th.items() if not v.endswith("~")}
                # the occurrence must be instantiated compatibly: unify again with shared variables
                th2 = sx_unify(T_s, S)
                for cand in (th2, th):
                    if cand is not None:
                        sig = {v: sx_ty_subst(cand.get(v, ["V", v]), {}) for v in tvT}
                        sigmas.append(sig)
    groups, seen = [], set()
    for sig in sigmas:
        full0 = dict(sig)
        # remaining type variables of the instance (introduced by a unifier) and the extra ones
        Tinst = sx_ty_subst(T_s, full0)
        rest = [v for v in sx_ty_tvars(Tinst, []) if v not in ("u1", "u2", "u3")]
        ground = {v: U2 for v in rest}
        Tinst = sx_ty_subst(Tinst, ground)
        base = {v: sx_ty_subst(t, ground) for v, t in full0.items()}
        for v in rest:
            base.setdefault(v, U2)
        combos = [[]]
        for v in extra:
            combos = [c + [(v, t)] for c in combos for t in (U1, SXBOOL, U2)]
        combos = combos[:6]
        props = []
        for c in combos:
            m = dict(base)
            m.update(dict(c))
            pi = sx_term_subst(prop_s, m)
            # anything still uninstantiated (type variables only inside the occurrence types)
            left = [v for v in sx_term_tvars(pi, []) if v not in ("u1", "u2", "u3")]
            if left:
                pi = sx_term_subst(pi, {v: U2 for v in left})
            props.append(pi)
        key = sexp.dumps([Tinst, props])
        if key not in seen:
            seen.add(key)
            groups.append((Tinst, props))
    return groups


def parse_def_prop(raw):
    """what `Definition.parse` hands to its checks: (type, prop) or None when the parser fails"""
    import contextlib
    import io
    with contextlib.redirect_stdout(io.StringIO()):
        return _parse_def_prop(raw)


def _parse_def_prop(raw):
    from logic import context
    from syntax import parser
    try:
        T = parser.parse_type(raw['type'])
        with context.fresh_context(defs={raw['name']: T}):
            prop = parser.parse_term(raw['prop'])
        return T, prop
    except Timeout:
        raise
    except Exception:
        return None


def not_a_definition(name, T, prop):
    """The syntactic half of the property, checked directly on the accepted item (independent of the
    model and of `Type.is_apart`): equation; head = the constant; arguments are distinct variables;
    free (and schematic) variables of the rhs are among them; type variables of the rhs occur in the
    type of the constant; the constant does not occur on the rhs at a type that has a common
    instance with `T`.  Returns the list of violated conditions."""
    from kernel.term import Const
    bad = []
    if not prop.is_equals():
        return ["not-an-equation"]
    f, args = prop.lhs.strip_comb()
    if not (f.is_const() and f.name == name and f.T == T):
        bad.append("head-is-not-the-constant")
    if not all(a.is_var() for a in args):
        bad.append("argument-not-a-variable")
    elif len(set(args)) != len(args):
        bad.append("repeated-argument")
    rhs = prop.rhs
    if not set(rhs.get_vars()) | set(rhs.get_svars()) <= set(a for a in args if a.is_var()):
        bad.append("free-variable-on-rhs")
    tvT = sx_ty_tvars(kwire.ty_to(T), [])
    rhs_s = kwire.term_to(rhs)
    if not set(sx_term_tvars(rhs_s, [])) <= set(tvT):
        bad.append("type-variable-not-in-type-of-constant")
    stT = set(str(v) for v in T.get_stvars())
    if not set(str(v) for v in rhs.get_stvars()) <= stT:
        bad.append("schematic-type-variable-not-in-type-of-constant")
    T_s = kwire.ty_to(T)
    for (n, S) in sx_consts(rhs_s, []):
        if n == sexp.enc(name) and sx_unify(T_s, rename_apart(S, "~")) is not None:
            bad.append("constant-occurs-on-rhs")
            break
    return bad


def sx_term_unify(a, b):
    """first-order unifier of two term s-expressions whose variables (`v` atoms, by name) are
    disjoint; constants are rigid, types are ignored, binders must be identical.  dict or None"""
    sub = {}

    def walk(t):
        while t[0] == "v" and t[1] in sub:
            t = sub[t[1]]
        return t

    def occurs(x, t):
        t = walk(t)
        if t[0] == "v":
            return t[1] == x
        if t[0] == "ap":
            return occurs(x, t[1]) or occurs(x, t[2])
        return False

    def uni(s, t):
        s, t = walk(s), walk(t)
        if s[0] == "v" and t[0] == "v" and s[1] == t[1]:
            return True
        if s[0] == "v":
            if occurs(s[1], t):
                return False
            sub[s[1]] = t
            return True
        if t[0] == "v":
            return uni(t, s)
        if s[0] == "ap" and t[0] == "ap":
            return uni(s[1], t[1]) and uni(s[2], t[2])
        if s[0] == "c" and t[0] == "c":
            return s[1] == t[1]
        return s == t
    if not uni(a, b):
        return None

    def resolve(t):
        t = walk(t)
        if t[0] == "ap":
            return ["ap", resolve(t[1]), resolve(t[2])]
        if t[0] == "ab":
            return ["ab", "_", t[2], resolve(t[3])]
        return t
    return resolve


def sx_rename_vars(t, suffix):
    k = t[0]
    if k == "v":
        return ["v", t[1] + suffix, t[2]]
    if k == "ap":
        return ["ap", sx_rename_vars(t[1], suffix), sx_rename_vars(t[2], suffix)]
    if k == "ab":
        return ["ab", t[1], t[2], sx_rename_vars(t[3], suffix)]
    return t


def type_mentions(T, name):
    return T.is_tconst() and (T.name == name or any(type_mentions(a, name) for a in T.args))


def occurs_in_domain(T, name):
    """the type `name` occurs to the left of a function arrow somewhere in T"""
    if not T.is_tconst():
        return False
    if T.is_fun():
        return type_mentions(T.domain_type(), name) or occurs_in_domain(T.range_type(), name)
    return any(occurs_in_domain(a, name) for a in T.args)


def non_positive(t, pred, pol=True):
    """the predicate constant named `pred` occurs in `t` negatively, or where polarity is unknown"""
    f, args = t.strip_comb()
    if f.is_const() and f.name == pred:
        return (not pol) or any(mentions_const(a, pred) for a in args)
    if t.is_not():
        return non_positive(t.arg, pred, not pol)
    if t.is_implies():
        return non_positive(t.arg1, pred, not pol) or non_positive(t.arg, pred, pol)
    if t.is_conj() or t.is_disj():
        return non_positive(t.arg1, pred, pol) or non_positive(t.arg, pred, pol)
    if (t.is_forall() or t.is_exists()) and t.arg.is_abs():
        return non_positive(t.arg.body, pred, pol)
    return mentions_const(t, pred)


def mentions_const(t, name):
    return any(c.name == name for c in t.get_consts())


def definitional_hazards(item):
    """`def.ind`, `def.pred` and `type.ind` items are definitions by their kind (not `.ax`), but
    nothing checks that they are conservative.  Syntactic signs that an ACCEPTED one is not:
    two function equations whose left-hand sides overlap while the right-hand sides differ; a
    recursive call on the very arguments of the left-hand side; an inductive predicate occurring
    negatively in a premise of its own rule (the generated `_cases` rule then proves anything); a
    datatype occurring to the left of an arrow in an argument of its own constructor (no set is in
    bijection with a superset of its function space).  Returns [(class, detail)]."""
    out = []
    try:
        if item.ty == 'def.ind':
            rules = [(kwire.term_to(r['prop'].lhs), kwire.term_to(r['prop'].rhs)) for r in item.rules]
            for i in range(len(rules)):
                li, ri = rules[i]
                for j in range(i + 1, len(rules)):
                    lj, rj = sx_rename_vars(rules[j][0], "~"), sx_rename_vars(rules[j][1], "~")
                    th = sx_term_unify(li, lj)
                    if th is not None and kwire.canon_term(th(ri)) != kwire.canon_term(th(rj)):
                        out.append(("overlapping-rules", "rules %d and %d overlap with different right-hand sides" % (i + 1, j + 1)))
                        break
                else:
                    continue
                break
            for i, r in enumerate(item.rules):
                lhs, rhs = r['prop'].lhs, r['prop'].rhs
                if rhs != lhs and any(sub == lhs for sub in subterms(rhs)):
                    out.append(("recursive-call-on-same-arguments", "rule %d calls the function on its own left-hand side" % (i + 1)))
                    break
        elif item.ty == 'def.pred':
            for r in item.rules:
                As, _ = r['prop'].strip_implies()
                if any(non_positive(A, item.name) for A in As):
                    out.append(("negative-occurrence", "rule %s uses the predicate negatively in a premise" % r['name']))
                    break
        elif item.ty == 'type.ind':
            for c in item.constrs:
                argsT, _ = c['type'].strip_type()
                if any(occurs_in_domain(A, item.name) for A in argsT):
                    out.append(("non-positive-occurrence", "constructor %s takes an argument with the datatype left of an arrow" % c['name']))
                    break
    except Timeout:
        raise
    except Exception as e:  # noqa
        out.append(("hazard-judge-crashed", "%s: %s" % (type(e).__name__, str(e)[:100])))
    return out


def subterms(t):
    yield t
    if t.is_comb():
        yield from subterms(t.fun)
        yield from subterms(t.arg)
    elif t.is_abs():
        yield from subterms(t.body)


def datatype_constructors(thy, dname):
    """constructor names of the datatype `dname`, read off its induction theorem in the theory"""
    try:
        th = thy.get_theorem(dname + "_induct", svar=False)
    except Exception:  # noqa
        return None
    As, _ = th.prop.strip_implies()
    out = []
    for A in As:
        while A.is_forall() and A.arg.is_abs():
            A = A.arg.body
        _, C = A.strip_implies()
        if not C.is_comb():
            return None
        head, _ = C.arg.strip_comb()
        if not head.is_const():
            return None
        out.append(head.name)
    return out


def prim_rec_ok(item, thy):
    """`primRecOK`: the equations of an accepted `def.ind` item are primitive recursive over the
    constructors of one datatype: every left-hand side is the function applied to as many arguments
    as in every other rule, one of them (the same position everywhere) a constructor applied to
    distinct variables and the others distinct variables; exactly one equation per constructor of
    that datatype; every occurrence of the function on a right-hand side is a call whose argument in
    that position is one of the constructor's variables; no other variables on the right.
    Returns (True, position) or (False, reason)."""
    rules = [r['prop'] for r in item.rules]
    if not rules:
        return False, "no-rules"
    parsed = []
    for p in rules:
        if not p.is_equals():
            return False, "not-an-equation"
        f, args = p.lhs.strip_comb()
        if not (f.is_const() and f.name == item.name):
            return False, "wrong-head"
        parsed.append((args, p.rhs))
    n = len(parsed[0][0])
    if n == 0 or any(len(a) != n for a, _ in parsed):
        return False, "different-number-of-arguments"
    pos = [i for i in range(n) if all(not a[i].is_var() for a, _ in parsed)]
    if len(pos) != 1 or any(not a[j].is_var() for a, _ in parsed for j in range(n) if j != pos[0]):
        return False, "not-exactly-one-pattern-position" if len(parsed) > 1 or len(pos) != 1 else "patterns-elsewhere"
    k = pos[0]
    seen = []
    dname = None
    for args, rhs in parsed:
        head, cargs = args[k].strip_comb()
        if not head.is_const() or not all(c.is_var() for c in cargs):
            return False, "pattern-not-constructor-of-variables"
        lhs_vars = [a for j, a in enumerate(args) if j != k] + list(cargs)
        if len(set(v.name for v in lhs_vars)) != len(lhs_vars):
            return False, "repeated-variable-on-lhs"
        _, resT = head.T.strip_type()
        if not resT.is_tconst():
            return False, "pattern-type-is-a-variable"
        if dname is None:
            dname = resT.name
        elif dname != resT.name:
            return False, "patterns-of-different-types"
        seen.append(head.name)
        if not set(rhs.get_vars()) <= set(lhs_vars) or rhs.get_svars():
            return False, "extra-variable-on-rhs"
        # occurrences of the function on the right
        ok = [True]

        def walk(t):
            h, targs = t.strip_comb()
            if h.is_const() and h.name == item.name:
                if len(targs) < n or not any(targs[k] == c for c in cargs):
                    ok[0] = False
                for u in targs:
                    walk(u)
            elif t.is_comb():
                walk(t.fun)
                walk(t.arg)
            elif t.is_abs():
                walk(t.body)
        walk(rhs)
        if not ok[0]:
            return False, "recursive-call-not-on-a-constructor-argument"
    constrs = datatype_constructors(thy, dname)
    if constrs is None:
        return False, "pattern-type-%s-is-not-a-datatype" % dname
    if sorted(seen) != sorted(constrs):
        return False, "not-one-equation-per-constructor"
    return True, k


def install_probe(item):
    """after the FIRST definition of a constant was accepted: prove its equation from `<c>_def` through
    the real checker and keep it as a (checked) theorem under another name.  Returns that name."""
    from kernel import theory, extension
    from kernel.proof import Proof
    name = "c11_probe_" + item.cname
    try:
        prf = Proof()
        prf.add_item(0, "theorem", args=item.cname + "_def")
        th = theory.thy.check_proof(prf, no_gaps=True)
        theory.thy.checked_extend([extension.Theorem(name, th, prf)])
        return name
    except Timeout:
        raise
    except Exception:  # noqa
        return None


def run_probe(probe, item):
    """after a SECOND definition of the same constant was accepted: `theorem probe; theorem <c>_def;
    symmetric; transitive` through the real checker.  Returns the proved `t1 = t2` (as text) if the
    checker accepts it and the two sides differ, else None."""
    from kernel import theory
    from kernel.proof import Proof
    try:
        prf = Proof()
        prf.add_item(0, "theorem", args=probe)
        prf.add_item(1, "theorem", args=item.cname + "_def")
        prf.add_item(2, "symmetric", prevs=[0])
        prf.add_item(3, "transitive", prevs=[2, 1])
        th = theory.thy.check_proof(prf, no_gaps=True)
        if th.prop.is_equals() and th.prop.lhs != th.prop.rhs and not th.hyps:
            try:
                return str(th)
            except Exception:  # noqa
                return repr(th.prop)
    except Timeout:
        raise
    except Exception:  # noqa
        return None
    return None


def declared_constants(names):
    """(name, type-sexp, theory, item-ty) of every constant the loaded items declare, except the
    generic declarations of overloaded constants"""
    from logic import basic
    out = []
    for n in names:
        for it in basic.load_theory_cache(n)['content']:
            if it.error is not None:
                continue
            exts = it.get_extension()
            if any(e.is_overload() for e in exts):
                continue
            for e in exts:
                if e.is_constant():
                    out.append((e.name, kwire.ty_to(e.T), n, it.ty))
    return out


GEN_BASE = "int"


def run_generated(ctx, ncases):
    from logic import basic
    from kernel import theory
    rng = ctx.rng("generated")
    basic.load_theory(GEN_BASE)
    base = theory.thy
    decl = declared_constants(basic.get_import_order([GEN_BASE]))
    counter = [0]
    g = DefGen(rng, counter)
    cases = list(corpus_items(ctx))
    for _ in range(ncases):
        r = rng.random()
        if r < 0.44:
            cases.append(g.item())
        elif r < 0.455:
            cases.append(history_item(rng, g))
        elif r < 0.47:
            cases.append(compound_arg_item(rng, g))
        elif r < 0.50:
            cases.append(adversarial_item(rng, g))
        elif r < 0.55:
            cases.append(related_selfref_item(rng, g))
        elif r < 0.70:
            cases += overloaded_items(rng, g)
        elif r < 0.80:
            cases.append(datatype_item(rng, g))
        elif r < 0.88:
            cases.append(fun_item(rng, g))
        elif r < 0.92:
            cases.append(inductive_item(rng, g))
        elif r < 0.96:
            cases.append(long_item(rng, g))
        elif r < 0.975:
            cases.append(related_selfref_item(rng, g))
        elif r < 0.99:
            cases.append(other_item(rng, g))
        else:
            cases.append(adversarial_item(rng, g))
    model_lines, model_owner = [], []
    accepted_lines, accepted_owner = [], []
    oracle_lines, oracle_owner = [], []
    results = []
    for ci, case in enumerate(cases):
        kind, raw = case[0], case[1]
        before = case[2] if len(case) > 2 else []
        theory.thy = copy.copy(base)
        decl_here = decl
        seq, seq_ok, probe = [], True, None       # the history as the model sees it; the first definition of raw's name
        for b in before:            # items of the same file that come first
            pb = parse_def_prop(b) if b['ty'] == 'def' else None
            with time_limit(60):
                rb = ItemRun(b, widths=[]).run()
            if b['ty'] == 'def' and pb is not None:
                seq.append((b['name'], pb))
            else:
                seq = None if seq is None or b['ty'] != 'def' else seq
            seq_ok = seq_ok and rb.status == "accepted"
            if rb.status == "accepted":
                decl_here = decl_here + [(e.name, kwire.ty_to(e.T), "(generated)", b['ty']) for e in rb.exts
                                         if e.is_constant() and not any(x.is_overload() for x in rb.exts)]
                if b['ty'] == 'def' and raw['ty'] == 'def' and b['name'] == raw['name'] and probe is None:
                    probe = install_probe(rb.item)
        pre_thy = copy.copy(theory.thy)
        with time_limit(60):
            r = ItemRun(raw).run()
        results.append(r)
        if probe is not None and r.status == "accepted":
            contradiction = run_probe(probe, r.item)
            if contradiction is not None:
                ctx.violation("inconsistent-history:%s" % kind.replace("corpus:", ""),
                              "two definitions of %s were both installed and the checker proves %s from them (theorem, theorem, symmetric, transitive)" % (
                                  raw['name'], contradiction),
                              {"stream": "generated", "base": GEN_BASE, "raw": raw, "before": before, "defect": "inconsistent-history", "kind": kind})
        if before and raw['ty'] == 'def' and seq is not None and len(seq) == len(before):
            theory.thy = copy.copy(pre_thy)
            pr = parse_def_prop(raw)
            if pr is not None and not any(n in base.get_data("term_sig") for n, _ in seq + [(raw['name'], pr)]):
                items_s = [[sexp.enc(n), kwire.ty_to(T), kwire.term_to(pp)] for n, (T, pp) in seq + [(raw['name'], pr)]]
                accepted_lines.append(sexp.dumps(["accepted", items_s]))
                accepted_owner.append((kind, raw, before, seq_ok and r.status == "accepted"))
            theory.thy = pre_thy if r.status != "accepted" else theory.thy
        if r.status == "accepted" and raw['ty'] == "def.ind":
            try:
                okp, why = prim_rec_ok(r.item, theory.thy)
            except Timeout:
                raise
            except Exception as e:  # noqa
                okp, why = False, "judge-crashed:%s" % type(e).__name__
            ctx.count("primRecOK:generated:%s:%s" % (kind, "yes" if okp else "no:" + str(why)))
            # the hazards the check knows for def.ind are exactly failures of primRecOK
            hz = [c for c, _ in definitional_hazards(r.item)]
            if okp and hz:
                ctx.broken("oracle:c11:primRecOK", "primRecOK holds for an item with hazard %s: %s" % (hz, json.dumps(raw, ensure_ascii=False)[:300]))
        if r.status == "accepted":
            for cls, detail in definitional_hazards(r.item) + r.hazards:
                ctx.violation("generated:%s:%s" % (raw['ty'], cls),
                              "accepted %s item (%s) is not conservative: %s" % (raw['ty'], kind, detail),
                              {"stream": "generated", "base": GEN_BASE, "raw": raw, "before": before, "defect": cls, "kind": kind})
        ctx.count("gen:%s:%s" % (kind, r.status))
        ctx.case(("gen", json.dumps(raw, sort_keys=True)), nontrivial=(r.status == "accepted"))
        if ci < 3 or (r.status == "accepted" and ci % 97 == 0):
            ctx.sample({"kind": kind, "item": raw, "status": r.status, "error": r.err})
        key_raw = json.dumps(raw, sort_keys=True, ensure_ascii=False)
        for cls, detail in r.defects:
            ctx.violation(gen_key(raw, cls, detail), "generated %s item (%s): %s" % (raw['ty'], kind, detail),
                          {"stream": "generated", "base": GEN_BASE, "raw": raw, "before": before, "defect": cls, "kind": kind})
        if raw['ty'] != 'def':
            continue
        # ---- definitions: model verdict on what the parser produced
        theory.thy = copy.copy(pre_thy)
        with time_limit(60):
            parsed = parse_def_prop(raw)
        if parsed is None:
            ctx.count("gen:def:unparsable")
            if r.status != "error":
                ctx.broken("correspondence:c11:def", "parser failed on the harness side but the item was accepted: %s" % key_raw[:300])
            continue
        T, prop = parsed
        name_s, T_s, prop_s = sexp.enc(raw['name']), kwire.ty_to(T), kwire.term_to(prop)
        model_lines.append(sexp.dumps(["defok", name_s, T_s, prop_s]))
        model_owner.append((ci, kind, raw, r))
        if r.status == "accepted":
            for cond in not_a_definition(raw['name'], T, prop):
                ctx.violation("not-a-definition:%s:%s" % (cond, key_raw[:300]),
                              "accepted `def` item violates the side condition '%s': %s :: %s, %s" % (cond, raw['name'], raw['type'], raw['prop']),
                              {"stream": "generated", "base": GEN_BASE, "raw": raw, "defect": "not-a-definition", "kind": kind})
            # newness: the instance must not overlap a declared one
            for (dn, dT, dth, dty) in decl_here:
                if dn == raw['name'] and sx_unify(T_s, rename_apart(dT, "~")) is not None:
                    ctx.violation("redeclared-instance:%s" % raw['name'],
                                  "definition of %s :: %s accepted although %s :: %s is declared in theory %s (%s)" % (
                                      raw['name'], raw['type'], dn, sexp.dumps(dT), dth, dty),
                                  {"stream": "generated", "base": GEN_BASE, "raw": raw, "defect": "redeclared-instance", "kind": kind})
                    break
            if prop_s[0] == "ap" and prop_s[1][0] == "ap":
                for gi, (Tinst, props) in enumerate(oracle_groups(rng, name_s, T_s, prop_s, ctx.scale(3, 5))):
                    for si, spec in enumerate(SPECS[: ctx.scale(2, 3)]):
                        oracle_lines.append(sexp.dumps(["defcex", name_s, Tinst, props, list(spec), ctx.scale(12, 40),
                                                        ctx.seed * 7919 + si, 20000]))
                        oracle_owner.append((ci, kind, raw, si))
    theory.thy = base
    # ---- correspondence
    out = ctx.lean_driver(EXE, model_lines, timeout=1200) if model_lines else []
    if out is None:
        ctx.broken("correspondence:c11:driver", "model driver unavailable")
    else:
        ndis = 0
        for (ci, kind, raw, r), line in zip(model_owner, out):
            m = sexp.loads(line)
            if m == "bad-op" or len(m) != 2:
                ctx.broken("correspondence:c11:def", "driver answered %s for %s" % (line[:80], json.dumps(raw, ensure_ascii=False)[:300]))
                continue
            mok, reason = (m[0] == "T"), m[1]
            pok = r.status != "error"
            ctx.count("defok:%s" % reason)
            if (reason == "ok") != mok:
                ctx.broken("correspondence:c11:reason", "defOK=%s but defReason=%s on %s" % (mok, reason, json.dumps(raw, ensure_ascii=False)[:300]))
            if mok != pok:
                ndis += 1
                ctx.coverage["disagreements_checked"] += 1
                if ndis <= 3:
                    ctx.broken("correspondence:c11:def", "Definition.parse %s (%s) but defOK=%s (%s) on %s" % (
                        "accepts" if pok else "rejects", r.err, mok, reason, json.dumps(raw, ensure_ascii=False)[:400]))
    # ---- the history as a whole: the real loader accepts every item  <->  `accepted` of the model
    # (Props2.lean: `defs_list_gives_DefsHold` needs each constant to be new)
    out = ctx.lean_driver(EXE, accepted_lines, timeout=600) if accepted_lines else []
    if out is None:
        ctx.broken("correspondence:c11:driver", "model driver unavailable")
    else:
        for (kind, raw, before, real), line in zip(accepted_owner, out):
            ctx.count("accepted-sequence:%s" % line.strip())
            if line.strip() not in ("T", "F"):
                ctx.broken("correspondence:c11:accepted", "driver answered %s" % line[:80])
            elif (line.strip() == "T") != real:
                ctx.coverage["disagreements_checked"] += 1
                ctx.broken("correspondence:c11:accepted", "the loader %s the history but the model's `accepted` says %s: %s then %s" % (
                    "accepts" if real else "does not accept", line.strip(), json.dumps(before, ensure_ascii=False)[:300], json.dumps(raw, ensure_ascii=False)[:200]))
    # ---- property oracle on the accepted definitions
    out = ctx.lean_driver(EXE, oracle_lines, timeout=3000) if oracle_lines else []
    if out is None:
        ctx.broken("oracle:c11:driver", "model driver unavailable for the semantic oracle")
    else:
        nok = nskip = 0
        for (ci, kind, raw, si), line, oline in zip(oracle_owner, out, oracle_lines):
            m = sexp.loads(line)
            if m[0] == "ok":
                nok += 1
            elif m[0] == "skip":
                nskip += 1
                ctx.count("oracle:skip:%s" % m[1])
            elif m[0] == "cex":
                ctx.violation("non-conservative:" + json.dumps(raw, sort_keys=True, ensure_ascii=False)[:300],
                              "accepted definition %s has no interpretation in a finite model: %s" % (raw['name'], raw['prop']),
                              {"stream": "generated", "base": GEN_BASE, "raw": raw, "defect": "non-conservative", "kind": kind,
                               "oracle_line": oline, "old_valuation": m[1]})
            else:
                ctx.broken("oracle:c11:driver", "unexpected answer %s" % line[:100])
        ctx.coverage["oracle"] = {"definitions_accepted": len({o[0] for o in oracle_owner}), "model_checks_ok": nok, "skipped_too_costly": nskip}
        ctx.count("oracle:ok", nok)
    return len(cases)


def gen_key(raw, cls, detail):
    """key of a defect found on a generated item: item kind, defect class and the first words of
    the failure (no generated names)"""
    import re
    if cls == "display-rejected":      # class-level: which exception get_display raises
        m = re.search(r"raises (\w+)", detail)
        return "generated:%s:%s:%s" % (raw['ty'], cls, m.group(1) if m else "?")
    d = re.sub(r"\b(c|dt|K|fn|pr|ac|oc|ax|th|at|bl|Constructor|long_th)\d+\b", "N", detail)
    d = re.sub(r"pr\d+_r\d+|N_rN|N_r\d+", "N", d)
    return "generated:%s:%s:%s" % (raw['ty'], cls, d[:80])


def corpus_items(ctx):
    """hand-written regression items: the defects of the pinned tree (must stay rejected) and a few
    library-style definitions (must stay accepted)"""
    fixed = [
        ("corpus:retyped-arg", {"ty": "def", "name": "crt1", "type": "'a => nat", "prop": "crt1 x = (x::nat)"}),
        ("corpus:retyped-arg", {"ty": "def", "name": "crt2", "type": "bool => nat => nat", "prop": "crt2 b n = (if (n::bool) then (b::nat) else 0)"}),
        ("corpus:self-ref", {"ty": "def", "name": "cbad", "type": "bool", "prop": "cbad <--> ~cbad"}),
        ("corpus:self-ref", {"ty": "def", "name": "cbad2", "type": "bool", "prop": "cbad2 <--> (cbad2 --> (!p::bool. p))"}),
        ("corpus:extra-tvar", {"ty": "def", "name": "c2", "type": "bool", "prop": "c2 <--> (!x::'a. !y::'a. x = y)"}),
        ("corpus:free-var", {"ty": "def", "name": "c3", "type": "bool => bool", "prop": "c3 x <--> (x = y)"}),
        ("corpus:free-var", {"ty": "def", "name": "c3s", "type": "nat => nat", "prop": "c3s x = ?y + x"}),
        ("corpus:repeated-arg", {"ty": "def", "name": "c4", "type": "bool => bool => bool", "prop": "c4 x x <--> x"}),
        ("corpus:non-var-arg", {"ty": "def", "name": "c5", "type": "bool => bool", "prop": "c5 ((f::bool => bool) x) <--> x"}),
        ("corpus:non-var-arg", {"ty": "def", "name": "c6", "type": "bool => bool", "prop": "c6 true <--> false"}),
        ("corpus:stvar", {"ty": "def", "name": "c7", "type": "'a => ?'a => bool", "prop": "c7 x y <--> true"}),
        ("corpus:overload:redefine", {"ty": "def", "name": "zero", "type": "int", "prop": "(zero::int) = of_nat (1::nat)"}),
        ("corpus:overload:self", {"ty": "def", "name": "zero", "type": "bool", "prop": "(zero::bool) = ~(zero::bool)"}),
        ("corpus:overload:overlap", {"ty": "def", "name": "zero", "type": "'a list", "prop": "(zero::'a list) = (if (zero::nat list) = [] then [] else [])"}),
        ("corpus:overload:other-instance", {"ty": "def", "name": "zero", "type": "bool", "prop": "(zero::bool) <--> ((zero::nat) = 0)"}),
        ("corpus:related-selfref:permute", {"ty": "def", "name": "cperm", "type": "'a => 'b => bool",
                                            "prop": "cperm (x::'a) (y::'b) <--> ~((cperm::'b => 'a => bool) y x)"}),
        ("corpus:related-selfref:merge", {"ty": "def", "name": "cmerge", "type": "'a => 'b => bool",
                                          "prop": "cmerge (x::'a) (y::'b) <--> ~((cmerge::'a => 'a => bool) x x)"}),
        ("corpus:related-selfref:permute", {"ty": "def", "name": "clperm", "type": "'a list => 'b list => nat",
                                            "prop": "clperm (x::'a list) (y::'b list) = Suc ((clperm::'b list => 'a list => nat) y x)"}),
        ("corpus:related-selfref:partial", {"ty": "def", "name": "cpart", "type": "'a => 'b => bool",
                                            "prop": "cpart (x::'a) (y::'b) <--> ~((cpart::'a => nat => bool) x 0)"}),
        ("corpus:related-selfref:fresh", {"ty": "def", "name": "cfresh", "type": "'a => bool",
                                          "prop": "cfresh (x::'a) <--> ~((cfresh::'c => bool) (SOME k::'c. true))"}),
        ("corpus:long:fun", {"ty": "def.ind", "name": "longfn", "type": "nat => nat => nat", "rules": [
            {"prop": "longfn 0 n = (if n = 0 then (1::nat) else n + n + n) + (if n = 1 then (0::nat) else n + 1) + (if n = n then n else (0::nat)) + n + n + 1"},
            {"prop": "longfn (Suc m) n = longfn m (n + 1) + (if m = n then longfn m n else longfn m (n + n)) + (if n = 0 then (1::nat) else longfn m 0) + m + n"}]}),
        ("corpus:long:inductive", {"ty": "def.pred", "name": "longpr", "type": "nat => nat => bool", "rules": [
            {"name": "longpr_base", "prop": "longpr 0 0"},
            {"name": "longpr_step", "prop": "longpr m n --> longpr n m --> m = n + n --> n = m + 1 --> longpr (m + n) (n + m) --> longpr (Suc m) (Suc (Suc n)) --> longpr (Suc (m + n + n)) (n + m + m)"}]}),
        ("corpus:history:def-after-def", {"ty": "def", "name": "cc", "type": "bool", "prop": "cc = false"},
         [{"ty": "def", "name": "cc", "type": "bool", "prop": "cc = true"}]),
        ("corpus:history:def-after-def", {"ty": "def", "name": "ccn", "type": "nat => nat", "prop": "ccn n = Suc n"},
         [{"ty": "def", "name": "ccn", "type": "nat => nat", "prop": "ccn n = n"}]),
        ("corpus:history:def-after-def.ax", {"ty": "def", "name": "cax", "type": "'a => 'a => bool", "prop": "cax x y = false"},
         [{"ty": "def.ax", "name": "cax", "type": "'a => 'a => bool"}]),
        ("corpus:history:def.ind-after-def", {"ty": "def.ind", "name": "cfn", "type": "nat => bool", "rules": [{"prop": "cfn 0 = false"}, {"prop": "cfn (Suc n) = false"}]},
         [{"ty": "def", "name": "cfn", "type": "nat => bool", "prop": "cfn n = true"}]),
        ("corpus:history:def.pred-after-def", {"ty": "def.pred", "name": "cpr", "type": "nat => bool", "rules": [{"name": "cpr_i", "prop": "cpr 0"}]},
         [{"ty": "def", "name": "cpr", "type": "nat => bool", "prop": "cpr n = false"}]),
        ("corpus:history:datatype-after-def", {"ty": "type.ind", "name": "cdt", "args": [], "constrs": [{"name": "ckk", "args": [], "type": "cdt"}]},
         [{"ty": "type.ax", "name": "cdt", "args": []}, {"ty": "def.ax", "name": "ckk", "type": "cdt"}]),
        ("corpus:history:def-after-library", {"ty": "def", "name": "true", "type": "bool", "prop": "(true::bool) = false"}),
        ("corpus:history:def-after-library", {"ty": "def", "name": "Suc", "type": "nat => nat", "prop": "(Suc::nat => nat) n = n"}),
        ("corpus:history:def-after-library", {"ty": "def", "name": "nil", "type": "'a list", "prop": "(nil::'a list) = (SOME k::'a list. true)"}),
        ("corpus:overload:tvar-of-generic-type", {"ty": "def", "name": "zero", "type": "bool", "prop": "(zero::bool) = (!x::'a. !y::'a. x = y)"}),
        ("corpus:overload:tvar-of-generic-type", {"ty": "def", "name": "power", "type": "bool => bool => bool",
                                                  "prop": "(power::bool => bool => bool) x y = (x & (!k::'b. !m::'b. k = m))"}),
        ("corpus:compound-arg", {"ty": "def", "name": "ccomp1", "type": "bool => bool", "prop": "ccomp1 (x = x) = x"}),
        ("corpus:compound-arg", {"ty": "def", "name": "ccomp2", "type": "bool => bool => bool", "prop": "ccomp2 (x & y) true = x"}),
        ("corpus:compound-arg", {"ty": "def", "name": "ccomp3", "type": "bool => bool", "prop": "ccomp3 (~x) = x"}),
        ("corpus:compound-arg", {"ty": "def", "name": "ccomp4", "type": "nat => nat => nat", "prop": "ccomp4 (x + y) 0 = x"}),
        ("corpus:valid", {"ty": "def", "name": "Kc", "type": "'a => 'b => 'a", "prop": "Kc x y = x"}),
        ("corpus:valid", {"ty": "def", "name": "compc", "type": "('b => 'c) => ('a => 'b) => 'a => 'c", "prop": "compc f g x = f (g x)"}),
        ("corpus:valid", {"ty": "def", "name": "Ic", "type": "'a => 'a", "prop": "Ic = (%x::'a. x)", "attributes": ["hint_rewrite"]}),
    ]
    return fixed


def run_reload(ctx, nrounds):
    """Items must survive a re-load of the cache after an edit of an indirectly imported theory: a
    chain of user theories  base <- mid* <- top  is written to a scratch directory (the two path
    functions of logic/basic.py are redirected there, nothing is written into the repository), `top`
    is loaded, a theory further down is edited on disk, `top` is loaded again in the same process (as
    the server does after a save).  Then every theorem of the loaded theory must be well-typed over
    its signature, and the theory must equal what a fresh cache loads from the same files."""
    from logic import basic
    from kernel import theory
    rng = ctx.rng("reload")
    root = os.path.join(ctx.scratch, "users")
    user = "c11reload"
    os.makedirs(os.path.join(root, user), exist_ok=True)
    old_dir, old_file = basic.user_dir, basic.user_file

    def user_dir(username="master"):
        return old_dir(username) if username == "master" else os.path.join(root, username)

    def user_file(filename, username="master"):
        return old_file(filename, username) if username == "master" else os.path.join(root, username, filename + ".json")
    basic.user_dir, basic.user_file = user_dir, user_file
    bump = [0]

    def write(name, imports, content):
        path = user_file(name, user)
        with open(path, "w", encoding="utf-8") as f:
            json.dump({"name": name, "imports": imports, "description": "", "content": content}, f)
        bump[0] += 10
        st = os.stat(path)
        os.utime(path, (st.st_atime + bump[0], st.st_mtime + bump[0]))

    def snapshot():
        return {"term_sig": {k: str(v) for k, v in theory.thy.get_data("term_sig").items() if k.startswith("rl_")},
                "type_sig": {k: v for k, v in theory.thy.get_data("type_sig").items() if k.startswith("rl_")},
                "theorems": {k: repr(v.prop) for k, v in theory.thy.get_data("theorems").items() if k.startswith("rl_")}}

    def ill_typed():
        bad = []
        for nm, th in sorted(theory.thy.get_data("theorems").items()):
            if not nm.startswith("rl_"):
                continue
            try:
                for t in list(th.hyps) + [th.prop]:
                    for c in t.get_consts():
                        theory.thy.check_term(c)
                    for T in all_types_of_term(t, []):
                        theory.thy.check_type(T)
                th.check_thm_type()
            except Timeout:
                raise
            except Exception as e:  # noqa
                bad.append("%s [%s: %s]" % (nm, type(e).__name__, str(getattr(e, "str", e))[:80]))
        return bad
    import contextlib
    import io
    saved = theory.thy
    try:
        for rd in range(nrounds):
            depth = rng.choice([3, 3, 4])
            names = ["rl_t%d_%d" % (rd, i) for i in range(depth)]
            variant = rng.randrange(4)
            variant = rng.randrange(3)
            k, ty1, ty2, use = [
                ("rl_k%d" % rd, "bool => bool", "(bool => bool) => bool", "rl_d%d x = rl_k%d x"),
                ("rl_k%d" % rd, "bool", "bool => bool", "rl_d%d x = (rl_k%d = x)"),
                ("rl_k%d" % rd, "'a => 'a", "'a => bool", "rl_d%d x = rl_k%d x")][variant]
            dT = ["bool => bool", "bool => bool", "'a => 'a"][variant]
            base1 = [{"ty": "def.ax", "name": k, "type": ty1}]
            base2 = [{"ty": "def.ax", "name": k, "type": ty2}]
            top = [{"ty": "def", "name": "rl_d%d" % rd, "type": dT, "prop": use % (rd, rd)}]
            basic.theory_cache.pop(user, None)          # the files of this round are new: fresh metadata
            basic.item_index.pop(user, None)
            write(names[0], [], base1)
            for i in range(1, depth - 1):
                write(names[i], [names[i - 1]], [{"ty": "def.ax", "name": "rl_b%d_%d" % (rd, i), "type": "bool"}])
            write(names[-1], [names[-2]], top)
            replay = {"stream": "reload", "variant": variant, "depth": depth}
            try:
                with time_limit(300), contextlib.redirect_stdout(io.StringIO()):
                    basic.load_theory(names[-1], username=user)
                    if not theory.thy.has_theorem("rl_d%d_def" % rd):
                        ctx.broken("reload:c11:setup", "the definition of round %d was not accepted on the first load" % rd)
                        continue
                    write(names[0], [], base2)            # edit the theory two or more imports away
                    basic.load_theory(names[-1], username=user)
                    warm = snapshot()
                    bad = ill_typed()
                    basic.theory_cache.pop(user, None)
                    basic.item_index.pop(user, None)
                    basic.load_theory(names[-1], username=user)
                    cold = snapshot()
            except Timeout:
                raise
            except Exception as e:  # noqa
                ctx.violation("reload:raises:%s" % type(e).__name__, "re-loading a theory after an edit of an indirect import raises %s: %s" % (
                    type(e).__name__, str(getattr(e, "str", e))[:200]), replay)
                continue
            ctx.count("reload:rounds")
            ctx.case(("reload", rd, variant, depth), nontrivial=True)
            if bad:
                ctx.violation("reload:ill-typed-after-edit", "after an edit of an indirectly imported theory the re-loaded theory contains theorems "
                              "that are not well-typed over its signature: %s" % "; ".join(bad)[:300], replay)
            if warm != cold:
                ctx.violation("reload:differs-from-fresh-load", "the theory re-loaded after an edit of an indirect import differs from a fresh load of the "
                              "same files: %s / %s" % (str(warm)[:200], str(cold)[:200]), replay)
    finally:
        basic.user_dir, basic.user_file = old_dir, old_file
        basic.theory_cache.pop(user, None)
        basic.item_index.pop(user, None)
        theory.thy = saved


def run(ctx):
    ctx.coverage["rule"] = (
        "stream library: every item of the chosen library theories (thorough: all 43; quick: 14 fixed small theories + 3 sampled), a case = one item, "
        "non-trivial = accepted and not a header. stream generated: item descriptions (strings as in the JSON files) over bool, 'a, 'b, nat, lists and "
        "function types up to order 2: ~35% definitions meeting every side condition, the rest violate one on purpose (self reference, extra type "
        "variable, repeated / non-variable argument, free or schematic variable, schematic type variable, wrong shape, eta-reduced, shadowing), "
        "definitions of overloaded names (new / other / same / overlapping / existing instance), datatypes, recursive functions, inductive predicates "
        "(valid and malformed), axioms, theorems with attributes, constants, types, headers; a case = one item, non-trivial = accepted; distinct by "
        "the JSON text. Added: definitions whose right-hand side negates the constant at a type related to its own (type variables permuted, "
        "merged, renamed, partially instantiated, wrapped); items with rules / statements / constructor lists of 60-300 characters; every "
        "accepted item's editor round trip under line_length in {120, 80, 60, 40} x unicode (library theorems at quick tier: two settings each). "
        "Added (audit): unchecked definitional kinds with overlapping / non-exhaustive / non-terminating equations, negative premises, conclusions "
        "that are not the predicate, non-positive constructor arguments; re-declared types, constants, theorem names (also as two-item sequences); "
        "looping / unknown / repeated attributes; rejected items through both round trips. Added: definitions with compound arguments whose "
        "variables are as many as the arguments (c (x = x) = x); a chain of 3-4 user theories in a scratch directory re-loaded after an edit of "
        "the first one (4 / 20 rounds). Added: HISTORIES - a definitional item (def, def.ind, def.pred, type.ind) after an item of the same file "
        "or of an imported library theory that introduced the same constant at exactly the same type; valid two-item histories. Added: "
        "RE-TYPED ARGUMENTS - a rhs occurrence with the name of an argument and an explicit annotation of another type (a variable is a "
        "(name, type) pair; ~5% of the generated definitions and two corpus items).")
    ok = ctx.lean_props(["Holpy.C11.Props", "Holpy.C11.Props2"], exes=[EXE])
    if ctx.tier == "thorough" and ok:
        ctx.lean_check_modules(["Holpy.C11.Props", "Holpy.C11.Props2"])
    ctx.coverage["trusted_base"] += [
        "correspondence harness harness/props/c11.py + harness/common/kwire.py (field-level serialisation of real Term objects)",
        "the Lean evaluator `sem` run as an executable oracle (same definition the theorems are about)",
        "holpy's parser and printer (C07) produce the terms the side conditions are checked on"]
    ctx.assumptions += [
        "finite standard models; the new constant is new: for overloaded names this is the instance check of add_term_sig (fix C11-2)",
        "Fun / Inductive / Datatype / Axiom / Constant items are axiomatic: only well-typedness of their extensions and the round trips are checked",
        "oracle instances whose evaluation cost exceeds the budget are skipped (counted)"]
    from logic import basic
    basic.load_metadata()
    try:
        with time_limit(600):
            basic.load_theory('real')      # before anything that imports data.real (see C12: nested load_theory)
    except Timeout:
        raise
    except Exception as e:  # noqa
        load_failure(ctx, 'real', e)
        ctx.broken("library:c11:load", "theory real does not load; the streams need it")
        return
    names = library_names(ctx)
    order = basic.get_import_order(names)
    if ctx.tier == "quick":
        rng = ctx.rng("library-sample")
        rest = [n for n in order if n not in QUICK_THEORIES]
        chosen = set(QUICK_THEORIES) | set(rng.sample(rest, 3))
        order = [n for n in order if n in chosen]
    n = run_library(ctx, order)
    ctx.log("library: %d items of %d theories" % (n, len(order)))
    m = run_generated(ctx, ctx.scale(700, 6000))
    ctx.log("generated: %d items" % m)
    run_reload(ctx, ctx.scale(4, 20))
    ctx.log("reload: done")


def replay(ctx, rp):
    """re-run one recorded failing input; True if it still fails"""
    from logic import basic
    from kernel import theory
    r = rp["replay"]
    basic.load_metadata()
    try:
        with time_limit(600):
            basic.load_theory('real')
    except Timeout:
        raise
    except Exception as e:  # noqa
        print("theory real does not load:", type(e).__name__, getattr(e, "str", e))
        return True
    if r.get("stream") == "reload":
        n0 = len(ctx.violations)
        run_reload(ctx, 8)
        return len(ctx.violations) > n0
    if r.get("stream") == "library-load":
        try:
            basic.load_theory(r["theory"])
            return False
        except Exception as e:  # noqa
            print(type(e).__name__, getattr(e, "str", e))
            return True
    if r.get("stream") == "library":
        data = basic.load_json_data(r["theory"])
        basic.load_theory(r["theory"], limit='start')
        res = None
        for idx, raw in enumerate(data['content'][: r["index"] + 1]):
            res = ItemRun(raw).run()
        print(res.status, res.err, res.defects)
        return res.status != "accepted" or bool(res.defects)
    basic.load_theory(r.get("base", GEN_BASE))
    raw = r["raw"]
    probe = None
    for b in r.get("before", []):
        rb = ItemRun(b, widths=[]).run()
        if rb.status == "accepted" and b['ty'] == 'def' and b['name'] == raw['name'] and probe is None:
            probe = install_probe(rb.item)
    res = ItemRun(raw).run()
    if r.get("defect") == "inconsistent-history":
        c = run_probe(probe, res.item) if probe is not None and res.status == "accepted" else None
        print(c)
        return c is not None
    if res.status == "accepted" and r.get("defect") in [c for c, _ in definitional_hazards(res.item) + res.hazards]:
        print(definitional_hazards(res.item) + res.hazards)
        return True
    print(res.status, res.err, res.defects)
    cls = r.get("defect")
    if cls == "not-a-definition":
        if res.status != "accepted":
            return False
        parsed = parse_def_prop(raw)
        return parsed is not None and bool(not_a_definition(raw['name'], parsed[0], parsed[1]))
    if cls in ("non-conservative", "redeclared-instance"):
        if res.status != "accepted":
            return False
        if cls == "non-conservative" and "oracle_line" in r:
            out = ctx.lean_driver(EXE, [r["oracle_line"]])
            print(out)
            return bool(out) and out[0].startswith("(cex")
        return True
    return bool(res.defects)


MANIFEST = {
    "text": "PROVED (Lean, about the hand-written model `defOK` of the side conditions Definition.parse checks; only items of kind `def`, i.e. "
            "equations c x1..xn = rhs, n >= 0): in every finite standard model and for every interpretation of the old constants the new constant has a "
            "value (the curried function given by rhs) under which the equation holds for all values of all variables (def_conservative); one valuation, "
            "changed only at the type instances of the constant, satisfies all type instances of the equation (def_conservative_family, "
            "def_conservative_poly); sequents that do not mention the constant stay satisfied together with the equation (def_keeps_consistency, "
            "def_keeps_consistency_poly); for a constant definition c = t a sequent over the old signature that is Valid with the equation as a "
            "hypothesis is Valid without it (const_def_eliminable); the generated theorem passes check_thm_type, and checkThmTypeSig when the logical "
            "constants are used at their types (def_ext_welltyped); COMPOSITION WITH C01 (Props2.lean): the interpretation `defValue` is natural under "
            "type instantiation (Model.pull), so ONE valuation, changed at the new constant only, makes the stored schematic (convert_svar) equation of "
            "an accepted def true in every pulled model (defOK_gives_DefsHold), by induction for any sequence of items each accepted in the theory "
            "extended by the previous ones (defs_list_gives_DefsHold; new, non-overloaded names), hence the class StdDefs of C01 is inhabited in every "
            "finite standard model (accepted_defs_inhabited) and every script the checker accepts over logic_base + accepted def items is sound and "
            "never proves false (check_proof_sound_over_accepted_defs); a counterexample theorem shows why recursive functions are out of reach of "
            "finite models (primrec_not_conservative_in_finite_models: f 0 = True, f (Suc n) = False has no interpretation when nat has one element; "
            "free constructors need an infinite carrier); six counterexample theorems (self reference, at a type with permuted type "
            "variables, extra type variable, free variable, non-variable argument: no interpretation; repeated argument: not unique). NOT proved: "
            "anything about def.ind / def.pred / type.ind (recursive functions, inductive predicates, datatypes) or the .ax kinds, infinite models, "
            "Theory.check_term, uniqueness of the interpretation. COMPARED on every run (real code, generated and library inputs): Definition.parse's "
            "accept/reject against defOK on the parser's output; every accepted generated `def` against the side conditions directly (own unifier) and "
            "against a finite counter-model search over groups of type instances (Lean `sem`); re-declaration of a constant instance; for items of "
            "EVERY kind (all items of the 43 library files, generated valid and malformed ones, sequences with name clashes, long rules): "
            "get_extension checked with Theory.check_type/check_term and Thm.check_thm_type over the extended theory; parse_item(export_json()) and "
            "parse_edit(get_display()) judged by Item.__eq__ AND equality of export_json() and get_display() of the two items, the editor form also "
            "under line_length 120/80/60/40 and unicode on/off; rejected items keep their text and error through both round trips; syntactic hazards of "
            "accepted def.ind / def.pred / type.ind items (overlapping equations, recursive call on the same arguments, negative occurrence, "
            "non-positive constructor argument, type declared twice) are reported (known findings); the decidable predicate primRecOK (one equation per "
            "constructor of one datatype, distinct-variable patterns, recursive calls on constructor arguments only) is evaluated on every def.ind item "
            "of the library (thorough: 23 of 25 satisfy it; list:nth and verit:let match on two arguments) and of the generated stream, and must fail "
            "for every item with a def.ind hazard; re-loading a chain of user theories after an edit of an indirectly imported one must give theorems "
            "well-typed over the signature and the same theory as a fresh load; HISTORIES: an accepted def / def.ind / def.pred / type.ind item "
            "whose constant already exists (same file or imported theory, same type) is a violation (the constant must be new); for histories of "
            "def items the real loader accepting every item is compared with the model's `accepted` (the freshness condition of "
            "defs_list_gives_DefsHold), and when two definitions of one constant were both installed the real checker is asked for `theorem; theorem; "
            "symmetric; transitive` - a proved t1 = t2 (e.g. |- true <--> false) is reported with the history as replay. RE-TYPED ARGUMENTS: "
            "generated (and two corpus) definitions whose rhs mentions the NAME of an argument under an explicit annotation of another type, "
            "e.g. c x = (x::nat) for c :: 'a => nat; an accepted one is reported by the typed-variable oracle "
            "(not-a-definition:free-variable-on-rhs) and by the finite-model search (non-conservative).",
    "note": "Trusted: Lean kernel, axioms propext/Classical.choice/Quot.sound; the parser/printer (C07/C08) whose output is the object of the side "
            "conditions; the hand model's fidelity is as good as the generated items exercise it. A rejected library item is not a violation (the "
            "property does not say library items are accepted): it is counted and reported as a stream that no longer checks. For overloaded constants "
            "newness is the instance check of add_term_sig; generic axioms about an overloaded constant constrain later instances by design. "
            "`is_apart` is a sufficient test for 'no common instance' (constructor clash), so some harmless definitions are rejected. The composition "
            "theorem excludes overloaded names (each new constant must not occur in earlier items) and assumes the parser's output uses the logical "
            "constants at their types (sigOK). primRecOK has NO theorem behind it (no finite model has free constructors for nat / lists): it is "
            "evidence about the library, not a proof.",
    "design_ref": "DESIGN.md 4/C11, 8.15",
}
FINDINGS = [
    {"status": "fixed", "key": "non-conservative:def-side-conditions", "commit": "6484ad7",
     "what": "Definition.parse accepted `cbad <--> ~cbad`, `c2 <--> (!x::'a. !y::'a. x = y)`, `d x = ?y + x`, `c (f x) <--> x`: the constant in its own "
             "definition, a type variable of the rhs missing from the constant's type, schematic variables, non-variable arguments"},
    {"status": "fixed", "key": "redeclared-instance:zero", "commit": "9e93be4",
     "what": "a second `def zero :: int` ((0::int) = of_nat 1) was accepted after theory int: add_term_sig did not record the declared instances of an "
             "overloaded constant"},
    {"status": "fixed", "key": "generated:type.ind:ill-typed-extension", "commit": "858e35d",
     "what": "Datatype.parse accepted constructors whose type does not end in the datatype, or with fewer/more/repeated argument names than arguments: "
             "get_extension produced ill-typed theorems, raised, or the editor form failed with IndexError; "
             "an argument named P clashed with the induction predicate (TermException in get_extension)"},
    {"status": "fixed", "key": "generated:def:edit-roundtrip-rejected", "commit": "f7d4d28",
     "what": "the editor form of a rejected def / def.ind / def.pred / def.ax item gave the type as a list (display_raw), so parse_edit of it failed "
             "with TypeError in parse_type instead of reporting the item's error"},
    {"status": "known", "key": "generated:def.ind:overlapping-rules",
     "what": "def.ind (a definition by kind, not .ax) accepts equations whose left-hand sides overlap with different right-hand sides, e.g. "
             "fun f :: nat => nat => bool, f x 0 = true, f 0 y = false (f 0 0 is both); no overlap / termination check exists"},
    {"status": "known", "key": "generated:def.ind:recursive-call-on-same-arguments",
     "what": "def.ind accepts f n = Suc (f n) (also ~(f n), f n + 1): no termination check exists"},
    {"status": "known", "key": "generated:def.pred:negative-occurrence",
     "what": "def.pred accepts a rule with the predicate negative in a premise, e.g. ((p n) --> false) --> p n; the generated p_cases rule then "
             "proves any P from p n: no positivity check exists"},
    {"status": "known", "key": "generated:type.ind:non-positive-occurrence",
     "what": "type.ind accepts a constructor K :: (dt => bool) => dt (also ((dt => nat) => nat) => dt, (dt => bool) list => dt); the generated "
             "injectivity theorem has no standard model (Cantor): no positivity check exists"},
    {"status": "known", "key": "generated:type.ind:redeclared-type",
     "what": "type.ind with the name of an existing type (a second datatype dt, or nat / list again, also with another arity) is accepted: "
             "add_type_sig overwrites silently and the new induction theorem joins or replaces the old one (a non-mutating Datatype.parse would be "
             "needed for a check, because monitor.check_theory re-parses in a theory that already contains the type)"},
    {"status": "known", "key": "generated:type.ind:display-rejected:AttributeError",
     "what": "Datatype.get_display of a REJECTED datatype raises AttributeError ('str' object has no attribute 'strip_type': the constructors are "
             "kept as given), so export_web has no display / editor form for it"},
]
