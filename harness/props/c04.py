"""C04 — every macro's expansion checks and proves what its evaluation claims.

Stages: (1) Gen.lean: the macro registry read from the sources with `ast` (name, module, level,
which of eval/expand/get_proof_term the class overrides) + Lean obligations (Holpy.C04.Props) +
driver; (2) property oracle on the implementation: for every registered macro and every input
(harvested from the stored library proofs, mutated, generated) compare `macro.eval` with the
checked `macro.expand`; (3) correspondence of the Lean model of `ProofTerm.export` + flat checker
with the real `export` / `check_proof` on harvested proof terms.
"""
import ast
import os
import warnings

EXE = "c04_model"

# ------------------------------------------------------------------ Gen.lean (macro registry)
SCOPE_PREFIXES = ("logic.", "data.", "imperative.", "smt.veriT.")
SKIP_DIRS = {"tests", "node_modules", ".git", "__pycache__", "app", "users", "library", "tutorial"}


def _const(node):
    try:
        return ast.literal_eval(node)
    except Exception:  # noqa
        return None


def scan_macros(repo):
    """All macro registrations in the sources: `@register_macro(name)` decorated classes and the
    `theory.global_macros.update({name: Class(...)})` table.  Returns a sorted list of dicts; raises
    ValueError("untranslatable: ...") on a registration it cannot read."""
    out = []
    for root, dirs, files in os.walk(repo):
        dirs[:] = sorted(d for d in dirs if d not in SKIP_DIRS)
        for fn in sorted(files):
            if not fn.endswith(".py"):
                continue
            path = os.path.join(root, fn)
            with open(path, encoding="utf-8") as f:
                src = f.read()
            if "register_macro" not in src and "global_macros" not in src:
                continue
            try:
                with warnings.catch_warnings():
                    warnings.simplefilter("ignore")
                    tree = ast.parse(src)
            except SyntaxError:
                continue
            module = os.path.relpath(path, repo)[:-3].replace(os.sep, ".")
            if module == "kernel.theory":
                continue
            classes = {n.name: n for n in ast.walk(tree) if isinstance(n, ast.ClassDef)}

            def info(cname, _seen=()):
                """(level, defined method names) following base classes inside the module."""
                c = classes.get(cname)
                if c is None or cname in _seen:
                    return None, set()
                level, found = None, False
                methods = set()
                for b in c.body:
                    if isinstance(b, ast.FunctionDef):
                        methods.add(b.name)
                        if b.name == "__init__":
                            for st in ast.walk(b):
                                if isinstance(st, ast.Assign):
                                    for t in st.targets:
                                        if isinstance(t, ast.Attribute) and t.attr == "level" and \
                                                isinstance(t.value, ast.Name) and t.value.id == "self":
                                            v = st.value
                                            if isinstance(v, ast.Constant) and (v.value is None or isinstance(v.value, int)):
                                                level, found = v.value, True
                                            else:
                                                raise ValueError("untranslatable: level of %s.%s is not a literal" % (module, cname))
                for base in c.bases:
                    bname = base.id if isinstance(base, ast.Name) else (base.attr if isinstance(base, ast.Attribute) else None)
                    if bname and bname != "Macro" and bname in classes:
                        bl, bm = info(bname, _seen + (cname,))
                        methods |= bm
                        if not found:
                            level = bl
                return level, methods

            def add(name, cname):
                if cname not in classes:
                    raise ValueError("untranslatable: macro %s registered with unknown class %s in %s" % (name, cname, module))
                level, methods = info(cname)
                out.append({"name": name, "module": module, "cls": cname, "level": level,
                            "eval": "eval" in methods, "expand": "expand" in methods,
                            "gpt": "get_proof_term" in methods,
                            "scope": (module + ".").startswith(SCOPE_PREFIXES)})

            for n in ast.walk(tree):
                if isinstance(n, ast.ClassDef):
                    for d in n.decorator_list:
                        if isinstance(d, ast.Call):
                            f = d.func
                            fname = f.id if isinstance(f, ast.Name) else (f.attr if isinstance(f, ast.Attribute) else None)
                            if fname == "register_macro":
                                name = _const(d.args[0]) if d.args else None
                                if not isinstance(name, str):
                                    raise ValueError("untranslatable: register_macro argument in %s" % module)
                                add(name, n.name)
                elif isinstance(n, ast.Call) and isinstance(n.func, ast.Attribute) and n.func.attr == "update" and \
                        isinstance(n.func.value, ast.Attribute) and n.func.value.attr == "global_macros":
                    if len(n.args) != 1 or not isinstance(n.args[0], ast.Dict):
                        raise ValueError("untranslatable: global_macros.update in %s" % module)
                    for k, v in zip(n.args[0].keys, n.args[0].values):
                        name = _const(k)
                        if not isinstance(name, str) or not isinstance(v, ast.Call) or not isinstance(v.func, ast.Name):
                            raise ValueError("untranslatable: global_macros.update entry in %s" % module)
                        add(name, v.func.id)
                elif isinstance(n, ast.Subscript) and isinstance(n.value, ast.Attribute) and n.value.attr == "global_macros" \
                        and isinstance(n.ctx, ast.Store):
                    raise ValueError("untranslatable: global_macros[...] assignment in %s" % module)
    out.sort(key=lambda d: (d["module"], d["name"]))
    names = [d["name"] for d in out]
    if len(set(names)) != len(names):
        raise ValueError("untranslatable: macro registered twice: %s" % sorted(n for n in names if names.count(n) > 1))
    return out


def gen_lean(table):
    def b(x):
        return "true" if x else "false"
    lines = ["/- GENERATED by harness/props/c04.py from the holpy sources (ast; nothing is imported); do not edit. -/",
             "namespace Holpy.C04.Gen", "",
             "structure MacroInfo where",
             "  name : String", "  module : String", "  cls : String", "  level : Option Nat",
             "  ovEval : Bool", "  ovExpand : Bool", "  ovGpt : Bool", "  inScope : Bool",
             "  deriving Repr, DecidableEq", "",
             "def macros : List MacroInfo := ["]
    rows = []
    for d in table:
        lv = "none" if d["level"] is None else "some %d" % d["level"]
        rows.append('  ⟨"%s", "%s", "%s", %s, %s, %s, %s, %s⟩' % (
            d["name"], d["module"], d["cls"], lv, b(d["eval"]), b(d["expand"]), b(d["gpt"]), b(d["scope"])))
    lines.append(",\n".join(rows))
    lines += ["]", "", "end Holpy.C04.Gen"]
    return "\n".join(lines) + "\n"


def run(ctx):
    try:
        table = scan_macros(ctx.repo)
        if ctx.write_if_changed("Holpy/C04/Gen.lean", gen_lean(table)):
            ctx.log("Gen.lean regenerated (changed)")
    except ValueError as e:
        table = None
        ctx.broken("translate:c04:macro-registry", str(e))
    ctx.lean_props(["Holpy.C04.Props"], exes=[EXE])


def replay(ctx, rp):
    return False


MANIFEST = {"text": "", "note": "", "design_ref": "DESIGN.md 4/C04"}
FINDINGS = []
