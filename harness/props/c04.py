"""C04 — every macro's expansion checks and proves what its evaluation claims.

Stages: (1) Gen.lean: the macro registry read from the sources with `ast` (name, module, level,
which of eval/expand/get_proof_term the class overrides) + Lean obligations (Holpy.C04.Props) +
driver; (2) property oracle on the implementation: for every registered macro and every input
(harvested from the stored library proofs, mutated, generated) compare `macro.eval` with the
checked `macro.expand`; (3) correspondence of the Lean model of `ProofTerm.export` + flat checker
with the real `export` / `check_proof` on harvested proof terms.
"""
import ast
import os
import warnings

EXE = "c04_model"

# ------------------------------------------------------------------ Gen.lean (macro registry)
SCOPE_PREFIXES = ("logic.", "data.", "imperative.", "smt.veriT.")
SKIP_DIRS = {"tests", "node_modules", ".git", "__pycache__", "app", "users", "library", "tutorial"}


def _const(node):
    try:
        return ast.literal_eval(node)
    except Exception:  # noqa
        return None


def scan_macros(repo):
    """All macro registrations in the sources: `@register_macro(name)` decorated classes and the
    `theory.global_macros.update({name: Class(...)})` table.  Returns a sorted list of dicts; raises
    ValueError("untranslatable: ...") on a registration it cannot read."""
    out = []
    for root, dirs, files in os.walk(repo):
        dirs[:] = sorted(d for d in dirs if d not in SKIP_DIRS)
        for fn in sorted(files):
            if not fn.endswith(".py"):
                continue
            path = os.path.join(root, fn)
            with open(path, encoding="utf-8") as f:
                src = f.read()
            if "register_macro" not in src and "global_macros" not in src:
                continue
            try:
                with warnings.catch_warnings():
                    warnings.simplefilter("ignore")
                    tree = ast.parse(src)
            except SyntaxError:
                continue
            module = os.path.relpath(path, repo)[:-3].replace(os.sep, ".")
            if module == "kernel.theory":
                continue
            classes = {n.name: n for n in ast.walk(tree) if isinstance(n, ast.ClassDef)}

            def info(cname, _seen=()):
                """(level, defined method names) following base classes inside the module."""
                c = classes.get(cname)
                if c is None or cname in _seen:
                    return None, set()
                level, found = None, False
                methods = set()
                for b in c.body:
                    if isinstance(b, ast.FunctionDef):
                        methods.add(b.name)
                        if b.name == "__init__":
                            for st in ast.walk(b):
                                if isinstance(st, ast.Assign):
                                    for t in st.targets:
                                        if isinstance(t, ast.Attribute) and t.attr == "level" and \
                                                isinstance(t.value, ast.Name) and t.value.id == "self":
                                            v = st.value
                                            if isinstance(v, ast.Constant) and (v.value is None or isinstance(v.value, int)):
                                                level, found = v.value, True
                                            else:
                                                raise ValueError("untranslatable: level of %s.%s is not a literal" % (module, cname))
                for base in c.bases:
                    bname = base.id if isinstance(base, ast.Name) else (base.attr if isinstance(base, ast.Attribute) else None)
                    if bname and bname != "Macro" and bname in classes:
                        bl, bm = info(bname, _seen + (cname,))
                        methods |= bm
                        if not found:
                            level = bl
                return level, methods

            def add(name, cname):
                if cname not in classes:
                    raise ValueError("untranslatable: macro %s registered with unknown class %s in %s" % (name, cname, module))
                level, methods = info(cname)
                out.append({"name": name, "module": module, "cls": cname, "level": level,
                            "eval": "eval" in methods, "expand": "expand" in methods,
                            "gpt": "get_proof_term" in methods,
                            "scope": (module + ".").startswith(SCOPE_PREFIXES)})

            for n in ast.walk(tree):
                if isinstance(n, ast.ClassDef):
                    for d in n.decorator_list:
                        if isinstance(d, ast.Call):
                            f = d.func
                            fname = f.id if isinstance(f, ast.Name) else (f.attr if isinstance(f, ast.Attribute) else None)
                            if fname == "register_macro":
                                name = _const(d.args[0]) if d.args else None
                                if not isinstance(name, str):
                                    raise ValueError("untranslatable: register_macro argument in %s" % module)
                                add(name, n.name)
                elif isinstance(n, ast.Call) and isinstance(n.func, ast.Attribute) and n.func.attr == "update" and \
                        isinstance(n.func.value, ast.Attribute) and n.func.value.attr == "global_macros":
                    if len(n.args) != 1 or not isinstance(n.args[0], ast.Dict):
                        raise ValueError("untranslatable: global_macros.update in %s" % module)
                    for k, v in zip(n.args[0].keys, n.args[0].values):
                        name = _const(k)
                        if not isinstance(name, str) or not isinstance(v, ast.Call) or not isinstance(v.func, ast.Name):
                            raise ValueError("untranslatable: global_macros.update entry in %s" % module)
                        add(name, v.func.id)
                elif isinstance(n, ast.Subscript) and isinstance(n.value, ast.Attribute) and n.value.attr == "global_macros" \
                        and isinstance(n.ctx, ast.Store):
                    raise ValueError("untranslatable: global_macros[...] assignment in %s" % module)
    out.sort(key=lambda d: (d["module"], d["name"]))
    names = [d["name"] for d in out]
    if len(set(names)) != len(names):
        raise ValueError("untranslatable: macro registered twice: %s" % sorted(n for n in names if names.count(n) > 1))
    return out


def gen_lean(table):
    def b(x):
        return "true" if x else "false"
    lines = ["/- GENERATED by harness/props/c04.py from the holpy sources (ast; nothing is imported); do not edit. -/",
             "namespace Holpy.C04.Gen", "",
             "structure MacroInfo where",
             "  name : String", "  module : String", "  cls : String", "  level : Option Nat",
             "  ovEval : Bool", "  ovExpand : Bool", "  ovGpt : Bool", "  inScope : Bool",
             "  deriving Repr, DecidableEq", "",
             "def macros : List MacroInfo := ["]
    rows = []
    for d in table:
        lv = "none" if d["level"] is None else "some %d" % d["level"]
        rows.append('  ⟨"%s", "%s", "%s", %s, %s, %s, %s, %s⟩' % (
            d["name"], d["module"], d["cls"], lv, b(d["eval"]), b(d["expand"]), b(d["gpt"]), b(d["scope"])))
    lines.append(",\n".join(rows))
    lines += ["]", "", "end Holpy.C04.Gen"]
    return "\n".join(lines) + "\n"


# ------------------------------------------------------------------ implementation side
IMPL_MODULES = ["logic.logic", "logic.auto", "data.nat", "data.integer", "data.real", "data.proplogic",
                "data.function", "data.set", "data.expr", "data.list", "imperative.imp", "integral.inequality",
                "prover.simplex", "prover.simplex_strict", "prover.sympywrapper", "prover.z3wrapper",
                "sat.zchaff", "smt.veriT.verit_macro", "smt.veriT.la_generic"]

QUICK_THEORIES = ["logic_base", "logic", "set", "nat", "function", "list", "int", "rat", "real", "expr", "hoare"]


class Impl:
    """Handle on the imported implementation + recorder of macro invocations."""

    def __init__(self, ctx):
        import importlib
        import sys
        import types
        self.ctx = ctx
        if "smt" not in sys.modules or not getattr(sys.modules["smt"], "__path__", None) or \
                ctx.repo + "/smt" not in list(sys.modules["smt"].__path__):
            m = types.ModuleType("smt")
            m.__path__ = [ctx.repo + "/smt"]
            sys.modules["smt"] = m
        self.import_errors = {}
        with warnings.catch_warnings():
            warnings.simplefilter("ignore")
            for mod in IMPL_MODULES:
                try:
                    importlib.import_module(mod)
                except Exception as e:  # noqa
                    self.import_errors[mod] = "%s: %s" % (type(e).__name__, e)
        from kernel import theory, term, thm, proof, report, proofterm, macro
        from kernel import type as htype
        from logic import basic, context
        from server import server, items
        self.theory, self.term, self.thm, self.proof, self.report = theory, term, thm, proof, report
        self.proofterm, self.macro, self.htype = proofterm, macro, htype
        self.basic, self.context, self.server, self.items = basic, context, server, items
        try:
            # the z3 macro has no expansion (nothing for C04 to compare) and its solver calls dominate the replay of
            # the library proofs and cannot be interrupted: the macro's own switch makes eval return the goal unsolved
            from prover import z3wrapper
            z3wrapper.check_z3 = False
        except Exception:  # noqa
            pass
        from logic import auto as _auto
        self.auto = _auto
        self.rec = []
        self.recording = False
        self.cur = (None, None)          # (theory file, limit) describing theory.thy for replays
        for name, mc in theory.global_macros.items():
            self._wrap(name, mc)

    def _wrap(self, name, mc):
        oe, ox, og = mc.eval, mc.expand, mc.get_proof_term
        impl = self

        def note(args, ths):
            if impl.recording:
                try:
                    impl.rec.append((name, args, list(ths)))
                except Exception:  # noqa
                    pass

        def ev(*a, **kw):
            if impl.recording and len(a) == 2 and not kw and isinstance(a[1], (list, tuple)):
                note(a[0], a[1])
            return oe(*a, **kw)

        def ex(*a, **kw):
            if impl.recording and len(a) == 3 and not kw and isinstance(a[2], (list, tuple)):
                try:
                    note(a[1], [th for _, th in a[2]])
                except Exception:  # noqa
                    pass
            return ox(*a, **kw)

        def gp(*a, **kw):
            if impl.recording and len(a) == 2 and not kw and isinstance(a[1], (list, tuple)):
                try:
                    note(a[0], [pt.th for pt in a[1]])
                except Exception:  # noqa
                    pass
            return og(*a, **kw)
        mc.eval, mc.expand, mc.get_proof_term = ev, ex, gp
        mc._c04_orig = (oe, ox, og)

    def runtime_table(self):
        Macro = self.macro.Macro
        out = {}
        for name, mc in self.theory.global_macros.items():
            c = type(mc)
            out[name] = {"module": c.__module__, "cls": c.__name__, "level": mc.level,
                         "eval": c.eval is not Macro.eval, "expand": c.expand is not Macro.expand,
                         "gpt": c.get_proof_term is not Macro.get_proof_term}
        return out


def keyof(x):
    """Hashable structural key of a macro argument / theorem (process-local)."""
    from kernel.term import Term, Inst
    from kernel.thm import Thm
    from kernel.type import Type, TyInst
    if isinstance(x, (Term, Type)) or x is None or isinstance(x, (str, int, bool)):
        return x
    if isinstance(x, Thm):
        return ("thm", x.prop, tuple(x.hyps))
    if isinstance(x, Inst):
        return ("inst", tuple(sorted(((k, keyof(v)) for k, v in x.items()), key=lambda kv: kv[0])),
                tuple(sorted(((k, v) for k, v in x.tyinst.items()), key=lambda kv: kv[0])))
    if isinstance(x, TyInst):
        return ("tyinst", tuple(sorted(x.items(), key=lambda kv: kv[0])))
    if isinstance(x, (list, tuple)):
        return (type(x).__name__,) + tuple(keyof(y) for y in x)
    if isinstance(x, dict):
        return ("dict",) + tuple(sorted(((repr(k), keyof(v)) for k, v in x.items())))
    return ("repr", repr(x))


def input_key(name, args, ths):
    try:
        k = (name, keyof(args), tuple(keyof(t) for t in ths))
        hash(k)
        return k
    except TypeError:
        return (name, repr(args), tuple(repr(t) for t in ths))


CRASHES = ("TypeError", "AttributeError", "IndexError", "KeyError", "RecursionError", "ValueError",
           "UnboundLocalError", "NameError", "ZeroDivisionError", "StopIteration")


def first_line(e):
    s = str(e).strip().splitlines()
    return s[0][:60] if s else ""


def judge(impl, name, args, prev_ths, limit=30, off=0):
    """The property oracle on one input.  Returns a dict:
      eval:   'ok' | 'fail:<Exc>'                (th_eval)
      expand: 'ok' | 'none:<Exc>'                (no expansion produced: nothing is claimed)
      check:  'ok' | 'rejected:<Exc>:<msg>' | None
      verdict: 'agree' | 'no-expansion' | <defect class>
    `off` unrelated lines precede the premises, so that the premises of different calls sit at different
    ids: an expansion that cites lines of an EARLIER call (a proof term kept in a module-level cache)
    is then seen to cite lines that were not given to this call.
    """
    from harness.common.ctx import time_limit, Timeout
    theory, Proof, ProofItem, ItemID = impl.theory, impl.proof.Proof, impl.proof.ProofItem, impl.proof.ItemID
    macro = theory.global_macros[name]
    oe, ox, og = macro._c04_orig
    was = impl.recording
    impl.recording = False
    r = {"eval": None, "expand": None, "check": None, "verdict": None, "th_eval": None, "th_exp": None, "detail": "", "nested": []}
    saved_rec = list(impl.rec)
    try:
        with time_limit(limit):
            try:
                th_eval = oe(args, list(prev_ths))
                if not isinstance(th_eval, impl.thm.Thm):
                    raise TypeError("eval returned %s" % type(th_eval).__name__)
                r["eval"] = "ok"
                r["th_eval"] = th_eval
            except Timeout:
                raise
            except Exception as e:  # noqa
                th_eval = None
                r["eval"] = "fail:" + type(e).__name__
            n = len(prev_ths)
            ids = [ItemID(off + i) for i in range(n)]
            pfx = ItemID(off + n)
            try:
                sub = ox(pfx, args, list(zip(ids, prev_ths)))
                if not isinstance(sub, Proof) or not sub.items:
                    raise TypeError("expand returned %s" % type(sub).__name__)
                r["expand"] = "ok"
            except Timeout:
                raise
            except Exception as e:  # noqa
                r["expand"] = "none:" + type(e).__name__
                r["verdict"] = "no-expansion"
                if th_eval is not None and macro.level != 0 and isinstance(e, AssertionError) and "export: atom" in str(e):
                    # get_proof_term did produce its proof term -- one of the premises, unchanged -- but it cannot be
                    # turned into proof lines: the checker cannot expand this step although eval reports a result
                    r["verdict"] = "expansion-is-bare-premise"
                    r["detail"] = "get_proof_term returns a cited premise unchanged; ProofTerm.export refuses it (export: atom)"
                return r
            # every citation must be one of the premises given to THIS call or an earlier line of the expansion
            given = set(i.id for i in ids)
            for k, si in enumerate(sub.items):
                for p in si.prevs:
                    inner = len(p.id) == len(pfx.id) + 1 and p.id[:len(pfx.id)] == pfx.id and p.id[-1] < k
                    if not inner and p.id not in given:
                        r["verdict"] = "expansion-cites-foreign-line"
                        r["detail"] = "line %s (%s) cites %s; premises given: %s" % (si.id, si.rule, p, [str(i) for i in ids])
                        return r
            from kernel.term import Var as _Var
            from kernel.type import BoolType as _Bool
            prf = Proof()
            for i in range(off):
                prf.add_item(i, "sorry", th=impl.thm.Thm(_Var("c04_unrelated_%d" % i, _Bool)))
            for i, th in enumerate(prev_ths):
                prf.add_item(off + i, "sorry", th=th)
            it = ProofItem(off + n, "subproof")
            it.subproof = sub
            prf.items.append(it)
            r["nlines"] = len(sub.items)
            rpt = impl.report.ProofReport()
            try:
                del impl.rec[:]
                impl.recording = True       # nested macro steps of the expansion become inputs of their own
                try:
                    th_exp = theory.check_proof(prf, rpt, check_level=0)
                finally:
                    impl.recording = False
                    per, nested = {}, []
                    for e in impl.rec:             # a few per macro name, so that rare nested macros are kept
                        if per.get(e[0], 0) < 4 and len(nested) < 60:
                            per[e[0]] = per.get(e[0], 0) + 1
                            nested.append(e)
                    r["nested"] = nested
                    del impl.rec[:]
                r["check"] = "ok"
                r["th_exp"] = th_exp
                r["macros_eval"] = sorted(rpt.macros_eval)
            except Timeout:
                raise
            except Exception as e:  # noqa
                r["check"] = "rejected:%s:%s" % (type(e).__name__, first_line(e))
                r["verdict"] = "expansion-rejected:" + reject_class(e)
                r["detail"] = str(e)[:400]
                return r
    except Timeout:
        r["verdict"] = "timeout"
        return r
    finally:
        impl.recording = was
        impl.rec[:] = saved_rec
    if len(rpt.gaps) != n + off:
        r["verdict"] = "expansion-has-gaps"
        r["detail"] = "gaps reported: %d, premises: %d" % (len(rpt.gaps) - off, n)
        return r
    if th_eval is None:
        # The evaluation reports nothing for this input, so there is no claim the expansion could
        # fail to establish.  For a macro with its own `eval` this only means that eval is the
        # stricter of the two (counted, not a violation).  For a macro using the default eval
        # (= get_proof_term(...).th) it means get_proof_term behaves differently on `sorry` leaves
        # and on `atom` leaves, which breaks the hypothesis of theorem default_eval_expand.
        own_eval = type(macro).eval is not impl.macro.Macro.eval
        if own_eval:
            r["verdict"] = "no-evaluation"
        else:
            r["verdict"] = "default-eval-fails-expansion-checks:" + r["eval"][5:]
        return r
    if th_exp.prop != th_eval.prop:
        r["verdict"] = "conclusion-differs:" + diff_class(impl, th_eval.prop, th_exp.prop)
        return r
    extra = [h for h in th_exp.hyps if h not in set(th_eval.hyps)]
    if extra:
        prem = set(h for th in prev_ths for h in th.hyps)
        if all(h in prem for h in extra):
            r["verdict"] = "hypotheses-added:premise-hypotheses-missing-in-eval"
        else:
            r["verdict"] = "hypotheses-added:new"
        return r
    r["verdict"] = "agree"
    return r


def reject_class(e):
    m = first_line(e)
    for k in ("output does not match", "invalid derivation", "cannot depend on", "previous item not found",
              "theorem not found", "typing error", "proof method not found", "invalid input to derivation",
              "is None", "gaps are not allowed"):
        if k in m:
            return k.replace(" ", "-")
    return type(e).__name__


def erase_types(impl, t):
    """Shape of a term with all types removed (to classify a difference as 'types only')."""
    if t.is_comb():
        return ("c", erase_types(impl, t.fun), erase_types(impl, t.arg))
    if t.is_abs():
        return ("a", erase_types(impl, t.body))
    if t.is_bound():
        return ("b", t.n)
    return (t.ty, t.name)


def diff_class(impl, a, b):
    try:
        if erase_types(impl, a) == erase_types(impl, b):
            return "types-only"
        if a.beta_norm() == b.beta_norm():
            return "beta"
        if a.head != b.head:
            return "head"
    except Exception:  # noqa
        pass
    return "structure"


# ------------------------------------------------------------------ mutations of inputs
def closed_subterms(t, path=(), out=None, depth=0):
    """(path, subterm) for every subterm without loose bound variables (paths: f/a/b steps)."""
    if out is None:
        out = []
    if depth > 40:
        return out
    try:
        opn = t.is_open()
    except Exception:  # noqa
        opn = True
    if not opn:
        out.append((path, t))
    try:
        if t.is_comb() and t.is_number():
            return out                  # numerals are literals: never edit inside `of_nat (bit0 ...)`
    except Exception:  # noqa
        pass
    if t.is_comb():
        closed_subterms(t.fun, path + ("f",), out, depth + 1)
        closed_subterms(t.arg, path + ("a",), out, depth + 1)
    elif t.is_abs():
        closed_subterms(t.body, path + ("b",), out, depth + 1)
    return out


def replace_at(t, path, new):
    from kernel.term import Comb, Abs
    if not path:
        return new
    if path[0] == "f":
        return Comb(replace_at(t.fun, path[1:], new), t.arg)
    if path[0] == "a":
        return Comb(t.fun, replace_at(t.arg, path[1:], new))
    return Abs(t.var_name, t.var_T, replace_at(t.body, path[1:], new))


def map_types(t, f):
    """Rebuild t with every type T replaced by f(T)."""
    from kernel.term import Comb, Abs, Var, SVar, Const, Number
    try:
        if t.is_number() and (t.is_comb() or t.is_const()):
            T = t.get_type()
            T2 = f(T)
            if T2 == T:
                return t
            v = t.dest_number()
            if T2.name == "nat" and (v < 0 or v != int(v)):
                return t
            if T2.name == "int" and v != int(v):
                return t
            return Number(T2, v)            # numerals are rebuilt at the new type, not edited inside
    except Exception:  # noqa
        pass
    if t.is_comb():
        return Comb(map_types(t.fun, f), map_types(t.arg, f))
    if t.is_abs():
        return Abs(t.var_name, f(t.var_T), map_types(t.body, f))
    if t.is_var():
        return Var(t.name, f(t.T))
    if t.is_svar():
        return SVar(t.name, f(t.T))
    if t.is_const():
        return Const(t.name, f(t.T))
    return t


def swap_tconst(T, a, b):
    from kernel.type import TConst
    if T.is_tconst():
        name = b if T.name == a else T.name
        return TConst(name, *[swap_tconst(x, a, b) for x in T.args])
    return T


def well_typed(t, want_bool=False):
    from kernel.type import BoolType
    from kernel import theory
    try:
        T = t.checked_get_type()
        if want_bool and T != BoolType:
            return False
        theory.thy.check_term(t)            # constants at instances of their declared types only
        return True
    except Exception:  # noqa
        return False


class Mutator:
    def __init__(self, rng):
        self.rng = rng
        self.thm_names = []       # theorem names seen in harvested args
        self.prem_pool = []       # premises seen recently

    def pool_of(self, terms):
        from kernel.term import Var, true, false
        from kernel.type import BoolType, TConst
        pool = {}
        for t in terms:
            for _, s in closed_subterms(t):
                try:
                    T = s.get_type()
                except Exception:  # noqa
                    continue
                pool.setdefault(T, [])
                if len(pool[T]) < 40:
                    pool[T].append(s)
        pool.setdefault(BoolType, [])
        pool[BoolType] += [true, false, Var("c04P", BoolType)]
        for T in list(pool):
            if T.is_tconst() and T.name in ("nat", "int", "real") and not T.args:
                from data import nat, integer, real
                mk = {"nat": nat.Nat, "int": integer.Int, "real": real.Real}[T.name]
                pool[T] += [mk(0), mk(1), mk(2), mk(5), Var("c04n", T)]
        return pool

    def mut_term(self, t, pool, want_bool=False):
        """A well-typed variant of t, or None."""
        from kernel.term import Not
        rng = self.rng
        subs = closed_subterms(t)
        if not subs:
            return None
        for _ in range(6):
            k = rng.random()
            path, s = rng.choice(subs)
            try:
                T = s.get_type()
            except Exception:  # noqa
                continue
            new = None
            if k < 0.45:
                cands = [c for c in pool.get(T, []) if c != s]
                if cands:
                    new = rng.choice(cands)
            elif k < 0.6 and s.is_comb() and s.fun.is_comb():
                try:
                    if s.arg.get_type() == s.fun.arg.get_type():
                        new = s.fun.fun(s.arg, s.fun.arg)        # swap the two arguments
                except Exception:  # noqa
                    new = None
            elif k < 0.75:
                from kernel.type import BoolType
                if T == BoolType:
                    new = s.arg if s.is_not() and rng.random() < 0.7 else Not(s)
            elif k < 0.9:
                a, b = rng.choice([("nat", "int"), ("nat", "real"), ("int", "real"), ("real", "nat"), ("int", "nat"), ("real", "int")])
                r = map_types(t, lambda X: swap_tconst(X, a, b))
                if r != t and well_typed(r, want_bool):
                    return r
                continue
            else:
                if s.is_comb():                                       # drop an application: f x -> x when types agree
                    try:
                        if s.arg.get_type() == T:
                            new = s.arg
                    except Exception:  # noqa
                        new = None
            if new is None:
                continue
            r = replace_at(t, path, new)
            if r != t and well_typed(r, want_bool):
                return r
        return None

    def mut_args(self, args, pool):
        from kernel.term import Term, Inst
        rng = self.rng
        if isinstance(args, Term):
            return self.mut_term(args, pool)
        if isinstance(args, str):
            c = [n for n in self.thm_names if n != args]
            return rng.choice(c) if c else None
        if isinstance(args, Inst):
            if not args:
                return None
            new = Inst(dict(args.items()))
            new.tyinst = args.tyinst
            k = rng.choice(sorted(args.keys()))
            if rng.random() < 0.4:
                del new[k]
            else:
                v = self.mut_term(args[k], pool) if isinstance(args[k], Term) else None
                if v is None:
                    return None
                new[k] = v
            return new
        if isinstance(args, tuple) and args:
            i = rng.randrange(len(args))
            v = self.mut_args(args[i], pool)
            if v is None:
                return None
            return args[:i] + (v,) + args[i + 1:]
        if isinstance(args, list) and args:
            k = rng.random()
            i = rng.randrange(len(args))
            if k < 0.25:
                return args[:i] + args[i + 1:]
            if k < 0.4:
                return args[:i] + [args[i]] + args[i:]
            if k < 0.55 and len(args) > 1:
                j = rng.randrange(len(args))
                l = list(args)
                l[i], l[j] = l[j], l[i]
                return l if l != args else None
            v = self.mut_args(args[i], pool)
            if v is None:
                return None
            return args[:i] + [v] + args[i + 1:]
        if isinstance(args, bool) or args is None:
            return None
        if isinstance(args, int):
            return args + rng.choice([-1, 1])
        return None

    def mutate(self, name, args, ths):
        """One mutated (descr, args, ths) or None."""
        from kernel.term import Term, Var
        from kernel.thm import Thm
        from kernel.type import BoolType
        rng = self.rng
        terms = [t.prop for t in ths] + [h for t in ths for h in t.hyps]

        def collect(a):
            if isinstance(a, Term):
                terms.append(a)
            elif isinstance(a, (list, tuple)):
                for x in a:
                    collect(x)
            elif hasattr(a, "values") and not isinstance(a, str):
                for x in a.values():
                    collect(x)
        collect(args)
        pool = None
        kinds = ["args", "args", "args"]
        if ths:
            kinds += ["drop", "dup", "perm", "prop", "prop", "addhyp", "delhyps", "swapin"]
        else:
            kinds += ["addprem"]
        kind = rng.choice(kinds)
        ths = list(ths)
        if kind == "args":
            pool = self.pool_of(terms)
            a = self.mut_args(args, pool)
            return None if a is None else ("args", a, ths)
        if kind == "drop":
            i = rng.randrange(len(ths))
            return ("drop%d" % i, args, ths[:i] + ths[i + 1:])
        if kind == "dup":
            i = rng.randrange(len(ths))
            j = rng.randrange(len(ths) + 1)
            return ("dup%d@%d" % (i, j), args, ths[:j] + [ths[i]] + ths[j:])
        if kind == "perm":
            if len(ths) < 2:
                return None
            i, j = rng.sample(range(len(ths)), 2)
            ths[i], ths[j] = ths[j], ths[i]
            return ("perm%d,%d" % (i, j), args, ths)
        if kind == "prop":
            i = rng.randrange(len(ths))
            pool = self.pool_of(terms)
            p2 = self.mut_term(ths[i].prop, pool, want_bool=True)
            if p2 is None:
                return None
            ths[i] = Thm(p2, tuple(ths[i].hyps))
            return ("prop%d" % i, args, ths)
        if kind == "addhyp":
            i = rng.randrange(len(ths))
            h = Var("c04H", BoolType)
            ths[i] = Thm(ths[i].prop, tuple(ths[i].hyps) + (h,))
            return ("addhyp%d" % i, args, ths)
        if kind == "delhyps":
            i = rng.randrange(len(ths))
            if not ths[i].hyps:
                return None
            ths[i] = Thm(ths[i].prop)
            return ("delhyps%d" % i, args, ths)
        if kind in ("swapin", "addprem"):
            if not self.prem_pool:
                return None
            th = rng.choice(self.prem_pool)
            if kind == "addprem" or rng.random() < 0.3:
                j = rng.randrange(len(ths) + 1)
                return ("addprem@%d" % j, args, ths[:j] + [th] + ths[j:])
            i = rng.randrange(len(ths))
            ths[i] = th
            return ("swapin%d" % i, args, ths)
        return None


# ------------------------------------------------------------------ wire (replays)
def enc_obj(x):
    from harness.common import kwire, sexp
    from kernel.term import Term, Inst
    from kernel.thm import Thm
    from kernel.type import Type, TyInst
    if isinstance(x, Term):
        return {"term": sexp.dumps(kwire.term_to(x))}
    if isinstance(x, Type):
        return {"type": sexp.dumps(kwire.ty_to(x))}
    if isinstance(x, Thm):
        return {"thm": {"hyps": [enc_obj(h) for h in x.hyps], "prop": enc_obj(x.prop)}}
    if isinstance(x, Inst):
        return {"inst": {"tyinst": {k: enc_obj(v) for k, v in x.tyinst.items()},
                         "inst": {k: enc_obj(v) for k, v in x.items()},
                         "var_inst": {k: enc_obj(v) for k, v in x.var_inst.items()}}}
    if isinstance(x, TyInst):
        return {"tyinst": {k: enc_obj(v) for k, v in x.items()}}
    if x is None or isinstance(x, (bool, int)):
        return {"lit": x}
    if isinstance(x, str):
        return {"str": x}
    if isinstance(x, tuple):
        return {"tuple": [enc_obj(y) for y in x]}
    if isinstance(x, list):
        return {"list": [enc_obj(y) for y in x]}
    if isinstance(x, dict):
        return {"dict": [[enc_obj(k), enc_obj(v)] for k, v in x.items()]}
    raise TypeError("unencodable %s" % type(x).__name__)


def dec_obj(d):
    from harness.common import kwire, sexp
    from kernel.term import Inst
    from kernel.thm import Thm
    from kernel.type import TyInst
    (k, v), = d.items()
    if k == "term":
        return kwire.term_of(sexp.loads(v))
    if k == "type":
        return kwire.ty_of(sexp.loads(v))
    if k == "thm":
        return Thm(dec_obj(v["prop"]), tuple(dec_obj(h) for h in v["hyps"]))
    if k == "inst":
        inst = Inst({a: dec_obj(b) for a, b in v["inst"].items()})
        inst.tyinst = TyInst({a: dec_obj(b) for a, b in v["tyinst"].items()})
        for a, b in v.get("var_inst", {}).items():
            inst.var_inst[a] = dec_obj(b)
        return inst
    if k == "tyinst":
        return TyInst({a: dec_obj(b) for a, b in v.items()})
    if k == "lit":
        return v
    if k == "str":
        return v
    if k == "tuple":
        return tuple(dec_obj(y) for y in v)
    if k == "list":
        return [dec_obj(y) for y in v]
    if k == "dict":
        return {dec_obj(a): dec_obj(b) for a, b in v}
    raise ValueError(k)


def obj_size(x):
    from kernel.term import Term
    from kernel.thm import Thm
    if isinstance(x, Term):
        try:
            return x.size()
        except Exception:  # noqa
            return 50
    if isinstance(x, Thm):
        return obj_size(x.prop) + sum(obj_size(h) for h in x.hyps) + 1
    if isinstance(x, (list, tuple)):
        return 1 + sum(obj_size(y) for y in x)
    if hasattr(x, "values") and not isinstance(x, str):
        return 1 + sum(obj_size(y) for y in x.values())
    return 1


# ------------------------------------------------------------------ correspondence: export model
class Coder:
    """Nat codes for terms / args / rule names of one proof term (alpha-equivalent terms share a code)."""

    def __init__(self):
        self.terms = {}
        self.args = {}

    def term(self, t):
        return self.terms.setdefault(t, len(self.terms))

    def arg(self, a):
        k = keyof(a)
        try:
            hash(k)
        except TypeError:
            k = repr(a)
        return self.args.setdefault(k, len(self.args))

    def seq(self, th):
        return [[self.term(h) for h in th.hyps], self.term(th.prop)]


class TooBig(Exception):
    pass


def pt_wire(pt, coder, table, budget):
    """ProofTerm tree -> PT s-expression (the DAG is unfolded, as `export` walks it)."""
    from harness.common import sexp
    budget[0] -= 1
    if budget[0] < 0:
        raise TooBig()
    if pt.rule == "atom":
        return ["atom", list(pt.args.id), coder.seq(pt.th)]
    kids = [pt_wire(p, coder, table, budget) for p in pt.prevs]
    rule = sexp.enc(pt.rule)
    a = coder.arg(pt.args)
    th = coder.seq(pt.th)
    table.append([rule, a, [coder.seq(p.th) for p in pt.prevs], th])
    return ["node", rule, a, kids, th]


class ExportTie:
    """Real `ProofTerm.export` + checker (all macros evaluated) against the Lean model."""

    def __init__(self, ctx, impl, limit):
        self.ctx, self.impl, self.limit = ctx, impl, limit
        self.lines, self.expect = [], []
        self.rng = ctx.rng("export-tie")
        self.skipped_big = 0

    def maybe_add(self, name, args, ths):
        from harness.common import sexp
        if len(self.expect) >= self.limit or self.rng.random() > 0.35:
            return
        impl = self.impl
        P = impl.proofterm.ProofTerm
        ItemID, Proof, ProofItem = impl.proof.ItemID, impl.proof.Proof, impl.proof.ProofItem
        macro = impl.theory.global_macros[name]
        n = len(ths)
        pfx = ItemID(n)
        try:
            pt = macro._c04_orig[2](args, tuple(P.atom(ItemID(i), th) for i, th in enumerate(ths)))
            if not isinstance(pt, P) or pt.rule == "atom":
                return
            coder, table = Coder(), []
            wire = pt_wire(pt, coder, table, [1500])
            real = pt.export(pfx)
        except TooBig:
            self.skipped_big += 1
            return
        except Exception:  # noqa
            return
        real_items = [[list(it.id.id), sexp.enc(it.rule), coder.arg(it.args), [list(p.id) for p in it.prevs], coder.seq(it.th)]
                      for it in real.items]
        # the real checker with every macro evaluated (the table semantics of the model)
        prf = Proof()
        for i, th in enumerate(ths):
            prf.add_item(i, "sorry", th=th)
        item = ProofItem(n, "subproof")
        item.subproof = real
        prf.items.append(item)
        try:
            th = impl.theory.check_proof(prf, check_level=1000)
            real_check = ["ok", coder.seq(th), len(real.items)]
        except Exception as e:  # noqa
            real_check = ["error", type(e).__name__]
        ctxl = [[[i], coder.seq(th)] for i, th in enumerate(ths)]
        # dedupe the table (first entry wins in the model, entries are functional anyway)
        seen, tbl = set(), []
        for e in table:
            k = sexp.dumps(e[:3])
            if k not in seen:
                seen.add(k)
                tbl.append(e)
        self.lines.append(sexp.dumps(["export", [n], wire]))
        self.lines.append(sexp.dumps(["roundtrip", [n], ctxl, tbl, wire]))
        self.expect.append((name, real_items, real_check, len(table)))

    # -- synthetic derivations from primitive rules: equal sub-derivations, equal conclusions under
    #    different hypotheses, premises cited several times (what macros' proof terms rarely show)
    def synth_one(self, rng):
        from kernel.term import Var, Implies
        from kernel.type import BoolType
        from kernel.thm import Thm
        P = self.impl.proofterm.ProofTerm
        ItemID = self.impl.proof.ItemID
        atoms = [Var(n, BoolType) for n in "ABC"]
        nprem = rng.randint(0, 3)
        prems = []
        for i in range(nprem):
            c = rng.choice(atoms) if rng.random() < 0.6 else Implies(rng.choice(atoms), rng.choice(atoms))
            hs = tuple(rng.sample(atoms, rng.randint(0, 2)))
            prems.append(Thm(c, hs))
        leaves = [P.atom(ItemID(i), th) for i, th in enumerate(prems)]

        def prove(X, d):
            k = rng.random()
            cands = [l for l in leaves if l.prop == X]
            if cands and k < 0.3:
                return rng.choice(cands)
            if X.is_implies() and k < 0.7:
                return prove(X.arg, d - 1).implies_intr(X.arg1)
            if d > 0 and k < 0.8:
                Y = rng.choice(atoms)
                return prove(Implies(Y, X), d - 1).implies_elim(prove(Y, d - 1))
            return P.assume(X)
        goal = rng.choice(atoms) if rng.random() < 0.5 else Implies(rng.choice(atoms), rng.choice(atoms))
        pt = prove(goal, rng.randint(1, 4))
        if pt.rule == "atom":
            pt = pt.implies_intr(rng.choice(atoms))
        return prems, pt

    def synthetic(self, n):
        """Property oracle on `ProofTerm.export` itself (every node satisfies the constructor invariant by
        construction): the real checker must accept the real export at check_level=0 with exactly pt.th."""
        from harness.common import sexp
        impl = self.impl
        ItemID, Proof, ProofItem = impl.proof.ItemID, impl.proof.Proof, impl.proof.ProofItem
        rng = self.ctx.rng("export-synth")
        for idx in range(n):
            prems, pt = self.synth_one(rng)
            npm = len(prems)
            self.ctx.count("export-synth:cases")
            try:
                real = pt.export(ItemID(npm))
                prf = Proof()
                for i, th in enumerate(prems):
                    prf.add_item(i, "sorry", th=th)
                item = ProofItem(npm, "subproof")
                item.subproof = real
                prf.items.append(item)
                th = impl.theory.check_proof(prf, check_level=0)
                ok = (th.prop == pt.th.prop and tuple(th.hyps) == tuple(pt.th.hyps) and real.items[-1].th == pt.th)
                why = "" if ok else "checked export states %s, proof term states %s" % (th, pt.th)
            except Exception as e:  # noqa
                ok, why = False, "%s: %s" % (type(e).__name__, str(e)[:200])
                real = None
            self.ctx.case(("export-synth", idx), nontrivial=True)
            if not ok:
                self.ctx.violation("export:checked-export-differs", "ProofTerm.export of a derivation built from primitive rules "
                                   "(premises %s, root %s) is not accepted with the root's sequent: %s" % ([str(t) for t in prems], pt.th, why),
                                   {"kind": "synthetic-export", "index": idx, "premises": [str(t) for t in prems], "root": str(pt.th), "why": why})
                continue
            coder, table = Coder(), []
            try:
                wire = pt_wire(pt, coder, table, [3000])
            except TooBig:
                continue
            real_items = [[list(it.id.id), sexp.enc(it.rule), coder.arg(it.args), [list(p.id) for p in it.prevs], coder.seq(it.th)]
                          for it in real.items]
            ctxl = [[[i], coder.seq(t)] for i, t in enumerate(prems)]
            seen, tbl = set(), []
            for e in table:
                k = sexp.dumps(e[:3])
                if k not in seen:
                    seen.add(k)
                    tbl.append(e)
            self.lines.append(sexp.dumps(["export", [npm], wire]))
            self.lines.append(sexp.dumps(["roundtrip", [npm], ctxl, tbl, wire]))
            self.expect.append(("synthetic#%d" % idx, real_items, ["ok", coder.seq(pt.th), len(real.items)], len(table)))

    def id_cases(self):
        rng = self.rng
        out = [((), ()), ((0,), ()), ((), (0,)), ((1,), (0,)), ((1,), (1,)), ((2, 0), (1,)), ((2, 0), (2,)), ((2, 3), (2, 1)),
               ((2, 3), (2, 1, 0)), ((2, 3, 1), (2, 1)), ((2, 3, 1), (1, 7)), ((0, 0), (0,))]
        for _ in range(self.ctx.scale(300, 3000)):
            a = tuple(rng.randint(0, 3) for _ in range(rng.randint(0, 4)))
            if rng.random() < 0.6 and a:
                k = rng.randint(1, len(a))
                b = a[:k - 1] + (rng.randint(0, 3),) + tuple(rng.randint(0, 3) for _ in range(rng.randint(0, 1)))
            else:
                b = tuple(rng.randint(0, 3) for _ in range(rng.randint(0, 4)))
            out.append((a, b))
        return out

    def finish(self):
        from harness.common import sexp
        ctx = self.ctx
        ItemID = self.impl.proof.ItemID
        load_state(self.impl, "logic_base", None)
        self.synthetic(ctx.scale(400, 5000))
        ids = self.id_cases()
        id_lines = [sexp.dumps(["depends", list(a), list(b)]) for a, b in ids]
        out = ctx.lean_driver(EXE, self.lines + id_lines)
        if out is None or len(out) != len(self.lines) + len(id_lines):
            ctx.broken("correspondence:c04:driver", "model driver unavailable or wrong number of answers")
            return
        ndis = 0
        shared = 0
        for k, (name, real_items, real_check, nnodes) in enumerate(self.expect):
            m_exp = sexp.loads(out[2 * k])
            m_rt = sexp.loads(out[2 * k + 1])
            want = ["ok", [[[str(x) for x in it[0]], it[1], str(it[2]), [[str(x) for x in p] for p in it[3]],
                            [[str(h) for h in it[4][0]], str(it[4][1])]] for it in real_items]]
            ctx.count("export-tie:cases")
            if len(real_items) < nnodes:
                shared += 1
            if m_exp != want:
                ndis += 1
                if ndis <= 3:
                    ctx.broken("correspondence:c04:export", "macro %s: model %s vs real %s" % (name, str(m_exp)[:300], str(want)[:300]))
                    ctx.coverage["disagreements_checked"] += 1
                continue
            if real_check[0] == "ok":
                want_rt = ["ok", [[str(h) for h in real_check[1][0]], str(real_check[1][1])], str(real_check[2])]
            else:
                want_rt = None
            if (want_rt is None) != (m_rt[0] != "ok") or (want_rt is not None and m_rt != want_rt):
                ndis += 1
                if ndis <= 3:
                    ctx.broken("correspondence:c04:check", "macro %s: model %s vs real checker %s" % (name, str(m_rt)[:200], real_check))
                    ctx.coverage["disagreements_checked"] += 1
        for (a, b), line in zip(ids, out[len(self.lines):]):
            ctx.count("export-tie:can_depend_on")
            try:
                real = bool(ItemID(a).can_depend_on(ItemID(b)))
            except IndexError:
                real = False               # other = (): Python raises IndexError; the model answers false
            if (line == "T") != real:
                ctx.broken("correspondence:c04:can_depend_on", "%s depends on %s: model %s real %s" % (a, b, line, real))
                break
        ctx.coverage["export_tie"] = {"proof_terms": len(self.expect), "with_shared_sequents": shared,
                                      "skipped_too_big": self.skipped_big, "can_depend_on_pairs": len(ids)}
        ctx.log("export tie: %d proof terms (%d with shared sequents), %d id pairs, %d disagreements" % (len(self.expect), shared, len(ids), ndis))


# ------------------------------------------------------------------ correspondence: macro models on the kernel model
class MacroTie:
    """The Lean models of `trivial`, `intros`, `apply_theorem` (lean/Holpy/C04/MacroModel.lean) against the real
    macros on harvested / generated invocations: the model's eval result, the model's expansion script (rule by
    rule against the real exported lines when the line structure corresponds) and the result of running the
    model script with the C01 checker model."""

    # real macro name -> model entries fed by its invocations
    ROUTES = {"trivial": ["trivial"], "intros": ["intros", "intros_vars"],
              "apply_theorem": ["apply_theorem", "apply_theorem_svars"], "apply_theorem_for": ["apply_theorem_for"],
              "forall_elim_gen": ["forall_elim_gen"], "apply_fact_for": ["apply_fact_for"]}

    def __init__(self, ctx, impl, limit):
        self.ctx, self.impl, self.limit = ctx, impl, limit
        self.lines, self.expect = [], []
        self.n = {k: 0 for ks in self.ROUTES.values() for k in ks}
        self.nfail = {k: 0 for k in self.n}
        self.t_add = 0.0

    def maybe_add(self, name, args, ths, th_eval):
        """th_eval = the sequent the real eval reported, or None when the real eval raised (near-miss inputs of the
        directed stream: the model evaluation must answer `none` too)."""
        import time
        t0 = time.time()
        for key in self.ROUTES.get(name, ()):
            if self.n[key] < self.limit:
                self._add(key, name, args, ths, th_eval)
        self.t_add += time.time() - t0

    def _add(self, key, name, args, ths, th_eval):
        try:
            rec = getattr(self, "_" + key)(args, ths, th_eval)
        except Exception:  # noqa
            return
        if rec is None:
            return
        from harness.common import kwire, sexp
        line, npm, compare_run = rec
        impl = self.impl
        P, ItemID = impl.proofterm.ProofTerm, impl.proof.ItemID
        steps = None
        if th_eval is not None:
            try:
                pt = impl.theory.global_macros[name]._c04_orig[2](args, tuple(P.atom(ItemID(i), th) for i, th in enumerate(ths)))
                real = pt.export(ItemID(npm))
                steps = []
                for it in real.items:
                    prevs = []
                    for p in it.prevs:
                        prevs.append(p.id[0] if len(p.id) == 1 else npm + p.id[-1])
                    if it.rule in ("assume", "implies_intr", "forall_intr", "forall_elim"):
                        a = ["term", sexp.loads(sexp.dumps(kwire.canon_term(kwire.term_to(it.args))))]
                    elif it.rule == "theorem":
                        a = ["name", sexp.enc(it.args)]
                    elif it.rule == "substitution":
                        a = ["inst"]
                    elif it.args is None:
                        a = ["none"]
                    else:
                        a = ["other"]
                    steps.append([sexp.enc(it.rule), a, [str(x) for x in prevs]])
            except Exception:  # noqa
                return
            ev = kwire.canon_thm(kwire.thm_to(th_eval))
        else:
            ev = "none"
            compare_run = False
            self.nfail[key] += 1
        self.n[key] += 1
        self.lines.append(line)
        self.expect.append((key, ev, steps, compare_run, safe_str(args)[:150]))

    def _trivial(self, goal, ths, th_eval):
        from harness.common import kwire, sexp
        if ths or goal.is_forall() or th_eval is None:
            return None
        return sexp.dumps(["macro", "trivial", kwire.term_to(goal)]), 0, True

    def _intros(self, args, ths, th_eval):
        from harness.common import kwire, sexp
        if args or len(ths) < 2 or th_eval is None:
            return None
        for t in ths[:-1]:
            if t.prop.is_VAR() or len(t.hyps) != 1 or t.hyps[0] != t.prop:
                return None
        return sexp.dumps(["macro", "intros", [kwire.thm_to(t) for t in ths]]), len(ths), True

    def _intros_vars(self, args, ths, th_eval):
        """args = [] (no exists case): `_VAR` declarations and assumptions in any order; also inputs on which the
        real eval raises (forall_intr over a variable free in a hypothesis, a premise that is neither)"""
        from harness.common import kwire, sexp
        if args or len(ths) < 2:
            return None
        return sexp.dumps(["macro", "intros_vars", [kwire.thm_to(t) for t in ths]]), len(ths), True

    def _apply_theorem(self, name, ths, th_eval):
        from harness.common import kwire, sexp
        if th_eval is None:
            return None
        from logic import matcher
        from kernel.term import Inst
        theory = self.impl.theory
        if not isinstance(name, str):
            return None
        th = theory.get_theorem(name)
        if th.hyps or th.prop.get_stvars() or not matcher.is_fo_pattern(th.prop):
            return None
        As, _ = th.prop.strip_implies()
        if len(ths) > len(As):
            return None
        inst = matcher.first_order_match_list(As[:len(ths)], [t.prop for t in ths], Inst())
        if not inst or inst.tyinst or inst.var_inst or any(v.name not in inst for v in th.prop.get_svars()):
            return None
        return sexp.dumps(["macro", "apply_theorem", sexp.enc(name), kwire.thm_to(th), kwire.inst_to(inst),
                           [kwire.thm_to(t) for t in ths]]), len(ths), True

    def _with_inst(self, name, inst0, ths, th_eval):
        """apply_theorem / apply_theorem_for on a first-order monomorphic theorem: the instantiation is computed as
        the macro does (type-matching loop, then first_order_match_list started from the given instantiation);
        schematic variables may remain"""
        from copy import copy
        from harness.common import kwire, sexp
        from logic import matcher
        from kernel.term import Inst
        theory = self.impl.theory
        if not isinstance(name, str) or not isinstance(inst0, Inst):
            return None
        th = theory.get_theorem(name)
        if th.hyps or th.prop.get_stvars() or not matcher.is_fo_pattern(th.prop):
            return None
        if inst0.tyinst or inst0.var_inst or inst0.abs_name_inst:
            return None
        As, _ = th.prop.strip_implies()
        if len(ths) > len(As):
            if th_eval is not None:
                return None
            inst = copy(inst0)          # the macro stops before matching; the model must refuse on the count
        else:
            try:
                inst = copy(inst0)
                for v in th.prop.get_svars():
                    if v.name in inst:
                        v.T.match_incr(inst[v.name].get_type(), inst.tyinst)
                inst = matcher.first_order_match_list(As[:len(ths)], [t.prop for t in ths], inst)
            except Exception:  # noqa
                return None             # the matcher's failure is the oracle's `none`: nothing to compare
            if not inst or inst.tyinst or inst.var_inst or inst.abs_name_inst:
                return None
            As2, _ = th.prop.subst(inst).strip_implies()
            if any(t.prop != a for t, a in zip(ths, As2)):
                return None             # premise matched up to beta only: the expansion normalises it (not modelled)
        return sexp.dumps(["macro", "apply_theorem_svars", sexp.enc(name), kwire.thm_to(th), kwire.inst_to(inst),
                           kwire.inst_to(inst0), [kwire.thm_to(t) for t in ths]]), len(ths), True

    def _apply_theorem_svars(self, name, ths, th_eval):
        from kernel.term import Inst
        return self._with_inst(name, Inst(), ths, th_eval)

    def _apply_theorem_for(self, args, ths, th_eval):
        if not isinstance(args, tuple) or len(args) != 2:
            return None
        return self._with_inst(args[0], args[1], ths, th_eval)

    def _forall_elim_gen(self, s, ths, th_eval):
        """evaluation modelled in both branches; the script (one forall_elim line) is the beta-normal branch"""
        from harness.common import kwire, sexp
        Term, Thm = self.impl.term.Term, self.impl.thm.Thm
        if not isinstance(s, Term):
            return None
        normal = False
        if th_eval is not None:
            r = Thm.forall_elim(s, ths[0])
            normal = r.prop.beta_norm() == r.prop
        return sexp.dumps(["macro", "forall_elim_gen", kwire.term_to(s), [kwire.thm_to(t) for t in ths]]), len(ths), normal

    def _apply_fact_for(self, args, ths, th_eval):
        """in the model: at least one instantiation argument, the instantiated fact beta-normal, every further premise
        literally the next assumption; inputs on which the real eval raises are sent too (model: none)"""
        from harness.common import kwire, sexp
        Term, Thm = self.impl.term.Term, self.impl.thm.Thm
        if not isinstance(args, (list, tuple)) or not args or not all(isinstance(a, Term) for a in args) or not ths:
            return None
        if th_eval is not None:
            th = ths[0]
            for a in args:
                th = Thm.forall_elim(a, th)
            if th.prop.beta_norm() != th.prop:
                return None
            for prev in ths[1:]:
                if prev.prop != th.prop.strip_implies()[0][0]:
                    return None
                th = Thm.implies_elim(th, prev)
        return sexp.dumps(["macro", "apply_fact_for", [kwire.term_to(a) for a in args],
                           [kwire.thm_to(t) for t in ths]]), len(ths), True

    def finish(self):
        from harness.common import kwire, sexp
        ctx = self.ctx
        if not self.lines:
            ctx.coverage["macro_tie"] = dict(self.n)
            return
        for key, k in self.n.items():
            if k == 0:
                ctx.log("macro tie: no input reached the model of %s" % key)
        out = ctx.lean_driver(EXE, self.lines)
        if out is None or len(out) != len(self.lines):
            ctx.broken("correspondence:c04:macro-driver", "model driver unavailable or wrong number of answers")
            return
        ndis = nscript = 0

        def cthm(x):
            return kwire.canon_thm(x) if isinstance(x, list) and x and x[0] == "thm" else x
        for (name, ev, steps, compare_run, descr), line in zip(self.expect, out):
            ctx.count("macro-tie:" + name)
            m = sexp.loads(line)
            bad = None
            if not isinstance(m, list) or m[0] != "ok":
                bad = "model answers %s" % line[:200]
            else:
                m_eval, m_script, m_run = cthm(m[1]), m[2], cthm(m[3])
                if m_eval != ev:
                    bad = "eval: model %s, real %s" % (str(m_eval)[:200], str(ev)[:200])
                elif compare_run and m_run != ev:
                    bad = "the model script run by the checker model ends in %s, real eval %s" % (str(m_run)[:200], str(ev)[:200])
                elif compare_run and steps is not None and len(m_script) == len(steps):
                    nscript += 1
                    ms = [[s[0], [s[1][0]] + ([kwire.canon_term(s[1][1])] if s[1][0] == "term" else s[1][1:]), s[2]] for s in m_script]
                    if ms != steps:
                        bad = "script: model %s, real %s" % (str(ms)[:300], str(steps)[:300])
            if bad:
                ndis += 1
                if ndis <= 3:
                    ctx.broken("correspondence:c04:macro-" + name, "%s on %s: %s" % (name, descr, bad))
                    ctx.coverage["disagreements_checked"] += 1
        ctx.coverage["macro_tie"] = dict(self.n, scripts_compared_line_by_line=nscript, disagreements=ndis,
                                         real_eval_raises={k: v for k, v in self.nfail.items() if v})
        ctx.log("macro tie: %s (real eval raises: %s), %d scripts compared line by line, %d disagreements; %.1fs preparing inputs"
                % (self.n, {k: v for k, v in self.nfail.items() if v}, nscript, ndis, self.t_add))


# ------------------------------------------------------------------ the oracle stream
GOOD = ("agree", "no-expansion", "no-evaluation")


class Oracle:
    def __init__(self, ctx, impl, table):
        self.ctx, self.impl = ctx, impl
        self.stats = {}            # macro -> counters
        self.seen = set()
        self.found = {}            # key -> (size, name, args, ths, result, origin, theory state)
        self.scope = {d["name"]: d["scope"] for d in (table or [])}
        self.t_judge = 0.0
        self.nshrunk = {}
        self.tie = None
        self.mtie = None
        self.ncalls = 0
        self.nauto_hist = 0
        self.unexpanded = {}       # macro -> smallest input with eval ok and no expansion
        # macros without any expansion code (default get_proof_term raises NotImplementedError) and z3 (its
        # `expand` raises NotImplementedError): nothing to compare, their eval is not even run (z3 is slow)
        rt = impl.runtime_table()
        self.no_expansion_code = {n for n, d in rt.items() if not d["gpt"] and not d["expand"]} | \
            {n for n, d in rt.items() if d["expand"] and not d["gpt"]}

    def stat(self, name):
        return self.stats.setdefault(name, {"inputs": 0, "eval_ok": 0, "expand_ok": 0, "compared": 0, "agree": 0,
                                            "harvest": 0, "mutation": 0, "generated": 0, "nested": 0, "directed": 0, "findings": {}})

    def run_one(self, name, args, ths, origin, src, depth=0, history=False):
        """Judge one input (deduplicated, unless it is a step of a history); returns the result dict
        or None when seen before."""
        import time
        k = input_key(name, args, ths)
        try:
            if not history:
                if k in self.seen:
                    return None
                self.seen.add(k)
        except TypeError:
            pass
        self.ncalls += 1
        off = origin.get("off", self.ncalls % 3)
        if name in self.no_expansion_code:
            st = self.stat(name)
            st["inputs"] += 1
            st[src] += 1
            st["skipped_no_expansion_code"] = st.get("skipped_no_expansion_code", 0) + 1
            self.ctx.count("%s:no-expansion-code" % src)
            return None
        t0 = time.time()
        r = judge(self.impl, name, args, ths, off=off)
        self.t_judge += time.time() - t0
        origin = dict(origin, off=off)
        st = self.stat(name)
        st["inputs"] += 1
        st[src] = st.get(src, 0) + 1
        if r["eval"] == "ok":
            st["eval_ok"] += 1
            if r["expand"] == "ok":
                st["eval_ok_expansion"] = st.get("eval_ok_expansion", 0) + 1
                if src == "directed":
                    st["directed_eval_ok_expansion"] = st.get("directed_eval_ok_expansion", 0) + 1
            elif r["verdict"] in ("no-expansion", "expansion-is-bare-premise"):
                st["eval_ok_no_expansion"] = st.get("eval_ok_no_expansion", 0) + 1
                if src == "directed":
                    st["directed_eval_ok_no_expansion"] = st.get("directed_eval_ok_no_expansion", 0) + 1
                    size = obj_size(args) + obj_size(list(ths))
                    if name not in self.unexpanded or size < self.unexpanded[name][0]:
                        self.unexpanded[name] = (size, name, args, list(ths), r, origin, self.impl.cur)
        if r["expand"] == "ok":
            st["expand_ok"] += 1
        if r["check"] == "ok" and r["eval"] == "ok":
            st["compared"] += 1
        v = r["verdict"]
        if v == "agree":
            st["agree"] += 1
            if self.tie is not None:
                self.tie.maybe_add(name, args, ths)
            if self.mtie is not None:
                self.mtie.maybe_add(name, args, ths, r["th_eval"])
        self.ctx.case((name, hash(k) if not isinstance(k[1], str) else k), nontrivial=(r["expand"] == "ok"))
        self.ctx.count("%s:%s" % (src, v.split(":")[0]))
        if v not in GOOD and v != "timeout":
            key = "%s:%s" % (name, v)
            st["findings"][v] = st["findings"].get(v, 0) + 1
            size = obj_size(args) + obj_size(list(ths))
            if key not in self.found or (size < self.found[key][0] and self.nshrunk.get(key, 0) < 3):
                r["nested"] = []
                a2, t2, r2 = args, list(ths), r
                known = any(f["key"] == key and f.get("status") == "known" for f in self.ctx.findings)
                if not known and not history:
                    self.nshrunk[key] = self.nshrunk.get(key, 0) + 1
                    try:
                        a3, t3 = self.shrink(name, args, list(ths), v)
                        r3 = judge(self.impl, name, a3, t3, off=off)
                        if r3["verdict"] == v:
                            a2, t2, r2 = a3, t3, r3
                    except Exception:  # noqa
                        pass
                size = obj_size(a2) + obj_size(t2)
                if key not in self.found or size < self.found[key][0]:
                    r2 = dict(r2, _what=describe(name, a2, t2, r2))      # printed now: the constants are in the theory now
                    self.found[key] = (size, name, a2, t2, r2, origin, self.impl.cur)
        if depth < 2 and not history:
            for (n2, a2, t2) in r.get("nested", []):
                org2 = {k2: v2 for k2, v2 in origin.items() if k2 != "off"}
                rn = self.run_one(n2, a2, t2, dict(org2, nested_in=name), "nested", depth + 1)
                if rn is not None and n2 == "auto" and t2 and self.nauto_hist < self.ctx.scale(40, 400):
                    # `auto` is reached only as a nested step: give its recorded calls the call-order scenario too
                    from kernel.thm import Thm as _Thm
                    self.nauto_hist += 1
                    self.run_history([(n2, a2, [_Thm(t.prop) for t in t2]), (n2, a2, []), (n2, a2, t2), (n2, a2, [])],
                                     dict(org2, kind="history", nested_in=name))
        return r

    def run_history(self, calls, origin, setup=None):
        """A history: macro calls made one after the other in this process (module-level caches are
        emptied first, so that the history can be replayed).  Every call is judged like a single input;
        its premises sit at other line numbers than those of the other calls."""
        try:
            self.impl.auto.clear_cache()
        except Exception:  # noqa
            pass
        prior = []
        out = []
        for i, (name, args, ths) in enumerate(calls):
            if name in self.no_expansion_code:
                continue
            org = dict(origin, call=i, off=(i + 1) % 3, _history={"setup": setup, "prior": list(prior)})
            out.append(self.run_one(name, args, list(ths), org, "history", history=True))
            prior.append((name, args, list(ths), (i + 1) % 3))
        return out

    # -- minimisation: greedy, bounded
    def shrink(self, name, args, ths, verdict, budget=80):
        from kernel.term import Term
        from kernel.thm import Thm
        impl = self.impl

        def same(a, t):
            nonlocal budget
            if budget <= 0:
                return False
            budget -= 1
            try:
                return judge(impl, name, a, t, limit=20)["verdict"] == verdict
            except Exception:  # noqa
                return False

        def term_shrinks(t):
            out = []
            for path, s in closed_subterms(t)[:60]:
                if not s.is_comb() and not s.is_abs():
                    continue
                try:
                    T = s.get_type()
                except Exception:  # noqa
                    continue
                for _, u in closed_subterms(s)[1:8]:
                    try:
                        if u.get_type() == T:
                            out.append(replace_at(t, path, u))
                    except Exception:  # noqa
                        pass
            out.sort(key=lambda x: x.size())
            return out[:25]

        def args_shrinks(a):
            if isinstance(a, Term):
                return term_shrinks(a)
            if isinstance(a, tuple):
                return [a[:i] + (v,) + a[i + 1:] for i in range(len(a)) for v in args_shrinks(a[i])]
            if isinstance(a, list):
                return [a[:i] + a[i + 1:] for i in range(len(a))] + \
                       [a[:i] + [v] + a[i + 1:] for i in range(len(a)) for v in args_shrinks(a[i])]
            return []
        changed = True
        while changed and budget > 0:
            changed = False
            for i in range(len(ths)):
                c = ths[:i] + ths[i + 1:]
                if same(args, c):
                    ths, changed = c, True
                    break
            if changed:
                continue
            for i in range(len(ths)):
                if ths[i].hyps:
                    c = ths[:i] + [Thm(ths[i].prop)] + ths[i + 1:]
                    if same(args, c):
                        ths, changed = c, True
                        break
            if changed:
                continue
            for a in args_shrinks(args):
                if obj_size(a) < obj_size(args) and same(a, ths):
                    args, changed = a, True
                    break
            if changed:
                continue
            for i in range(len(ths)):
                for p in term_shrinks(ths[i].prop)[:8]:
                    if p.size() < ths[i].prop.size() and well_typed(p, True):
                        c = ths[:i] + [Thm(p, tuple(ths[i].hyps))] + ths[i + 1:]
                        if same(args, c):
                            ths, changed = c, True
                            break
                if changed:
                    break
        return args, ths

    def report(self):
        """Report one (minimised) violation per (macro, defect class)."""
        # a macro that the checker must expand (level above the default trust level) and whose expansion was
        # not produced on ANY input on which its evaluation succeeds: the evaluated statement is never backed
        for name, ent in sorted(self.unexpanded.items()):
            st = self.stats.get(name, {})
            mc = self.impl.theory.global_macros.get(name)
            if mc is None or mc.level == 0:
                continue
            # judged on the directed (seed-independent) inputs only: the same verdict for every VERIF_SEED
            nno, nyes = st.get("directed_eval_ok_no_expansion", 0), st.get("directed_eval_ok_expansion", 0)
            if nno >= 3 and nyes == 0:
                r = dict(ent[4])
                r["verdict"] = "expansion-never-produced"
                r["detail"] = "eval succeeds on %d directed inputs; no expansion on any of them (%s)" % (nno, ent[4]["expand"])
                self.found["%s:expansion-never-produced" % name] = (ent[0], name, ent[2], ent[3], r, ent[5], ent[6])
                st["findings"]["expansion-never-produced"] = nno
        for key in sorted(self.found):
            size, name, args, ths, r, origin, cur = self.found[key]
            verdict = r["verdict"]
            what = r.get("_what") or describe(name, args, ths, r)
            origin = dict(origin)
            hist = origin.pop("_history", None)
            rp = {"macro": name, "verdict": verdict, "theory": cur[0], "limit": cur[1], "origin": origin, "off": origin.get("off", 0),
                  "args_str": safe_str(args), "prevs_str": [safe_str(t) for t in ths],
                  "th_eval": safe_str(r.get("th_eval")), "th_exp": safe_str(r.get("th_exp")), "detail": r.get("detail", "")}
            try:
                rp["input"] = {"args": enc_obj(args), "prevs": [enc_obj(t) for t in ths]}
            except TypeError as e:
                rp["input"] = None
                rp["unencodable"] = str(e)
            if hist is not None:
                try:
                    rp["history"] = {"setup": hist["setup"],
                                     "prior": [{"macro": n2, "args": enc_obj(a2), "prevs": [enc_obj(t) for t in t2], "off": o2,
                                                "readable": "%s %s from %s" % (n2, safe_str(a2)[:120], [safe_str(t)[:80] for t in t2])}
                                               for (n2, a2, t2, o2) in hist["prior"]]}
                    what = "after the calls [%s] in the same process: %s" % (
                        "; ".join(h["readable"] for h in rp["history"]["prior"])[:600], what)
                except TypeError as e:
                    rp["history"] = None
                    rp["unencodable"] = str(e)
            self.ctx.violation(key, what, rp)


def safe_str(x):
    try:
        return str(x)
    except Exception:  # noqa
        try:
            return repr(x)
        except Exception as e:  # noqa
            return "<unprintable %s>" % type(e).__name__


def describe(name, args, ths, r):
    v = r["verdict"]
    base = "macro %s on args=%s prevs=%s: " % (name, safe_str(args)[:200], [safe_str(t)[:120] for t in ths][:4])
    if v.startswith("conclusion-differs"):
        return base + "eval reports %s but the checked expansion proves %s" % (safe_str(r["th_eval"])[:200], safe_str(r["th_exp"])[:200])
    if v.startswith("hypotheses-added"):
        return base + "expansion proves %s, eval reported %s (hypotheses not in the evaluation's sequent)" % (safe_str(r["th_exp"])[:200], safe_str(r["th_eval"])[:200])
    if v.startswith("expansion-rejected"):
        return base + "eval %s; the expansion is produced but the checker rejects it at check_level=0 (%s)" % (r["eval"], r["check"])
    if v.startswith("expansion-cites-foreign-line"):
        return base + "eval %s; the expansion cites a line that is not among the premises given to the macro (%s)" % (r["eval"], r["detail"])
    if v.startswith("expansion-is-bare-premise"):
        return base + "eval reports %s; %s" % (safe_str(r.get("th_eval"))[:200], r["detail"])
    if v.startswith("expansion-never-produced"):
        return base + "eval reports %s but no expansion is produced, here or on any other input on which eval succeeds (%s)" % (
            safe_str(r.get("th_eval"))[:200], r["detail"])
    if v.startswith("expansion-has-gaps"):
        return base + "the expansion contains `sorry` steps (%s)" % r["detail"]
    if v.startswith("eval-fails"):
        return base + "eval raises %s but the expansion is produced, checks and proves %s" % (r["eval"], safe_str(r["th_exp"])[:200])
    return base + v


def library_order(impl, names):
    return impl.basic.get_import_order(names)


def harvest_theory(ctx, impl, oracle, mut, thy, budget_s, mut_rate):
    """Replay the stored proofs of one library file; judge every recorded macro invocation and
    mutations of a sample of them, in the theory state in which the proof is checked."""
    import time
    theory, basic, items, context, server = impl.theory, impl.basic, impl.items, impl.context, impl.server
    t0 = time.time()
    data = basic.load_json_data(thy)
    basic.load_theory(thy, limit="start")
    nproofs = nfail = 0
    t_hist = 0.0
    rng = mut.rng
    for raw in data["content"]:
        item = items.parse_item(raw)
        if item.error:
            continue
        if item.ty == "thm" and getattr(item, "proof", None) and time.time() - t0 < budget_s:
            from harness.common.ctx import time_limit, Timeout
            impl.cur = (thy, ["thm", item.name])
            del impl.rec[:]
            impl.recording = True
            try:
                with warnings.catch_warnings():
                    warnings.simplefilter("ignore")
                    with time_limit(20):
                        context.set_context(None, vars=item.vars)
                        server.parse_proof(item.proof)
                nproofs += 1
            except Timeout:
                ctx.count("library-proofs-over-20s")
            except Exception:  # noqa
                nfail += 1
            finally:
                impl.recording = False
            recs = list(impl.rec)
            del impl.rec[:]
            if len(recs) > 400:                     # a few huge proofs: keep a spread sample
                step = len(recs) / 400.0
                recs = [recs[int(i * step)] for i in range(400)]
            for (name, args, ths) in recs:
                if isinstance(args, str):
                    if args not in mut.thm_names[-200:]:
                        mut.thm_names.append(args)
                elif isinstance(args, tuple) and args and isinstance(args[0], str):
                    if args[0] not in mut.thm_names[-200:]:
                        mut.thm_names.append(args[0])
            for (name, args, ths) in recs:
                r = oracle.run_one(name, args, ths, {"kind": "harvest", "theory": thy, "thm": item.name}, "harvest")
                if r is None:
                    continue
                for th in ths[:3]:
                    if len(mut.prem_pool) < 400:
                        mut.prem_pool.append(th)
                    else:
                        mut.prem_pool[rng.randrange(400)] = th
                hdraw = rng.random()        # drawn unconditionally: the time cap must not shift the random stream
                if ths and t_hist < ctx.scale(6, 40) and (name == "auto" or hdraw < 0.08):
                    # call-order scenario: same call with hypothesis-free premises, then WITHOUT premises, then as recorded
                    from kernel.thm import Thm as _Thm
                    t_h0 = time.time()
                    oracle.run_history([(name, args, [_Thm(t.prop) for t in ths]), (name, args, []), (name, args, ths), (name, args, [])],
                                       {"kind": "history", "theory": thy, "thm": item.name})
                    t_hist += time.time() - t_h0
                if rng.random() < mut_rate:
                    for _ in range(2):
                        try:
                            m = mut.mutate(name, args, ths)
                        except Exception:  # noqa
                            m = None
                        if m is not None:
                            descr, a2, t2 = m
                            oracle.run_one(name, a2, t2, {"kind": "mutation", "theory": thy, "thm": item.name, "mutation": descr}, "mutation")
        theory.thy.unchecked_extend(item.get_extension())
    impl.cur = (thy, None)
    ctx.count("library-proofs-replayed", nproofs)
    ctx.count("library-proofs-failing-to-replay", nfail)
    return nproofs, nfail, time.time() - t0


def run(ctx):
    import time
    ctx.coverage["rule"] = (
        "inputs = (macro, args, premise sequents): (a) every macro invocation recorded (eval/expand/get_proof_term wrappers on the "
        "registered macro objects) while re-checking the stored proofs of library/*.json; (b) mutations of those (drop/duplicate/permute/"
        "replace a premise, change a premise's statement or hypotheses, replace/swap/negate/retype a subterm of an argument, other theorem "
        "name, edited instantiation; numerals are kept atomic and constants at instances of their declared types); (c) per-family generators "
        "(nat/int/real arithmetic, fun_upd, avalI, imp_conj/imp_disj, resolution, basic logic macros, veriT rules via harness/props/c18.py); "
        "(d) the macro steps nested in every checked expansion, as inputs of their own (depth 2); (e) apply_theorem(_for) on every "
        "theorem of the theory that is not a first-order pattern, with variable / abstraction / redex-carrying instances and premises; "
        "(f) HISTORIES: several calls in one process (hypothesis-free premises, then no premises, then assumptions, ...) for sampled "
        "harvested calls; conditional rewrite theorems with side-condition premises carrying different hypotheses (rewrite_goal(_sym), rewrite_fact(_sym)); non-canonical numerals (of_nat 0, of_nat 1, padded binary) in the inputs of every arithmetic family; and for `auto` with solve rules registered through auto.add_global_autos (library rule-like theorems; in the "
        "thorough tier also integral/proof.py's own rules), each call with its premises at other line numbers. "
        "Distinct by structural key of the input; "
        "non-trivial = an expansion is produced. Export tie: harvested proof terms and synthetic derivations from primitive rules "
        "(repeated sub-derivations, equal conclusions under different hypotheses).")
    # 1. registry table + Lean obligations
    try:
        table = scan_macros(ctx.repo)
        if ctx.write_if_changed("Holpy/C04/Gen.lean", gen_lean(table)):
            ctx.log("Gen.lean regenerated (changed)")
    except ValueError as e:
        table = None
        ctx.broken("translate:c04:macro-registry", str(e))
    proofs_ok = ctx.lean_props(["Holpy.C04.Props", "Holpy.C04.PropsDag", "Holpy.C04.PropsMacro", "Holpy.C04.PropsMacro2"], exes=[EXE])
    if ctx.tier == "thorough" and proofs_ok:
        ctx.lean_check_modules(["Holpy.C04.Props", "Holpy.C04.PropsDag", "Holpy.C04.PropsMacro", "Holpy.C04.PropsMacro2"])
    ctx.coverage["trusted_base"] += [
        "harness/props/c04.py: recorder, mutators, generators, the comparison of eval with the checked expansion",
        "the real checker theory.check_proof at check_level=0 is the judge of expansions (its soundness is C01/C02)",
        "ast reader of the macro registry (decorators + global_macros.update table)"]
    ctx.assumptions += [
        "per-macro agreement of eval and expansion is validated on harvested/mutated/generated inputs, not proved",
        "a macro whose expansion raises on an input makes no claim for that input (property text); such inputs are counted, not judged",
        "hash collisions of Thm in ProofTerm.export's seq_to_id are not modelled (sharing = identical ordered hyps + prop)",
        "while replaying library proofs the z3 macro (trusted, no expansion) is run with prover.z3wrapper.check_z3 = False"]
    # 2. implementation
    impl = Impl(ctx)
    for mod, err in impl.import_errors.items():
        ctx.broken("import:" + mod, err)
    rt = impl.runtime_table()
    if table is not None:
        tb = {d["name"]: d for d in table}
        bad = []
        for name, d in rt.items():
            e = tb.get(name)
            if e is None:
                bad.append("%s registered at run time but not found by the ast reader" % name)
            elif (e["level"], e["eval"], e["expand"], e["gpt"]) != (d["level"], d["eval"], d["expand"], d["gpt"]):
                bad.append("%s: ast %s vs runtime %s" % (name, (e["level"], e["eval"], e["expand"], e["gpt"]), (d["level"], d["eval"], d["expand"], d["gpt"])))
        for name in tb:
            if name not in rt and not impl.import_errors:
                bad.append("%s in the sources but not registered after importing %s" % (name, tb[name]["module"]))
        if bad:
            ctx.broken("correspondence:c04:registry", "; ".join(bad[:8]))
        ctx.coverage["registry"] = {"ast": len(tb), "runtime": len(rt)}
    oracle = Oracle(ctx, impl, table)
    oracle.tie = ExportTie(ctx, impl, ctx.scale(400, 4000))
    oracle.mtie = MacroTie(ctx, impl, ctx.scale(150, 1500))
    mut = Mutator(ctx.rng("mutate"))
    # corpus first
    run_corpus(ctx, impl, oracle)
    directed_sweep(ctx, impl, oracle)
    macro_model_stream(ctx, impl, oracle)      # before the harvest: its near-miss inputs must reach the model tie
    # (a)+(b) harvested inputs and their mutations
    impl.basic.load_metadata()
    if ctx.tier == "quick":
        thys = QUICK_THEORIES
        budget, rate = 60, 0.8
    else:
        allthys = sorted(impl.basic.theory_cache["master"].keys())
        thys = library_order(impl, allthys)
        budget, rate = 45, 0.5
    hv = {}
    t_h0 = time.time()
    for thy in thys:
        if time.time() - t_h0 > ctx.scale(150, 1100):
            hv[thy] = {"skipped": "harvest time budget used up"}
            continue
        try:
            n, nf, secs = harvest_theory(ctx, impl, oracle, mut, thy, budget, rate)
            hv[thy] = {"proofs": n, "failed": nf, "secs": round(secs, 1)}
            ctx.log("harvest %s: %d proofs replayed (%d failed) in %.1fs; findings so far: %d" % (thy, n, nf, secs, len(oracle.found)))
        except Exception as e:  # noqa
            hv[thy] = {"error": "%s: %s" % (type(e).__name__, str(e)[:200])}
            ctx.log("harvest of %s stopped: %s" % (thy, hv[thy]["error"]))
    ctx.coverage["harvest"] = hv
    ctx.log("harvest done: %d inputs judged, %.1fs in the oracle" % (sum(s["inputs"] for s in oracle.stats.values()), oracle.t_judge))
    # (c) generators
    run_generators(ctx, impl, oracle, mut)
    oracle.report()
    oracle.tie.finish()
    oracle.mtie.finish()
    # evidence
    per = {}
    for name in sorted(set(rt) | set(oracle.stats)):
        st = oracle.stats.get(name)
        per[name] = st if st else {"inputs": 0}
    ctx.coverage["per_macro"] = per
    ctx.coverage["unreached"] = sorted(n for n in rt if n not in oracle.stats)
    ctx.coverage["never_compared"] = sorted(n for n in rt if n in oracle.stats and oracle.stats[n]["compared"] == 0)
    ctx.coverage["unreached_in_scope"] = sorted(n for n in ctx.coverage["unreached"] if oracle.scope.get(n, False))
    for smp in sorted(oracle.stats)[:4]:
        ctx.sample({"macro": smp, **{k: v for k, v in oracle.stats[smp].items() if k != "findings"}})


def run_corpus(ctx, impl, oracle):
    import json
    p = os.path.join(ctx.verif, "corpus", "c04.json")
    if not os.path.exists(p):
        return
    with open(p) as f:
        entries = json.load(f)
    for e in entries:
        try:
            load_state(impl, e.get("theory"), e.get("limit"))
            args = dec_obj(e["input"]["args"])
            ths = [dec_obj(t) for t in e["input"]["prevs"]]
            oracle.run_one(e["macro"], args, ths, {"kind": "corpus"}, "generated")
        except Exception as ex:  # noqa
            ctx.log("corpus entry skipped: %s" % ex)


def load_state(impl, thy, limit):
    if thy is None:
        thy = "real"
    if impl.cur == (thy, limit):
        return
    if thy in ("smt", "verit") and impl.cur[0] is None:
        impl.basic.load_theory("real")
    if limit:
        impl.basic.load_theory(thy, limit=tuple(limit))
    else:
        impl.basic.load_theory(thy)
    impl.cur = (thy, limit)


# ------------------------------------------------------------------ (c) per-family generators
class FamGen:
    """Generated inputs for macros the library proofs exercise little or not at all.  Every family
    yields mostly in-domain inputs plus deliberate near misses (wrong result, other numeral type,
    other head constant); each is also passed through the Mutator."""

    def __init__(self, rng):
        from kernel.term import Var
        from kernel.type import BoolType, NatType, IntType, RealType, TFun
        self.rng = rng
        self.B, self.N, self.I, self.R = BoolType, NatType, IntType, RealType
        self.atoms = [Var(n, BoolType) for n in ("A", "B", "C", "D", "E")]
        self.nv = [Var(n, NatType) for n in ("x", "y", "z")]
        self.iv = [Var(n, IntType) for n in ("i", "j", "k")]
        self.rv = [Var(n, RealType) for n in ("r", "s", "t")]
        self.P = Var("P", TFun(NatType, BoolType))
        self.Q = Var("Q", TFun(NatType, BoolType))
        self.f = Var("f", TFun(NatType, NatType))

    # ---- building blocks
    def num(self, T, lo=0, hi=12):
        from data import nat, integer, real
        n = self.rng.randint(lo, hi)
        return {"nat": nat.Nat, "int": integer.Int, "real": real.Real}[T.name](n)

    def form(self, d=2):
        from kernel.term import Not, And, Or, Implies, Eq, true, false
        r = self.rng
        if d <= 0 or r.random() < 0.3:
            k = r.random()
            if k < 0.85:
                return r.choice(self.atoms)
            if k < 0.9:
                return true
            if k < 0.93:
                return false
            return self.P(r.choice(self.nv))
        k = r.randint(0, 5)
        if k == 0:
            return Not(self.form(d - 1))
        if k == 1:
            return And(self.form(d - 1), self.form(d - 1))
        if k == 2:
            return Or(self.form(d - 1), self.form(d - 1))
        if k == 3:
            return Implies(self.form(d - 1), self.form(d - 1))
        if k == 4:
            return Eq(self.form(d - 1), self.form(d - 1))
        return r.choice(self.atoms)

    def nest(self, op, xs):
        """Random bracketing of xs under the binary connective op."""
        if len(xs) == 1:
            return xs[0]
        i = self.rng.randint(1, len(xs) - 1)
        return op(self.nest(op, xs[:i]), self.nest(op, xs[i:]))

    def poly(self, T, vs, d=2):
        from kernel.term import plus, times
        from kernel.term import Const
        from kernel.type import TFun
        r = self.rng
        if d <= 0 or r.random() < 0.3:
            return r.choice(vs) if r.random() < 0.6 else self.num(T, 0, 5)
        k = r.random()
        if k < 0.45:
            return plus(T)(self.poly(T, vs, d - 1), self.poly(T, vs, d - 1))
        if k < 0.8:
            return times(T)(self.poly(T, vs, d - 1), self.poly(T, vs, d - 1))
        if T.name == "nat":
            return Const("Suc", TFun(T, T))(self.poly(T, vs, d - 1))
        return plus(T)(self.poly(T, vs, d - 1), self.num(T, 0, 3))

    def shuffle_poly(self, t):
        """A term equal to t as a polynomial: commute / reassociate / distribute at random places."""
        r = self.rng
        if t.is_plus() or t.is_times():
            a, b = self.shuffle_poly(t.arg1), self.shuffle_poly(t.arg)
            op = t.fun.fun
            k = r.random()
            if k < 0.4:
                return op(b, a)
            if k < 0.55 and a.is_comb() and a.fun.is_comb() and a.fun.fun == op:
                return op(a.arg1, op(a.arg, b))
            if k < 0.7 and t.is_times() and b.is_plus():
                return b.fun.fun(op(a, b.arg1), op(a, b.arg))
            return op(a, b)
        return t

    # ---- families: each returns a list of (macro, args, prevs)
    def nat_arith(self):
        from kernel.term import Eq, Not
        from kernel.term import Const
        from kernel.type import TFun
        r = self.rng
        out = []
        T = r.choice([self.N, self.N, self.N, self.I, self.R])
        vs = {"nat": self.nv, "int": self.iv, "real": self.rv}[T.name]
        e = self.poly(T, vs, r.randint(1, 3))
        e2 = self.shuffle_poly(e) if r.random() < 0.8 else self.poly(T, vs, 2)
        out.append(("nat_norm", Eq(e, e2), []))
        a, b = self.num(T, 0, 40), self.num(T, 0, 40)
        if r.random() < 0.15:
            b = a
        if r.random() < 0.1 and T.name == "nat":
            a = Const("Suc", TFun(T, T))(a)
        out.append(("nat_const_ineq", Not(Eq(a, b)), []))
        out.append(("nat_const_less_eq", a <= b, []))
        out.append(("nat_const_less", a < b, []))
        if r.random() < 0.3:
            out.append(("nat_const_ineq", Eq(a, b), []))
            out.append(("nat_const_less_eq", a < b, []))
            out.append(("nat_const_less", a <= b, []))
        return out

    def int_real_arith(self):
        from kernel.term import Eq, minus, plus, less_eq, less, greater, greater_eq
        r = self.rng
        out = []
        T = r.choice([self.I, self.R])
        vs = self.iv if T == self.I else self.rv

        def lin(d=1):
            if d <= 0 or r.random() < 0.4:
                return r.choice(vs) if r.random() < 0.7 else self.num(T, 0, 6)
            k = r.random()
            if k < 0.4:
                return plus(T)(lin(d - 1), lin(d - 1))
            if k < 0.7:
                return minus(T)(lin(d - 1), lin(d - 1))
            from kernel.term import times
            return times(T)(self.num(T, 0, 4), lin(d - 1))
        op = r.choice([less_eq, less, greater, greater_eq])(T)
        l, rr = lin(2), lin(1)
        c1 = op(l, rr)
        k = r.random()
        if k < 0.5:
            c2 = op(minus(T)(l, rr), self.num(T, 0, 0))
        elif k < 0.8:
            c = self.num(T, 1, 4)
            c2 = op(plus(T)(l, c), plus(T)(rr, c))
        else:
            c2 = op(rr, l)
        goal = Eq(c1, c2)
        if T == self.I:
            out.append(("int_eq_macro", goal, []))
            out.append(("int_eq_comparison", goal, []))
            out.append(("omega_norm_int_ineq", c1, []))
            out.append(("int_eq_macro", Eq(Eq(l, rr), Eq(minus(T)(l, rr), self.num(T, 0, 0))), []))
            # registered with one-argument get_proof_term: never produce an expansion through the protocol
            out.append(("int_ineq", c1, []))
            out.append(("int_multiple_ineq_equiv", [c1, c2], []))
            out.append(("int_ineq_mul_const", c1, [self.thm_of(greater(T)(self.num(T, 1, 3), self.num(T, 0, 0)))]))
        else:
            out.append(("real_eq_comparison", goal, []))
        return out

    def thm_of(self, prop):
        from kernel.thm import Thm
        return Thm(prop, self.hyps())

    def fun_upd(self):
        from kernel.term import Eq, Lambda
        from data import function, nat
        r = self.rng
        f = function.mk_const_fun(self.N, nat.Nat(0)) if r.random() < 0.7 else self.f
        n = r.randint(0, 3)
        for _ in range(n):
            f = function.mk_fun_upd(f, nat.Nat(r.randint(0, 4)), nat.Nat(r.randint(0, 9)))
        k = nat.Nat(r.randint(0, 4))
        lhs = f(k)
        try:
            rhs = function.fun_upd_eval_conv().eval(lhs).prop.rhs
        except Exception:  # noqa
            rhs = nat.Nat(0)
        if r.random() < 0.25:
            rhs = nat.Nat(r.randint(0, 9))
        return [("fun_upd_eval", Eq(lhs, rhs), [])]

    def avalI(self):
        from kernel.term import Const
        from data import expr, function, nat
        r = self.rng
        s = function.mk_const_fun(self.N, nat.Nat(0))
        env = {}
        for _ in range(r.randint(0, 3)):
            a, b = r.randint(0, 3), r.randint(0, 9)
            s = function.mk_fun_upd(s, nat.Nat(a), nat.Nat(b))
            env[a] = b

        def ae(d):
            if d <= 0 or r.random() < 0.35:
                if r.random() < 0.5:
                    n = r.randint(0, 7)
                    return expr.N(nat.Nat(n)), n
                x = r.randint(0, 3)
                return expr.V(nat.Nat(x)), env.get(x, 0)
            (a, va), (b, vb) = ae(d - 1), ae(d - 1)
            if r.random() < 0.5:
                return expr.Plus(a, b), va + vb
            return expr.Times(a, b), va * vb
        t, v = ae(r.randint(0, 2))
        if r.random() < 0.2:
            v += 1
        goal = expr.avalI(s, t, nat.Nat(v))
        out = [("prove_avalI", goal, [])]
        if r.random() < 0.3:
            other = Const("c04_rel", expr.avalI.T)
            out.append(("prove_avalI", other(s, t, nat.Nat(v)), []))
        return out

    def conj_disj(self):
        from kernel.term import And, Or, Implies, true
        r = self.rng
        out = []
        n = r.randint(1, 5)
        xs = [self.form(1) if r.random() < 0.3 else r.choice(self.atoms) for _ in range(n)]
        if r.random() < 0.2:
            xs.append(true)
        # imp_conj: conjuncts of B among those of A
        ys = [r.choice(xs) for _ in range(r.randint(1, 4))]
        if r.random() < 0.2:
            ys.append(true)
        if r.random() < 0.2:
            ys.append(self.form(1))
        r.shuffle(ys)
        out.append(("imp_conj", Implies(self.nest(And, xs), self.nest(And, ys)), []))
        # imp_disj: disjuncts of A among those of B
        zs = list(xs) + [self.form(1) for _ in range(r.randint(0, 2))]
        r.shuffle(zs)
        ws = [r.choice(zs) for _ in range(r.randint(1, 4))] if r.random() < 0.85 else [self.form(1)]
        out.append(("imp_disj", Implies(self.nest(Or, ws), self.nest(Or, zs)), []))
        return out

    def hyps(self):
        from kernel.term import Var
        r = self.rng
        k = r.random()
        hs = [Var("H1", self.B), Var("H2", self.B)]
        if k < 0.4:
            return ()
        if k < 0.8:
            return (r.choice(hs),)
        return tuple(hs)

    def resolution(self):
        from kernel.term import Not, Or
        from kernel.thm import Thm
        r = self.rng
        p = r.choice(self.atoms) if r.random() < 0.7 else self.form(1)
        c1 = [r.choice(self.atoms) for _ in range(r.randint(0, 3))]
        c2 = [r.choice(self.atoms) for _ in range(r.randint(0, 3))]
        neg = Not(p)
        if r.random() < 0.15:
            neg = r.choice(self.atoms)              # no complementary literal
        l1, l2 = c1 + [p], c2 + [neg]
        r.shuffle(l1)
        r.shuffle(l2)
        th1, th2 = Thm(Or(*l1), self.hyps()), Thm(Or(*l2), self.hyps())
        if r.random() < 0.5:
            th1, th2 = th2, th1
        return [("resolution", None, [th1, th2])]

    def basic_logic(self):
        from kernel.term import Implies, Forall, Lambda, Not, Eq, And, Inst, Var, Const, plus
        from kernel.type import TFun
        from kernel.thm import Thm
        r = self.rng

        def plus_nat(a, b):
            return plus(self.N)(a, b)

        def suc(a):
            return Const("Suc", TFun(self.N, self.N))(a)
        out = []
        # trivial
        xs = [self.form(1) for _ in range(r.randint(1, 4))]
        c = r.choice(xs) if r.random() < 0.85 else self.form(1)
        g = Implies(*(xs + [c]))
        if r.random() < 0.3:
            x = r.choice(self.nv)
            g = Forall(x, Implies(self.P(x), g))
        out.append(("trivial", g, []))
        # beta_norm / forall_elim_gen
        x, y = self.nv[0], self.nv[1]
        body = r.choice([self.P(x), Eq(self.f(x), x), And(self.P(x), self.Q(x)), Not(self.P(self.f(x)))])
        lam = Lambda(x, body)
        a = r.choice([y, self.num(self.N), self.f(y)])
        out.append(("beta_norm", None, [Thm(lam(a), self.hyps())]))
        out.append(("beta_norm", None, [Thm(self.P(a), self.hyps())]))          # already normal
        out.append(("forall_elim_gen", a, [Thm(Forall(x, body), self.hyps())]))
        out.append(("forall_elim_gen", a, [Thm(Forall(x, lam(x)), self.hyps())]))
        # apply_fact / apply_fact_for
        fact = Thm(Forall(x, Implies(self.P(x), self.Q(x))), self.hyps())
        prem = Thm(self.P(a), self.hyps())
        out.append(("apply_fact", None, [fact, prem]))
        out.append(("apply_fact_for", [a], [fact, prem]))
        out.append(("apply_fact_for", [a], [fact]))
        # apply_theorem(_for) on propositional theorems
        A, B = self.form(1), self.form(1)
        thA, thB = Thm(A, self.hyps()), Thm(B, self.hyps())
        out.append(("apply_theorem", "conjI", [thA, thB]))
        out.append(("apply_theorem", "conjD1", [Thm(And(A, B), self.hyps())]))
        out.append(("apply_theorem", "conjD2", [Thm(And(A, B), self.hyps())]))
        out.append(("apply_theorem_for", ("disjI1", Inst(A=A, B=B)), [thA]))
        out.append(("apply_theorem_for", ("disjI2", Inst(A=A, B=B)), [thB]))
        out.append(("apply_theorem", "negE", [Thm(Not(A), self.hyps()), thA]))
        out.append(("apply_theorem_for", ("falseE", Inst(A=A)), []))
        out.append(("resolve_theorem", ("one_nonzero", A), [Thm(Eq(self.num(self.N, 1, 1), self.num(self.N, 0, 0)), self.hyps())]))
        # rewrite_goal / rewrite_fact with basic equalities
        out.append(("rewrite_goal", ("conj_comm", And(A, B)), [Thm(And(B, A), self.hyps())]))
        out.append(("rewrite_fact", "conj_comm", [Thm(And(A, B), self.hyps())]))
        out.append(("rewrite_goal_sym", ("double_neg", A), [Thm(Not(Not(A)), self.hyps())]))
        out.append(("rewrite_fact_sym", "double_neg", [thA]))
        eq = Thm(Eq(A, B), self.hyps())
        out.append(("rewrite_goal_with_prev", Implies(A, r.choice(self.atoms)), [eq, Thm(Implies(B, r.choice(self.atoms)), self.hyps())]))
        out.append(("rewrite_fact_with_prev", None, [eq, Thm(And(A, r.choice(self.atoms)), self.hyps())]))
        out.append(("rewrite_goal_with_prev_sym", Implies(B, r.choice(self.atoms)), [eq, Thm(Implies(A, r.choice(self.atoms)), self.hyps())]))
        # apply_induct
        n0 = self.nv[0]
        Pn = Eq(plus_nat(n0, self.num(self.N, 0, 0)), n0)
        out.append(("apply_induct", ("nat_induct", n0, Pn),
                    [Thm(Pn.subst_norm(Inst(x=self.num(self.N, 0, 0))) if False else Eq(plus_nat(self.num(self.N, 0, 0), self.num(self.N, 0, 0)), self.num(self.N, 0, 0)), self.hyps()),
                     Thm(Forall(n0, Implies(Pn, Eq(plus_nat(suc(n0), self.num(self.N, 0, 0)), suc(n0)))), self.hyps())]))
        # intros
        h = Var("H0", self.B)
        out.append(("intros", None, [Thm(h, (h,)), Thm(A, (h,) + self.hyps())]))
        out.append(("intros", None, [Thm.mk_VAR(x), Thm(self.P(x), self.hyps())]))
        out.append(("intros", None, [thA]))
        return out


GEN_FAMILIES = [
    # (family, theory to load, method, cases quick, cases thorough)
    ("nat-arith", "hoare", "nat_arith", 180, 2000),
    ("int-real-arith", "real", "int_real_arith", 100, 800),
    ("fun-upd", "hoare", "fun_upd", 120, 800),
    ("avalI", "expr", "avalI", 120, 800),
    ("conj-disj", "hoare", "conj_disj", 200, 3000),
    ("resolution", "hoare", "resolution", 120, 2000),
    ("basic-logic", "hoare", "basic_logic", 80, 600),
]


# ------------------------------------------------------------------ higher-order theorems with redexes inside instances
LOGICAL_HEADS = {"equals", "implies", "all", "exists", "conj", "disj", "neg", "true", "false", "The", "Some", "IF"}


def ho_theorem_stream(ctx, impl, oracle, mut):
    """apply_theorem / apply_theorem_for on the theorems of the loaded theory that are NOT first-order patterns
    (a schematic variable in function position: exI, the_equality, allE, exE, induction rules ...), with
    instances that are variables, abstractions, or non-abstractions CONTAINING a beta-redex ((%z. z) c), and with
    premises stated with and without those redexes reduced."""
    import time
    from kernel.term import Var, Abs, Bound, Inst
    from kernel.type import TyInst, NatType, TVar
    from kernel.thm import Thm
    from logic import matcher
    t0 = time.time()
    theory = impl.theory
    rng = ctx.rng("gen:ho-theorems")
    names = []
    for nm in sorted(theory.thy.get_data("theorems").keys()):
        try:
            th = theory.get_theorem(nm)
            if th.hyps or th.prop.size() > 70 or matcher.is_fo_pattern(th.prop) or not th.prop.get_svars():
                continue
            names.append(nm)
        except Exception:  # noqa
            continue
    ctx.coverage["ho_theorems"] = len(names)
    rounds = ctx.scale(220, 2500)
    for i in range(rounds):
        if not names:
            break
        nm = names[i % len(names)] if i < 2 * len(names) else rng.choice(names)
        th = theory.get_theorem(nm)
        tyinst = TyInst()
        for stv in th.prop.get_stvars():
            tyinst[stv.name] = NatType if rng.random() < 0.5 else TVar(stv.name)
        inst = Inst()
        inst.tyinst = tyinst
        for sv in th.prop.get_svars():
            T = sv.T.subst(tyinst)
            k = rng.random()
            if T.is_fun():
                if k < 0.55:
                    v = Var("h_" + sv.name, T)
                elif k < 0.8:
                    v = Abs("g", T, Bound(0))(Var("h_" + sv.name, T))            # (%g. g) h : not an abstraction
                else:
                    doms = T.strip_type()[0] if hasattr(T, "strip_type") else None
                    v = Var("h_" + sv.name, T)
                    try:
                        x = Var("x_" + sv.name, T.domain_type())
                        from kernel.term import Lambda
                        v = Lambda(x, v(x))
                    except Exception:  # noqa
                        pass
            else:
                if k < 0.6:
                    v = Abs("z", T, Bound(0))(Var("c_" + sv.name, T))            # (%z. z) c
                else:
                    v = Var("c_" + sv.name, T)
            inst[sv.name] = v
        org = {"kind": "generated", "family": "ho-theorems", "index": i, "theorem": nm}
        cases = [("apply_theorem_for", (nm, inst), [])]
        try:
            As, _ = th.prop.subst_type(tyinst).strip_implies()
            k = rng.randint(1, len(As)) if As else 0
            raw = [A.subst(inst) for A in As[:k]]
            hs = (Var("H1", impl.htype.BoolType),) if rng.random() < 0.3 else ()
            prem_raw = [Thm(a, hs) for a in raw]
            prem_norm = [Thm(a.beta_norm(), hs) for a in raw]
            if k:
                cases += [("apply_theorem_for", (nm, inst), prem_raw), ("apply_theorem", nm, prem_raw),
                          ("apply_theorem_for", (nm, inst), prem_norm), ("apply_theorem", nm, prem_norm)]
        except Exception:  # noqa
            pass
        for (name, args, ths) in cases:
            oracle.run_one(name, args, ths, org, "generated")
    ctx.log("generators ho-theorems: %d theorems, %d rounds in %.1fs; findings so far: %d" % (len(names), rounds, time.time() - t0, len(oracle.found)))


# ------------------------------------------------------------------ histories: module-level caches of logic.auto
def apply_setup(impl, setup):
    """Registrations a history needs (public extension API of logic.auto); returns an undo function."""
    auto = impl.auto
    added = []
    for ent in (setup or {}).get("register", []):
        head = dec_obj(ent["head"])
        if head in auto.global_autos:
            continue
        auto.add_global_autos(head, auto.solve_rules(list(ent["thms"])))
        added.append(head)
    added_norm = []
    for ent in (setup or {}).get("register_norm", []):
        head = dec_obj(ent["head"])
        if head in auto.global_autos_norm:
            continue
        auto.add_global_autos_norm(head, auto.norm_rules(list(ent["thms"])))
        added_norm.append(head)
    for mod in (setup or {}).get("modules", []):
        import importlib
        importlib.import_module(mod)

    def undo():
        for h in added:
            auto.global_autos.pop(h, None)
        for h in added_norm:
            auto.global_autos_norm.pop(h, None)
        try:
            auto.clear_cache()
        except Exception:  # noqa
            pass
    return undo


def auto_rule_histories(ctx, impl, oracle):
    """`auto` closes a goal through a registered solve function (auto.add_global_autos + auto.solve_rules, as
    integral/proof.py does).  For introduction-rule-like library theorems A1 --> ... --> C the rule is registered
    for the head of C and the goal is asked for in several orders: without premises, with hypothesis-free
    premises |- Ai, without premises again, with assumptions Ai |- Ai, without premises again.  A result kept in a
    module-level cache (solve_record / norm_record) must never carry the premises of another call."""
    import time
    from kernel.term import Var, Inst
    from kernel.type import TyInst, NatType
    from kernel.thm import Thm
    t0 = time.time()
    theory, auto = impl.theory, impl.auto
    rules = []
    for nm in sorted(theory.thy.get_data("theorems").keys()):
        try:
            th = theory.get_theorem(nm)
            As, C = th.prop.strip_implies()
            if th.hyps or not (1 <= len(As) <= 3) or th.prop.size() > 50:
                continue
            if not C.head.is_const() or C.head.name in LOGICAL_HEADS or C.is_equals():
                continue
            if any(A.is_conj() or A.is_disj() or A.is_implies() or A.is_forall() or A == C for A in As):
                continue
            cs = set(v.name for v in C.get_svars())
            if any(v.name not in cs for A in As for v in A.get_svars()) or not cs:
                continue
            rules.append(nm)
        except Exception:  # noqa
            continue
    limit = ctx.scale(25, 150)
    step = max(1, len(rules) // limit)
    picked = rules[::step][:limit]
    nh = 0
    for nm in picked:
        th = theory.get_theorem(nm)
        tyinst = TyInst({stv.name: NatType for stv in th.prop.get_stvars()})
        prop = th.prop.subst_type(tyinst)
        inst = Inst({sv.name: Var("h_" + sv.name, sv.T) for sv in prop.get_svars()})
        try:
            As, G = prop.subst(inst).strip_implies()
            head = G.head
            if head in auto.global_autos or any(A.head in auto.global_autos for A in As if not A.is_not()):
                continue
            setup = {"register": [{"thms": [nm], "head": enc_obj(head)}]}
        except Exception:  # noqa
            continue
        undo = apply_setup(impl, setup)
        try:
            free = [Thm(A) for A in As]
            assumed = [Thm(A, (A,)) for A in As]
            calls = [("auto", G, []), ("auto", G, free), ("auto", G, []), ("auto", G, assumed), ("auto", G, []),
                     ("auto", G, free[:-1]), ("auto", G, [])]
            oracle.run_history(calls, {"kind": "history", "family": "auto-rules", "theorem": nm}, setup=setup)
            nh += 1
        finally:
            undo()
    ctx.coverage["auto_rule_histories"] = {"rule_like_theorems": len(rules), "histories": nh}
    ctx.log("histories auto-rules: %d histories (of %d rule-like theorems) in %.1fs; findings so far: %d" % (nh, len(rules), time.time() - t0, len(oracle.found)))


def auto_norm_histories(ctx, impl, oracle):
    """The same call orders for the equality branch of `auto` (auto.norm + norm_record): a conditional rewrite
    rule A1 --> ... --> lhs = rhs of the library is registered with auto.add_global_autos_norm(head,
    auto.norm_rules([name])) and `auto (lhs = rhs)` is asked for with and without the premises |- Ai."""
    import time
    from kernel.term import Var, Inst, Eq
    from kernel.type import TyInst, NatType
    from kernel.thm import Thm
    t0 = time.time()
    theory, auto = impl.theory, impl.auto
    rules = []
    for nm in sorted(theory.thy.get_data("theorems").keys()):
        try:
            th = theory.get_theorem(nm)
            As, C = th.prop.strip_implies()
            if th.hyps or not (1 <= len(As) <= 2) or th.prop.size() > 50 or not C.is_equals():
                continue
            lhs, rhs = C.lhs, C.rhs
            if not lhs.is_comb() or not lhs.head.is_const() or lhs.head.name in LOGICAL_HEADS or lhs.get_type() == impl.htype.BoolType:
                continue
            if any(A.is_conj() or A.is_disj() or A.is_implies() or A.is_forall() or A.is_equals() for A in As):
                continue
            ls = set(v.name for v in lhs.get_svars())
            if not ls or any(v.name not in ls for t in As + [rhs] for v in t.get_svars()):
                continue
            rules.append(nm)
        except Exception:  # noqa
            continue
    limit = ctx.scale(25, 150)
    step = max(1, len(rules) // limit)
    nh = nagree = 0
    for nm in rules[::step][:limit]:
        th = theory.get_theorem(nm)
        try:
            tyinst = TyInst({stv.name: NatType for stv in th.prop.get_stvars()})
            prop = th.prop.subst_type(tyinst)
            inst = Inst({sv.name: Var("h_" + sv.name, sv.T) for sv in prop.get_svars()})
            As, C = prop.subst(inst).strip_implies()
            head = C.lhs.head
            if head in auto.global_autos_norm or head in auto.global_autos or C.rhs.head in auto.global_autos_norm:
                continue
            setup = {"register_norm": [{"thms": [nm], "head": enc_obj(head)}]}
        except Exception:  # noqa
            continue
        undo = apply_setup(impl, setup)
        try:
            free = [Thm(A) for A in As]
            assumed = [Thm(A, (A,)) for A in As]
            calls = [("auto", C, []), ("auto", C, free), ("auto", C, []), ("auto", C, assumed), ("auto", C, [])]
            res = oracle.run_history(calls, {"kind": "history", "family": "auto-norm-rules", "theorem": nm}, setup=setup)
            nh += 1
            if res and len(res) > 1 and res[1] is not None and res[1]["verdict"] == "agree":
                nagree += 1
        finally:
            undo()
    ctx.coverage.setdefault("auto_norm_histories", []).append({"conditional_rewrites": len(rules), "histories": nh, "second_call_agrees": nagree})
    ctx.log("histories auto-norm-rules: %d histories (%d where the call with premises is proved; %d conditional rewrites) in %.1fs; findings so far: %d"
            % (nh, nagree, len(rules), time.time() - t0, len(oracle.found)))


def integral_auto_histories(ctx, impl, oracle):
    """thorough tier: the same call orders with the solve rules that integral/proof.py registers itself."""
    import time
    t0 = time.time()
    try:
        import importlib
        importlib.import_module("integral.proof")
        load_state(impl, "realintegral", None)
        from logic import context
        from syntax import parser
        from kernel.thm import Thm
        context.set_context("realintegral", vars={"f": "real => real", "g": "real => real", "s": "real set"})
        goals = [("real_continuous_on (%x. f x + g x) s", ["real_continuous_on f s", "real_continuous_on g s"]),
                 ("real_continuous_on (%x. f x * g x) s", ["real_continuous_on f s", "real_continuous_on g s"]),
                 ("real_continuous_on (%x. -(f x)) s", ["real_continuous_on f s"]),
                 ("real_continuous_on (%x. sin (f x)) s", ["real_continuous_on f s"])]
        n = 0
        for g, asms in goals:
            G = parser.parse_term(g)
            As = [parser.parse_term(a) for a in asms]
            free = [Thm(A) for A in As]
            assumed = [Thm(A, (A,)) for A in As]
            calls = [("auto", G, []), ("auto", G, free), ("auto", G, []), ("auto", G, assumed), ("auto", G, [])]
            oracle.run_history(calls, {"kind": "history", "family": "auto-integral", "goal": g}, setup={"modules": ["integral.proof"]})
            n += 1
        ctx.log("histories auto-integral: %d histories in %.1fs; findings so far: %d" % (n, time.time() - t0, len(oracle.found)))
    except Exception as e:  # noqa
        ctx.coverage["auto_integral_histories"] = "unavailable: %s: %s" % (type(e).__name__, str(e)[:200])
        ctx.log("histories auto-integral unavailable: %s" % e)


# ------------------------------------------------------------------ non-canonical numerals / conditional rewriting
def noncanonical(t, rng, p=0.6):
    """t with (some of) its numerals written non-canonically: of_nat 0, of_nat 1, binary numerals padded with
    a leading zero digit (bit1 zero for one).  Same value, same type."""
    from kernel.term import Comb, Abs, Const, Binary, of_nat
    from kernel.type import NatType, TFun
    try:
        if (t.is_comb() or t.is_const()) and t.is_nat_number() and rng.random() < p:
            T = t.get_type()
            v = t.dest_number()
            bit0 = Const("bit0", TFun(NatType, NatType))
            bit1 = Const("bit1", TFun(NatType, NatType))
            zero, one = Const("zero", NatType), Const("one", NatType)

            def pad(b):
                if b.is_const("one"):
                    return bit1(zero)
                if b.is_const("zero"):
                    return bit0(zero)
                return b.fun(pad(b.arg))
            k = rng.random()
            if v == 0:
                b = zero if k < 0.6 else bit0(zero)
            elif v == 1:
                b = one if k < 0.6 else bit1(zero)
            else:
                b = pad(Binary(v))
            return of_nat(T)(b)
    except Exception:  # noqa
        return t
    if t.is_comb():
        return Comb(noncanonical(t.fun, rng, p), noncanonical(t.arg, rng, p))
    if t.is_abs():
        return Abs(t.var_name, t.var_T, noncanonical(t.body, rng, p))
    return t


def noncanonical_stream(ctx, impl, oracle):
    """Every arithmetic macro family on inputs whose numerals are written non-canonically."""
    import time
    from kernel.term import Term
    from kernel.thm import Thm
    t0 = time.time()
    fams = [("hoare", "nat_arith"), ("hoare", "fun_upd"), ("expr", "avalI"), ("real", "int_real_arith")]
    n = 0
    for thy, meth in sorted(fams):
        try:
            load_state(impl, thy, None)
        except Exception:  # noqa
            continue
        rng = ctx.rng("gen:noncanonical:" + meth)
        G = FamGen(rng)
        for i in range(ctx.scale(60, 600)):
            try:
                cases = getattr(G, meth)()
            except Exception:  # noqa
                continue
            for (name, args, ths) in cases:
                try:
                    if name not in impl.theory.global_macros or not impl.theory.has_macro(name):
                        continue
                except AttributeError:
                    continue
                a2 = noncanonical(args, rng) if isinstance(args, Term) else args
                t2 = [Thm(noncanonical(t.prop, rng), tuple(t.hyps)) for t in ths]
                if a2 is args and all(x.prop is y.prop for x, y in zip(t2, ths)):
                    continue
                if isinstance(a2, Term) and not well_typed(a2):
                    continue
                oracle.run_one(name, a2, t2, {"kind": "generated", "family": "noncanonical-numerals:" + meth, "index": i}, "generated")
                n += 1
    ctx.log("generators noncanonical-numerals: %d inputs in %.1fs; findings so far: %d" % (n, time.time() - t0, len(oracle.found)))


def cond_rewrite_stream(ctx, impl, oracle):
    """rewrite_goal / rewrite_goal_sym / rewrite_fact / rewrite_fact_sym with CONDITIONAL rewrite theorems
    A1 --> ... --> lhs = rhs of the loaded theory: the rewritten statement and every side condition is a premise
    with hypotheses of its own (eval must collect the hypotheses of all of them)."""
    import time
    from kernel.term import Var, Inst
    from kernel.type import TyInst, NatType, TFun, BoolType
    from kernel.thm import Thm
    t0 = time.time()
    theory = impl.theory
    rng = ctx.rng("gen:cond-rewrite")
    rules = []
    for nm in sorted(theory.thy.get_data("theorems").keys()):
        try:
            th = theory.get_theorem(nm)
            As, C = th.prop.strip_implies()
            if th.hyps or not (1 <= len(As) <= 3) or th.prop.size() > 60 or not C.is_equals():
                continue
            ls = set(v.name for v in C.lhs.get_svars())
            if not ls or any(v.name not in ls for t in As + [C.rhs] for v in t.get_svars()) or C.lhs.is_svar():
                continue
            rules.append(nm)
        except Exception:  # noqa
            continue
    Hs = [Var("H%d" % i, BoolType) for i in range(1, 5)]
    n = 0
    for i in range(ctx.scale(80, 800)):
        if not rules:
            break
        nm = rules[i % len(rules)] if i < len(rules) else rng.choice(rules)
        th = theory.get_theorem(nm)
        try:
            tyinst = TyInst({stv.name: NatType for stv in th.prop.get_stvars()})
            prop = th.prop.subst_type(tyinst)
            inst = Inst({sv.name: Var("h_" + sv.name, sv.T) for sv in prop.get_svars()})
            As, C = prop.subst(inst).strip_implies()
            T = C.lhs.get_type()
            if T == BoolType:
                ctxf = lambda x: x        # noqa
            else:
                P = Var("c04P", TFun(T, BoolType))
                ctxf = lambda x: P(x)     # noqa
            g_l, g_r = ctxf(C.lhs), ctxf(C.rhs)
        except Exception:  # noqa
            continue

        def hy(j):
            k = rng.random()
            if k < 0.25:
                return ()
            if k < 0.8:
                return (Hs[j % 4],)
            return (Hs[j % 4], Hs[(j + 1) % 4])
        conds = [Thm(A, hy(j + 1)) for j, A in enumerate(As)]
        org = {"kind": "generated", "family": "cond-rewrite", "index": i, "theorem": nm}
        for (name, args, ths) in [("rewrite_goal", (nm, g_l), [Thm(g_r, hy(0))] + conds),
                                  ("rewrite_goal_sym", (nm, g_r), [Thm(g_l, hy(0))] + conds),
                                  ("rewrite_fact", nm, [Thm(g_l, hy(0))] + conds),
                                  ("rewrite_fact_sym", nm, [Thm(g_r, hy(0))] + conds)]:
            oracle.run_one(name, args, ths, org, "generated")
            n += 1
    ctx.log("generators cond-rewrite: %d conditional rewrite theorems, %d inputs in %.1fs; findings so far: %d" % (len(rules), n, time.time() - t0, len(oracle.found)))


# ------------------------------------------------------------------ directed sweep (independent of VERIF_SEED)
def identity_cases(impl):
    """Inputs on which a macro has nothing to do (its result is one of its premises unchanged)."""
    from kernel.term import Var, Eq, Or, Not, Forall
    from kernel.type import BoolType, NatType, TFun
    from kernel.thm import Thm
    A, B = Var("A", BoolType), Var("B", BoolType)
    x = Var("x", NatType)
    P = Var("P", TFun(NatType, BoolType))
    H = Var("H1", BoolType)
    out = []
    for hyps in ((), (H,)):
        out += [("beta_norm", None, [Thm(P(x), hyps)]), ("beta_norm", None, [Thm(Or(A, B), hyps)]),
                ("verit_or", (A, B), [Thm(Or(A, B), hyps)]), ("verit_or", (A,), [Thm(A, hyps)]),
                ("verit_bfun_elim", (Forall(x, P(x)),), [Thm(Forall(x, P(x)), hyps)]),
                ("verit_bfun_elim", (Or(A, Not(B)),), [Thm(Or(A, Not(B)), hyps)]),
                ("intros", None, [Thm(A, hyps)]),
                ("apply_fact_for", [], [Thm(A, hyps)]),
                ("forall_elim_gen", x, [Thm(Forall(x, P(x)), hyps)])]
    return out


def context_variants(args):
    """veriT rules that take the binder context of their subproof (a dict name -> term as last argument): the same
    call with contexts that EXCHANGE names (x -> y becomes x -> y, y -> x), and with identity entries added."""
    from kernel.term import Var
    if not (isinstance(args, tuple) and args and isinstance(args[-1], dict)):
        return []
    ctxt = args[-1]
    out = []
    sym = dict(ctxt)
    for k, v in ctxt.items():
        try:
            if v.is_var() and v.name not in sym and v.name != k:
                sym[v.name] = Var(k, v.T)
        except Exception:  # noqa
            pass
    if sym != ctxt:
        out.append(("ctx-exchange", args[:-1] + (sym,)))
    ident = dict(ctxt)
    for k, v in ctxt.items():
        try:
            for w in v.get_vars():
                if w.name not in ident:
                    ident[w.name] = w
        except Exception:  # noqa
            pass
    if ident != ctxt:
        out.append(("ctx-identity", args[:-1] + (ident,)))
    return out


def refl_context_cases():
    from kernel.term import Var, Eq
    from kernel.type import NatType
    x, y, z = Var("x", NatType), Var("y", NatType), Var("z", NatType)
    exch = {"x": y, "y": x}
    return [("verit_refl", (Eq(x, y), exch), []), ("verit_refl", (Eq(y, x), exch), []),
            ("verit_refl", (Eq(x, y), {"x": y}), []), ("verit_refl", (Eq(y, x), {"x": y}), []),
            ("verit_refl", (Eq(x, y), {"x": y, "y": x, "z": z}), []), ("verit_refl", (Eq(z, z), {"z": z}), []),
            ("verit_refl", (Eq(x, y), {"y": x}), [])]


def directed_sweep(ctx, impl, oracle):
    """A FIXED set of inputs (the generators below run on a constant random seed, not on VERIF_SEED) for every macro
    that has a generator: the judgement `expansion-never-produced` is made on these inputs only, so that it is the
    same for every seed.  Run before all other streams (no input can have been seen before)."""
    import importlib
    import io
    import contextlib
    import random
    import time
    t0 = time.time()
    fixed = random.Random(40404)
    n = 0
    for fam, thy, meth, _, _ in sorted(GEN_FAMILIES, key=lambda f: f[1]):
        try:
            load_state(impl, thy, None)
        except Exception:  # noqa
            continue
        G = FamGen(fixed)
        for i in range(40):
            try:
                cases = getattr(G, meth)()
            except Exception:  # noqa
                continue
            for (name, args, ths) in cases:
                try:
                    if name not in impl.theory.global_macros or not impl.theory.has_macro(name):
                        continue
                except AttributeError:
                    continue
                oracle.run_one(name, args, ths, {"kind": "directed", "family": fam, "index": i}, "directed")
                n += 1
    try:
        load_state(impl, "hoare", None)
        for k, (name, args, ths) in enumerate(identity_cases(impl)):
            if name in impl.theory.global_macros and name.startswith("verit_") is False:
                oracle.run_one(name, args, ths, {"kind": "directed", "family": "identity", "index": k}, "directed")
                n += 1
    except Exception as e:  # noqa
        ctx.log("directed identity cases stopped: %s" % e)
    try:
        c18 = importlib.import_module("harness.props.c18")
        ns = c18.boot(ctx)
        impl.cur = ("verit", None)
        for k, (name, args, ths) in enumerate(identity_cases(impl)):
            if name.startswith("verit_") and name in impl.theory.global_macros:
                oracle.run_one(name, args, ths, {"kind": "directed", "family": "identity", "index": k}, "directed")
                n += 1
        for k, (name, args, ths) in enumerate(refl_context_cases()):
            oracle.run_one(name, args, ths, {"kind": "directed", "family": "refl-contexts", "index": k}, "directed")
            n += 1
        for rule in sorted(c18.GEN):
            G = c18.Univ(ns, fixed)
            got = 0
            for i in range(60):
                if got >= 12:
                    break
                try:
                    inst = c18.GEN[rule](G)
                except Exception:  # noqa
                    continue
                if inst is None or getattr(inst, "kind", "correct") != "correct":
                    continue
                name, args, ths = c18.assemble(inst)
                if name not in impl.theory.global_macros:
                    continue
                with contextlib.redirect_stdout(io.StringIO()):
                    r = oracle.run_one(name, args, ths, {"kind": "directed", "rule": rule, "index": i}, "directed")
                n += 1
                if r is not None and r["eval"] == "ok":
                    got += 1
                for (vk, a2) in context_variants(args):
                    with contextlib.redirect_stdout(io.StringIO()):
                        oracle.run_one(name, a2, ths, {"kind": "directed", "rule": rule, "index": i, "variant": vk}, "directed")
                    n += 1
    except Exception as e:  # noqa
        ctx.coverage["directed_verit"] = "unavailable: %s: %s" % (type(e).__name__, str(e)[:200])
    ctx.log("directed sweep (seed-independent): %d inputs in %.1fs; findings so far: %d" % (n, time.time() - t0, len(oracle.found)))


def macro_model_stream(ctx, impl, oracle):
    """Inputs aimed at the macro models of lean/Holpy/C04/MacroModel2.lean (intros with `_VAR` premises,
    apply_theorem(_for) with remaining schematic variables, forall_elim_gen, apply_fact_for): valid ones and near
    misses (variable free in a hypothesis, premise that is neither a declaration nor an assumption, too many premises,
    wrong number / type of instantiation arguments, premise that is not the assumption, redex-creating instances).
    Every input goes through the property oracle; the model is compared on those where eval and expansion agree and,
    through `maybe_add(..., None)`, on those where the real eval raises (the model evaluation must refuse too)."""
    import time
    from harness.common.ctx import time_limit
    t0 = time.time()
    try:
        load_state(impl, "logic_base", None)
    except Exception as e:  # noqa
        ctx.log("macro model stream skipped: %s" % type(e).__name__)
        return
    from kernel.type import TFun, BoolType, TVar
    from kernel.term import Var, SVar, Const, Forall, Implies, Lambda, Inst, And
    _Thm = impl.thm.Thm

    def Thm(hs, p):
        return _Thm(p, tuple(hs))
    Thm.assume, Thm.forall_elim = _Thm.assume, _Thm.forall_elim
    rng = ctx.rng("macro-model")
    B = BoolType
    a, b, c, x, y = (Var(n, B) for n in "abcxy")
    P, Q = Var("P", TFun(B, B)), Var("Q", TFun(B, B))
    R = Var("R", TFun(B, B, B))
    z = Var("z", TVar("a"))
    props = [a, b, c, P(x), Q(y), R(x, y), Implies(a, b), P(a), And(a, b), Implies(P(x), Q(x)), x, y]
    bodies = [Thm(hs, p) for p in props for hs in ([], [a], [a, b], [P(x)], [x])]

    def VAR(v):
        return Thm([], Const("_VAR", TFun(v.get_type(), B))(v))
    good_intros = [VAR(x), VAR(y), VAR(z), Thm.assume(a), Thm.assume(b), Thm.assume(P(x)), Thm.assume(x), Thm.assume(Implies(a, b))]
    bad_intros = [Thm([b], a), Thm([a, b], a), Thm([], a), VAR(P(x)), VAR(Lambda(x, x)), Thm([a], Const("_VAR", TFun(B, B))(x))]
    cases = []
    for _ in range(ctx.scale(60, 400)):
        k = rng.randint(1, 4)
        ins = [rng.choice(good_intros) for _ in range(k)]
        if rng.random() < 0.35:
            ins[rng.randrange(k)] = rng.choice(bad_intros)
        cases.append(("intros", [], ins + [rng.choice(bodies)]))
    # forall_elim_gen / apply_fact_for
    f = Var("f", TFun(B, B))
    facts = [Forall(x, P(x)), Forall(x, Forall(y, Implies(P(x), Q(y), R(x, y)))), Forall(x, Implies(x, x)),
             Forall(f, Implies(f(a), f(b))), Forall(f, Forall(x, Implies(f(x), x))), Implies(a, b), P(x),
             Forall(x, Forall(y, Implies(R(x, y), R(y, x)))), Forall(z, a), Forall(x, Implies(a, Forall(y, R(x, y))))]
    insts = [a, b, P(a), x, Lambda(x, x), Lambda(x, Implies(x, a)), f, z, Implies(a, b), R(a, b)]
    for _ in range(ctx.scale(60, 400)):
        ft = rng.choice(facts)
        hs = rng.choice([[], [a], [c, a]])
        s_ = rng.choice(insts)
        ths = [Thm(hs, ft)]
        if rng.random() < 0.1:
            ths = ths + [Thm([], a)] if rng.random() < 0.5 else []
        if ths:
            cases.append(("forall_elim_gen", s_, ths))
    for _ in range(ctx.scale(120, 800)):
        ft = rng.choice(facts)
        hs = rng.choice([[], [a], [c, a]])
        n = 0
        t = ft
        while t.is_forall():
            n, t = n + 1, t.arg.body
        if rng.random() < 0.15:
            n = max(0, n + rng.choice([-1, 1]))
        args = [rng.choice(insts) for _ in range(n)]
        fact = Thm(hs, ft)
        prems = []
        try:
            th = fact
            for s_ in args:
                th = Thm.forall_elim(s_, th)
            As = th.prop.strip_implies()[0]
            for A in As[:rng.randint(0, len(As))]:
                prems.append(Thm(rng.choice([[], [b], [a]]), A))
            if prems and rng.random() < 0.25:
                i = rng.randrange(len(prems))
                prems[i] = Thm([], rng.choice(props))
            if rng.random() < 0.1:
                prems.append(Thm([], a))
        except Exception:  # noqa
            prems = [Thm([], a)] if rng.random() < 0.5 else []
        cases.append(("apply_fact_for", args, [fact] + prems))
    # apply_theorem / apply_theorem_for on first-order monomorphic theorems: fewer premises than assumptions,
    # partial instantiations, too many premises, a remaining variable free in a hypothesis
    names = ("conjI", "conjD1", "conjD2", "disjI1", "disjI2", "disjE", "mp", "negE", "falseE", "trivial", "syllogism")
    for nm in names:
        try:
            th = impl.theory.get_theorem(nm)
        except Exception:  # noqa
            continue
        As, C = th.prop.strip_implies()
        svs = th.prop.get_svars()
        for _ in range(ctx.scale(8, 40)):
            inst = Inst()
            for v in svs:
                if v.T == B and rng.random() < 0.6:
                    inst[v.name] = rng.choice([a, b, c, And(a, b), Implies(a, b), SVar(v.name, B)])
            try:
                As2 = [A.subst(inst) for A in As]
            except Exception:  # noqa
                continue
            k = rng.randint(0, len(As2) + (1 if rng.random() < 0.15 else 0))
            prems = [Thm(rng.choice([[], [c], [SVar(svs[-1].name, B)] if svs else [c]]), As2[i] if i < len(As2) else a) for i in range(k)]
            if prems and rng.random() < 0.15:
                prems[rng.randrange(len(prems))] = Thm([], rng.choice([a, And(b, a), Implies(a, a)]))
            cases.append(("apply_theorem", nm, prems))
            cases.append(("apply_theorem_for", (nm, inst), prems))
    nrun = nfail = 0
    for (name, args, ths) in cases:
        if time.time() - t0 > ctx.scale(12, 90):
            break
        try:
            if name not in impl.theory.global_macros or not impl.theory.has_macro(name):
                continue
        except Exception:  # noqa
            continue
        nrun += 1
        oracle.run_one(name, args, ths, {"stream": "macro-model"}, "generated")
        try:
            with time_limit(10):
                impl.theory.global_macros[name]._c04_orig[0](args, ths)
        except Exception:  # noqa
            nfail += 1
            oracle.mtie.maybe_add(name, args, ths, None)
    ctx.log("generators macro-model: %d inputs (%d on which the real eval raises) in %.1fs; findings so far: %d"
            % (nrun, nfail, time.time() - t0, len(oracle.found)))


def run_generators(ctx, impl, oracle, mut):
    import time
    order = sorted(GEN_FAMILIES, key=lambda f: f[1])
    for fam, thy, meth, nq, nt in order:
        t0 = time.time()
        try:
            load_state(impl, thy, None)
        except Exception as e:  # noqa
            ctx.log("generator family %s: theory %s not loadable: %s" % (fam, thy, e))
            continue
        rng = ctx.rng("gen:" + fam)
        G = FamGen(rng)
        mut.rng = ctx.rng("genmut:" + fam)
        n = ctx.scale(nq, nt)
        for i in range(n):
            try:
                cases = getattr(G, meth)()
            except Exception as e:  # noqa
                ctx.count("generator-error:" + fam)
                if i == 0:
                    ctx.log("generator %s raised %s: %s" % (fam, type(e).__name__, e))
                continue
            for (name, args, ths) in cases:
                try:
                    avail = name in impl.theory.global_macros and impl.theory.has_macro(name)
                except AttributeError:          # int_ineq & co. have no `limit`: has_macro itself raises
                    avail = False
                    oracle.stat(name)["unusable"] = "theory.has_macro raises AttributeError (macro object has no `limit`)"
                if not avail:
                    ctx.count("generator-macro-unavailable:" + name)
                    continue
                org = {"kind": "generated", "family": fam, "index": i}
                oracle.run_one(name, args, ths, org, "generated")
                try:
                    m = mut.mutate(name, args, ths)
                except Exception:  # noqa
                    m = None
                if m is not None:
                    oracle.run_one(name, m[1], m[2], dict(org, mutation=m[0]), "mutation")
        ctx.log("generators %s: %d rounds in %.1fs; findings so far: %d" % (fam, n, time.time() - t0, len(oracle.found)))
    for thy in ("hoare", "real"):
        try:
            load_state(impl, thy, None)
            ho_theorem_stream(ctx, impl, oracle, mut)
            auto_rule_histories(ctx, impl, oracle)
            auto_norm_histories(ctx, impl, oracle)
            cond_rewrite_stream(ctx, impl, oracle)
        except Exception as e:  # noqa
            ctx.log("ho-theorem / history streams on %s stopped: %s: %s" % (thy, type(e).__name__, e))
            ctx.count("generator-error:ho-or-history:" + thy)
    noncanonical_stream(ctx, impl, oracle)
    if ctx.tier == "thorough":
        integral_auto_histories(ctx, impl, oracle)
    verit_stream(ctx, impl, oracle, mut)


def verit_stream(ctx, impl, oracle, mut):
    """veriT rule macros: instances from the per-rule generators of harness/props/c18.py (shared, DESIGN 4/C04)."""
    import importlib
    import time
    try:
        c18 = importlib.import_module("harness.props.c18")
        GEN, Univ, assemble, mutate, wt = c18.GEN, c18.Univ, c18.assemble, c18.mutate, c18.well_typed
    except Exception as e:  # noqa
        ctx.coverage["verit_generators"] = "unavailable (%s: %s): veriT macros are judged on no generated input" % (type(e).__name__, e)
        ctx.log("veriT generators unavailable: %s" % e)
        return
    t0 = time.time()
    try:
        ns = c18.boot(ctx)
    except Exception as e:  # noqa
        ctx.broken("boot:c04:verit", "%s: %s" % (type(e).__name__, e))
        return
    impl.cur = ("verit", None)
    mut.rng = ctx.rng("genmut:verit")
    ncor, nmut = ctx.scale(16, 150), ctx.scale(2, 3)
    import io
    import contextlib
    for rule in sorted(GEN):
        rng = ctx.rng("verit:" + rule)
        G = Univ(ns, rng)
        for i in range(ncor):
            try:
                base = GEN[rule](G)
            except Exception:  # noqa
                ctx.count("generator-error:" + rule)
                continue
            if base is None:
                continue
            insts = [(base, "generated")]
            for _ in range(nmut):
                try:
                    m = mutate(G, base)
                except Exception:  # noqa
                    m = None
                if m is not None and wt(ns, m):
                    insts.append((m, "mutation"))
            for k, (inst, src) in enumerate(insts):
                name, args, prevs = assemble(inst)
                if name not in impl.theory.global_macros:
                    continue
                with contextlib.redirect_stdout(io.StringIO()):
                    oracle.run_one(name, args, prevs, {"kind": "verit-" + src, "rule": rule, "index": i}, src)
                    for (vk, a2) in context_variants(args):
                        oracle.run_one(name, a2, prevs, {"kind": "verit-" + src, "rule": rule, "index": i, "variant": vk}, "mutation")
                    if k == 0:                      # the generic mutator too (premise hypotheses, retyping, ...)
                        try:
                            m = mut.mutate(name, args, prevs)
                        except Exception:  # noqa
                            m = None
                        if m is not None:
                            oracle.run_one(name, m[1], m[2], {"kind": "verit-mutation", "rule": rule, "index": i, "mutation": m[0]}, "mutation")
    FG = FamGen(ctx.rng("verit:imp-conj-disj"))
    for i in range(ctx.scale(80, 800)):
        for (nm, a, t) in FG.conj_disj():
            nm2 = "verit_" + nm
            org = {"kind": "generated", "family": "verit-imp-conj-disj", "index": i}
            oracle.run_one(nm2, a, t, org, "generated")
            try:
                m = mut.mutate(nm2, a, t)
            except Exception:  # noqa
                m = None
            if m is not None:
                oracle.run_one(nm2, m[1], m[2], dict(org, mutation=m[0]), "mutation")
    ctx.coverage["verit_generators"] = "harness/props/c18.py: %d rules" % len(GEN)
    ctx.log("veriT stream: %d rules in %.1fs; findings so far: %d" % (len(GEN), time.time() - t0, len(oracle.found)))


def replay(ctx, rp):
    """Re-run one recorded failing input on the implementation; True if it still fails."""
    r = rp["replay"]
    impl = Impl(ctx)
    if r.get("kind") == "synthetic-export":
        load_state(impl, "logic_base", None)
        tie = ExportTie(ctx, impl, 0)
        tie.synthetic(int(r["index"]) + 1)
        for v in ctx.violations:
            print("still fails:", v[1][:400])
        return bool(ctx.violations)
    if not r.get("input"):
        print("replay has no encoded input")
        return False
    hist = r.get("history")
    if hist and "integral.proof" in (hist.get("setup") or {}).get("modules", []):
        import importlib
        importlib.import_module("integral.proof")
    load_state(impl, r.get("theory"), r.get("limit"))
    args = dec_obj(r["input"]["args"])
    ths = [dec_obj(t) for t in r["input"]["prevs"]]
    if hist:
        apply_setup(impl, hist.get("setup"))
        impl.auto.clear_cache()
        for h in hist["prior"]:
            rr = judge(impl, h["macro"], dec_obj(h["args"]), [dec_obj(t) for t in h["prevs"]], limit=120, off=h.get("off", 0))
            print("earlier call %s: eval=%s expand=%s verdict=%s" % (h["readable"][:150], rr["eval"], rr["expand"], rr["verdict"]))
    res = judge(impl, r["macro"], args, ths, limit=120, off=r.get("off", 0))
    if r.get("verdict") == "expansion-never-produced":
        print("macro %s: eval=%s expand=%s" % (r["macro"], res["eval"], res["expand"]))
        return res["eval"] == "ok" and res["expand"] != "ok"
    print("macro %s: eval=%s expand=%s check=%s verdict=%s" % (r["macro"], res["eval"], res["expand"], res["check"], res["verdict"]))
    print("  eval reports:    %s" % safe_str(res.get("th_eval")))
    print("  expansion proves: %s" % safe_str(res.get("th_exp")))
    return res["verdict"] not in GOOD


MANIFEST = {
    "text": "Lean theorems about an executable model of ProofTerm.export (prefix ids, seq_to_id sharing, citations) and of the checker's "
            "expansion branch: for every proof term whose nodes satisfy the constructor invariant the exported lines check, state exactly "
            "the root sequent (same conclusion, no added hypothesis) and cite only earlier lines / admissible lines (export_check, "
            "export_shared_sequent for every dictionary lookup that identifies only Thm.__eq__-equal sequents); for macros with the default "
            "eval/expand and a parametric get_proof_term the checked expansion equals eval (default_eval_expand, and default_eval_expand_bare_premise for a proof term that is a premise unchanged, which expand restates); export_dag_lines_unique: for derivations that do not repeat a sequent along a path every sequent is exported at most once. Per-macro theorems on the shared kernel model (15 primitive rules, C01 checker model runScriptAx): macro_eval_eq_expand_trivial, _intros (assumption premises), _apply_theorem (first-order monomorphic theorem, type-complete instantiation without remaining schematic variables): whenever the modelled eval reports th and the checker model accepts the modelled expansion script, the last theorem of the script is th; plus trivial_eval_spec / intros_eval_spec (no hypotheses added). Further macro bodies inside the model (PropsMacro2.lean), same form of theorem: macro_eval_eq_expand_intros_vars (`intros` without exists arguments: `_VAR` declarations -> forall_intr and assumptions -> implies_intr in any order, all premises; introsVEval_extends: it extends the assumption-only model), macro_eval_eq_expand_apply_theorem_svars (`apply_theorem`, first-order monomorphic theorem, schematic variables may REMAIN and are generalised by forall_intr lines), macro_eval_eq_expand_apply_theorem_for (`apply_theorem_for` = the same class with with_inst, for EVERY matcher oracle started from the given instantiation), macro_eval_eq_expand_forall_elim_gen_partial (`forall_elim_gen`, under the explicit hypothesis that the instance is beta-normal; the evaluation is modelled in both branches) and macro_eval_eq_expand_apply_fact_for_partial (`apply_fact_for` with at least one argument, instantiated fact beta-normal and premises literally the assumptions). The macro registry "
            "(level, eval/expand/get_proof_term overrides) is regenerated from the sources and the lists of eval-overriding and of trusted "
            "(level 0) macros are pinned by `decide`. Per-macro agreement of eval and expansion is NOT proved: it is validated on every run by "
            "the real checker (check_level=0) on inputs harvested from the stored library proofs (incl. the nested steps of expansions), "
            "their mutations, per-family generators and the veriT rule generators.",
    "note": "Partial: the bodies of most of the 144 macros are not modelled; 107 of them override eval, so for these agreement is evidence per input "
            "(counts per macro in evidence: inputs / eval ok / expansion produced / compared / agree; macros never reached are listed). "
            "Besides eval = checked expansion the oracle requires that an expansion cites only the premises given to that call (or its own "
            "earlier lines), has no gaps, that a proof term which is a cited premise unchanged can still be turned into proof lines (expansion-is-bare-premise), and that a macro above the default trust level produces an expansion on at least one of the DIRECTED (seed-independent: fixed random seed, run first) inputs on "
            "which its eval succeeds. The macro models (trivial, intros, intros with variables, apply_theorem, apply_theorem with remaining variables, apply_theorem_for, forall_elim_gen, apply_fact_for) are tied to logic/logic.py on harvested and generated invocations through the driver (model eval vs real eval, model script vs the real exported lines rule by rule, model script run by runScriptAx vs real eval), and on a directed stream of valid and near-miss inputs (variable free in a hypothesis, premise that is neither declaration nor assumption, too many premises, wrong number / type of instantiation arguments, premise that is not the assumption, redex-creating instances) on which the model evaluation must refuse exactly when the real eval raises. NOT proved (validated per run only): all other macros; the exists case of intros; trivial with quantifiers; the polymorphic and higher-order (beta-normalising) cases of apply_theorem(_for), theorems with hypotheses, an empty instantiation; the beta-normalising branches of forall_elim_gen / apply_fact_for and apply_fact_for without arguments; every macro that runs a conversion (beta_norm, rewrite_goal, rewrite_fact, rewrite_goal_with_prev, imp_conj, imp_disj, resolve_theorem, apply_fact) - their proof terms are trees of conversion steps whose export order and sharing are not modelled per macro. In the apply_theorem(_for) theorems the matcher's answer is an argument (any), and the type part of the instantiation must be complete (hypothesis htc). Model tied to kernel/proofterm.py by differential runs of the compiled driver on harvested and synthetic proof terms (line "
            "structure: ids, rules, citations, sequents; checker verdict with all macros evaluated) and on ItemID.can_depend_on. An input on "
            "which eval raises while an expansion exists is counted (no-evaluation), not a violation, for macros with their own eval. "
            "Trusted: Lean kernel + propext/Classical.choice/Quot.sound, the harness (recorder, mutators, generators, comparison), "
            "theory.check_proof as judge of expansions (C01/C02), the ast reader of the registry, harness/props/c18.py generators for veriT "
            "(if absent the veriT stream is skipped and reported). Thm hash collisions in seq_to_id are outside the model (covered by the "
            "general-`same` theorem under RuleCompat).",
    "design_ref": "DESIGN.md 4/C04",
}
FINDINGS = [
    {"status": "fixed", "key": "nat_const_ineq:conclusion-differs:types-only", "commit": "d00d59f",
     "what": "nat_const_ineq on ~((2::real) = 0): eval reports |- ~((2::real) = 0), the expansion proves |- ~((2::nat) = 0)"},
    {"status": "fixed", "key": "nat_const_ineq:conclusion-differs:structure", "commit": "d00d59f",
     "what": "nat_const_ineq on ~(of_nat 1 = (0::nat)): eval reports the goal, the expansion proves the normal form ~((1::nat) = 0)"},
    {"status": "fixed", "key": "imp_conj:conclusion-differs:head", "commit": "c112fcb",
     "what": "imp_conj on `A & A` (not an implication): eval reports |- A & A, the expansion proves |- A --> A"},
    {"status": "fixed", "key": "imp_disj:conclusion-differs:head", "commit": "a3719ed",
     "what": "imp_disj on `E | E`: eval reports |- E | E, the expansion proves |- E --> E"},
    {"status": "fixed", "key": "prove_avalI:conclusion-differs:head", "commit": "ca82104",
     "what": "prove_avalI on `r s t n` with another head constant r: eval reports |- r s t n, the expansion proves |- avalI s t n"},
    {"status": "fixed", "key": "imp_to_or:conclusion-differs:structure", "commit": "bf1fcfa",
     "what": "imp_to_or args=(~c, ~c | a) prevs=[|- a]: eval reports |- ~c | a, the expansion proves |- ~c | ~~(~c | a) | a (goal argument treated as a literal)"},
    {"status": "fixed", "key": "verit_eq_congruent_pred:expansion-rejected:output-does-not-match", "commit": "bf1fcfa",
     "what": "verit_eq_congruent_pred on ~(x = y) | P x | ~P y: every expansion ends in an imp_to_or step that the checker rejects"},
    {"status": "fixed", "key": "verit_eq_congruent:expansion-rejected:output-does-not-match", "commit": "fe79923",
     "what": "verit_eq_congruent on ~(y = w) | f w = f y: expansion assumes w = y, which the literal does not discharge; checker rejects (also needs C04-5)"},
    {"status": "fixed", "key": "verit_th_resolution:expansion-rejected:AssertionError", "commit": "acd240b",
     "what": "verit_th_resolution on [|- false | a, |- ~a | ~d] -> ~d | false: nested swap_disj_to_front / combine_disj_clauses expand to the bare premise, `export: atom` (C04-6, C04-7)"},
    {"status": "fixed", "key": "verit_norm_lia:conclusion-differs:structure", "commit": "885296f",
     "what": "verit_norm_lia on i: eval reports |- i = 0 + i, the expansion proves |- i = 1 * i"},
    {"status": "fixed", "key": "verit_norm_lra:conclusion-differs:structure", "commit": "433f6f9",
     "what": "verit_norm_lra on s: eval reports |- s = 0 + s, the expansion proves |- s = 1 * s"},
    {"status": "fixed", "key": "verit_la_generic:expansion-rejected:output-does-not-match", "commit": "885296f",
     "what": "verit_la_generic: every expansion with a verit_norm_lia/lra step is rejected by the checker (C04-9, C04-10)"},
    {"status": "fixed", "key": "fun_upd_eval:expansion-rejected:TypeInferenceException", "commit": "d00d59f",
     "what": "fun_upd_eval on ((%x::int. 0)(0 := 1)) 3 = 0: the expansion contains a nat_const_ineq step on int numerals (accepted by its eval before C04-1)"},
    {"status": "fixed", "key": "fun_upd_eval:expansion-rejected:output-does-not-match", "commit": "d00d59f",
     "what": "same cause as above"},
    {"status": "fixed", "key": "intros:expansion-rejected:InvalidDerivationException", "commit": "aa633e8",
     "what": "intros args=[?m. n = 2 * m] prevs=[|- ?m. n = 2 * m, |- _VAR m, n = 2 * m |- n = 2 * m, |- (%m. n = 2 * m) n]: the nested "
             "apply_theorem exE step evaluates (premises matched up to beta) but its expansion raises, so the checker rejects the expansion of intros"},
    {"status": "fixed", "key": "verit_bfun_elim:expansion-is-bare-premise", "commit": "a7ef2b0",
     "what": "verit_bfun_elim args=(!x. P x,) prevs=[|- !x. P x] (nothing to eliminate): eval reports |- !x. P x, get_proof_term returns the cited "
             "premise unchanged, ProofTerm.export refuses it (export: atom); same for beta_norm on a beta-normal fact, apply_fact_for [] on a fact "
             "without quantifiers, rewrite_goal / rewrite_goal_with_prev(_sym) when the rewritten goal is the premise itself"},
    {"status": "fixed", "key": "verit_bfun_elim:expansion-never-produced", "commit": "a7ef2b0",
     "what": "seed-dependent form of the finding above (the rule is now judged on seed-independent directed inputs only)"},
    {"status": "fixed", "key": "beta_norm:expansion-is-bare-premise", "commit": "a7ef2b0",
     "what": "beta_norm prevs=[|- P x]: eval reports |- P x, the expansion is the cited premise itself and cannot be exported"},
    {"status": "fixed", "key": "apply_fact_for:expansion-is-bare-premise", "commit": "a7ef2b0",
     "what": "apply_fact_for [] prevs=[|- A]: as above"},
    {"status": "fixed", "key": "rewrite_goal:expansion-is-bare-premise", "commit": "a7ef2b0", "what": "as above"},
    {"status": "fixed", "key": "rewrite_goal_with_prev:expansion-is-bare-premise", "commit": "a7ef2b0", "what": "as above"},
    {"status": "fixed", "key": "rewrite_goal_with_prev_sym:expansion-is-bare-premise", "commit": "a7ef2b0", "what": "as above"},
    {"status": "fixed", "key": "rewrite_goal:conclusion-differs:head", "commit": "bcbe52b",
     "what": "rewrite_goal ('if_P', P) prevs=[|- false] (the theorem does not rewrite the goal): eval reports |- P, the proof term is the premise "
             "|- false (ProofTerm.equal_elim skipped a reflexive equation without comparing statements); visible once C04-13 lets such a proof term be exported"},
    {"status": "fixed", "key": "verit_or:expansion-never-produced", "commit": "6f6fccd",
     "what": "verit_or args=(a, false) prevs=[|- a | false]: eval reports |- a | false but get_proof_term returns the cited premise itself, which "
             "ProofTerm.export refuses (export: atom): no expansion on any input on which eval succeeds"},
    {"status": "fixed", "key": "verit_not_implies1:hypotheses-added:premise-hypotheses-missing-in-eval", "commit": "f582d63",
     "what": "verit_not_implies1 on H3 |- ~(a --> e): eval reports |- a, the expansion proves H3 |- a (repaired by the C18 patch)"},
    {"status": "fixed", "key": "verit_not_implies2:hypotheses-added:premise-hypotheses-missing-in-eval", "commit": "f582d63",
     "what": "verit_not_implies2: eval drops the premise's hypotheses (repaired by the C18 patch)"},
    {"status": "fixed", "key": "verit_subproof:hypotheses-added:premise-hypotheses-missing-in-eval", "commit": "818000f",
     "what": "verit_subproof: eval drops hypotheses that the expansion keeps (repaired by the C18 patch)"},
    {"status": "fixed", "key": "verit_and_pos:conclusion-differs:structure", "commit": "2a30d1c",
     "what": "verit_and_pos on ((d | ~c), ~c): eval reports |- (d | ~c) | ~c, the expansion proves |- ~~c | ~c (repaired by the C18 patch)"},
]
